"""C02 -- seeded environments are reproducible and isolated from every global RNG."""
from __future__ import annotations

import ast
from typing import Dict, List, Optional, Set, Tuple

from ..core import AnalysisError, src
from ..effects import RNG_METHODS, Effects
from ..guards import GuardWalk, atoms_of, show, strip_iter, walk_function
from ..index import PKG, Cls, Func, Module, RepoIndex
from ..settype import SetTypes

EXPLANATION = (
    'RNG discipline decided on the call graph of the whole package: no call of the stdlib '
    'random module, of the legacy numpy.random functions, os.urandom, time-as-data, id() or '
    'hash() outside __hash__; the only generator constructor is default_rng(seed) in '
    'make_rng and the library-level generator is written only by reset_gv_rng; in every '
    'function with an rng parameter each draw uses that parameter (or its rebinding through '
    'get_gv_rng_if_none); every call to a callee (or registry family, for calls through a '
    'component parameter) that may draw forwards the generator -- with a conditional-draw '
    'summary (draws guarded by a boolean parameter left False do not count) computed to a '
    'fixpoint; GridWorld threads self._rng, assigned only by set_seed; set-typed expressions '
    '(inferred from annotations, constructors, set algebra, per-class attributes) are only '
    'consumed in order-free ways; every gv_debug() gate has a raise-only body; no component '
    'writes a module global.')
TRUSTED = ['bit-for-bit stability of numpy Generator streams across numpy versions',
           'custom components imported through module:name are out of scope']

RNG = 'gym_gridverse/rng.py'
DBG = 'gym_gridverse/debugging.py'
GW = 'gym_gridverse/envs/gridworld.py'

LEGACY_NUMPY = {'seed', 'rand', 'randn', 'randint', 'random', 'random_sample', 'choice',
                'shuffle', 'permutation', 'uniform', 'normal', 'sample', 'ranf',
                'random_integers', 'bytes', 'get_state', 'set_state', 'binomial', 'poisson',
                'RandomState'}


def generator_receiver(m: Module, e: ast.AST) -> Optional[str]:
    """classify the receiver of a draw method: 'param' (name rng), 'self' (self._rng),
    'numpy-global', 'stdlib-random', 'other:<text>'"""
    s = src(e)
    if isinstance(e, ast.Name):
        imp = m.imports.get(e.id)
        if imp is not None and imp[0] == 'module':
            if imp[1] in ('numpy.random',):
                return 'numpy-global'
            if imp[1] == 'random':
                return 'stdlib-random'
            return None
        if e.id == 'rng':
            return 'param'
        return f'other:{s}'
    if s == 'self._rng':
        return 'self'
    if s in ('np.random', 'numpy.random'):
        return 'numpy-global'
    if isinstance(e, ast.Call):
        return f'other:{s}'
    return None


class RngModel:
    def __init__(self, index: RepoIndex, eff: Effects):
        self.index = index
        self.eff = eff
        # qualname -> list of sites: (line, text, frozenset(required truthy params), kind)
        self.sites: Dict[str, List[Tuple[int, str, frozenset, str]]] = {}
        self._direct()
        self._propagate()

    def bool_params(self, f: Func) -> Set[str]:
        out = set()
        for p, d in f.param_defaults().items():
            if isinstance(d, ast.Constant) and isinstance(d.value, bool):
                out.add(p)
        for p in f.params():
            if p.annotation is not None and src(p.annotation) == 'bool':
                out.add(p.arg)
        return out

    def required(self, f: Func, guard) -> frozenset:
        g = strip_iter(guard)
        parts = list(g[1:]) if g[0] == 'and' else ([] if g == ('true',) else [g])
        bp = self.bool_params(f)
        req = set()
        for p in parts:
            if p[0] == 'atom' and isinstance(p[1], ast.Name) and p[1].id in bp:
                req.add(p[1].id)
        return frozenset(req)

    def _direct(self) -> None:
        for q, f in self.eff.funcs.items():
            w = self.eff.walks[q]
            sites = []
            for e in w.events:
                if e.kind != 'call' or not isinstance(e.node.func, ast.Attribute):
                    continue
                if e.node.func.attr not in RNG_METHODS:
                    continue
                kind = generator_receiver(f.module, e.node.func.value)
                if kind is None:
                    continue
                sites.append((e.line, src(e.node)[:80], self.required(f, e.guard), kind))
            self.sites[q] = sites

    def may_draw(self, t: Func, call: Optional[ast.Call], caller: Optional[Func]) -> bool:
        """whether calling t through `call` can reach a draw"""
        tq = self.eff.qual(t)
        sites = self.sites.get(tq, [])
        if not sites:
            return False
        if call is None:
            return True
        b = self.eff.bind_args(t, call)
        defaults = t.param_defaults()
        for (_, _, req, _) in sites:
            possible = True
            for p in req:
                a = b.get(p)
                if a is None:
                    d = defaults.get(p)
                    if isinstance(d, ast.Constant) and d.value is False:
                        possible = False
                elif isinstance(a, ast.Constant) and a.value is False:
                    possible = False
            if possible:
                return True
        return False

    def _propagate(self) -> None:
        for _ in range(30):
            changed = False
            for q, f in self.eff.funcs.items():
                w = self.eff.walks[q]
                for e in w.events:
                    if e.kind != 'call':
                        continue
                    for t in self.eff.resolve(q, e.node):
                        tq = self.eff.qual(t)
                        if tq == q or not self.sites.get(tq):
                            continue
                        if not self.may_draw(t, e.node, f):
                            continue
                        # translate the callee's requirements through the binding
                        b = self.eff.bind_args(t, e.node)
                        base = self.required(f, e.guard)
                        bp = self.bool_params(f)
                        reqs = set()
                        for (_, _, req, _) in self.sites[tq]:
                            mine = set(base)
                            ok = True
                            for p in req:
                                a = b.get(p)
                                if a is None:
                                    d = t.param_defaults().get(p)
                                    if isinstance(d, ast.Constant) and d.value is False:
                                        ok = False
                                elif isinstance(a, ast.Constant):
                                    if a.value is False:
                                        ok = False
                                elif isinstance(a, ast.Name) and a.id in bp:
                                    mine.add(a.id)
                            if ok:
                                reqs.add(frozenset(mine))
                        for r in reqs:
                            site = (e.line, f'{src(e.node)[:60]} -> {t.short}', r, 'callee')
                            if site not in self.sites[q]:
                                self.sites[q].append(site)
                                changed = True
            if not changed:
                return
        raise AnalysisError('may-draw summary did not reach a fixpoint')


def rng_forwarding(index: RepoIndex, rep, rule: str, eff=None, rm=None) -> None:
    """every call to a callee that may draw forwards the generator of the caller (C02.R3; also
    the part of C04 that makes the seed alone decide a trajectory)"""
    eff = eff or Effects(index)
    rm = rm or RngModel(index, eff)
    for q, f in sorted(eff.funcs.items()):
        if not f.relpath.startswith(PKG):
            continue
        w = eff.walks[q]
        in_scope = 'rng' in w.params or (f.cls is not None and f.cls.name == 'GridWorld')
        if not in_scope:
            continue
        for e in w.events:
            if e.kind != 'call':
                continue
            targets = [t for t in eff.resolve(q, e.node)
                       if any(p.arg == 'rng' for p in t.params())]
            drawing = [t for t in targets if rm.may_draw(t, e.node, f)]
            if not drawing:
                continue
            t0 = drawing[0]
            b = eff.bind_args(t0, e.node)
            a = b.get('rng')
            want = 'self._rng' if 'rng' not in w.params else 'rng'
            ok = a is not None and (src(a) == want or src(w.expand(a)) == want)
            fam = '' if len(targets) == 1 else f' (family of {len(targets)})'
            rep.check(ok, rule, f.relpath, f.short, e.line, src(e.node)[:120],
                      f'call to {t0.short}{fam}, which may draw, passes rng='
                      f'{src(a) if a is not None else "<nothing>"}, not {want}: the draw falls '
                      f'back to the library-level generator', f'{f.short} -> {t0.short}')



def run(index: RepoIndex, rep) -> None:
    rep.rule('C02.R1', 'no global randomness: stdlib random, legacy numpy.random, urandom, '
             'id(), hash() outside __hash__; one generator constructor; _gv_rng written only '
             'by reset_gv_rng', floor=5)
    rep.rule('C02.R2', 'draws use the threaded `rng` parameter (or its get_gv_rng_if_none '
             'rebinding); get_gv_rng only inside rng.py', floor=15)
    rep.rule('C02.R3', 'every call to a callee that may draw forwards the generator', floor=20)
    rep.rule('C02.R4', 'GridWorld threads self._rng (assigned only by set_seed/__init__) to '
             'reset, transition and observation; reward/termination families never draw',
             floor=6)
    rep.rule('C02.R5', 'set-typed expressions are consumed only in order-free ways', floor=10)
    rep.rule('C02.R6', 'gv_debug() only gates raise-only checks', floor=5)
    rep.rule('C02.R7', 'no component writes a module global / class attribute / mutable '
             'default', floor=30)
    eff = Effects(index)
    rm = RngModel(index, eff)

    # ---------------------------------------------------------------- R1
    n_calls = 0
    for mod in index.modules.values():
        if not mod.relpath.startswith(PKG):
            continue
        stdlib_random = {loc for loc, imp in mod.imports.items()
                         if (imp[0] == 'module' and imp[1] == 'random')
                         or (imp[0] == 'attr' and imp[1] == 'random')}
        np_random = {loc for loc, imp in mod.imports.items()
                     if imp[0] == 'module' and imp[1] == 'numpy.random'}
        for fn in [None] + [f for f in index.all_functions(PKG) if f.module is mod]:
            nodes = ast.walk(fn.node) if fn is not None else \
                [n for st in mod.tree.body if not isinstance(st, (ast.FunctionDef, ast.ClassDef))
                 for n in ast.walk(st)]
            fname = fn.short if fn is not None else '<module>'
            for n in nodes:
                if not isinstance(n, ast.Call):
                    continue
                n_calls += 1
                fs = src(n.func)
                bad = None
                if isinstance(n.func, ast.Attribute) and isinstance(n.func.value, ast.Name):
                    base = n.func.value.id
                    if base in stdlib_random:
                        bad = f'stdlib random.{n.func.attr}: a global random source'
                    elif base in np_random and n.func.attr in LEGACY_NUMPY:
                        bad = f'legacy numpy.random.{n.func.attr}: the global numpy generator'
                    elif base in np_random and n.func.attr == 'default_rng' and \
                            not (mod.relpath == RNG and fname == 'make_rng'):
                        bad = 'a generator is constructed outside rng.make_rng'
                if fs.startswith(('np.random.', 'numpy.random.')):
                    attr = fs.split('.')[-1]
                    if attr in LEGACY_NUMPY:
                        bad = f'legacy {fs}: the global numpy generator'
                    elif attr == 'default_rng':
                        bad = 'a generator is constructed outside rng.make_rng'
                if isinstance(n.func, ast.Name) and n.func.id in stdlib_random:
                    bad = f'stdlib random function {n.func.id}'
                if fs in ('os.urandom', 'secrets.token_bytes', 'uuid.uuid4', 'time.time',
                          'time.time_ns', 'time.perf_counter', 'time.monotonic',
                          'datetime.now', 'datetime.datetime.now'):
                    bad = f'{fs}: a nondeterministic global source'
                if fs == 'id':
                    # an address used only to pick an entry of a table (`memo[id(f)]`) selects
                    # storage; it is a value of the computation anywhere else
                    scope = fn.node if fn is not None else mod.tree
                    as_key = any(isinstance(p_, ast.Subscript) and p_.slice is n
                                 for p_ in ast.walk(scope))
                    if not as_key:
                        bad = 'id(): address-dependent value'
                if fs == 'hash' and not (fn is not None and fn.name == '__hash__'):
                    bad = 'hash() outside __hash__: varies with PYTHONHASHSEED'
                if bad:
                    rep.violation('C02.R1', mod.relpath, fname, n.lineno, src(n)[:100], bad)
    rep.holds('C02.R1', 'scan', f'{n_calls} call sites of the package scanned for global '
              'random sources')
    mk = index.func(RNG, 'make_rng')
    sp = mk.node.args.args[0].arg if mk.node.args.args else ''
    wmk = walk_function(mk.node)
    rets = [e for e in wmk.events if e.kind == 'return']
    numpy_alias = {n for n, imp in mk.module.imports.items()
                   if (imp[0] == 'module' and imp[1] in ('numpy.random', 'numpy')) or
                   imp == ('attr', 'numpy', 'random')}
    BITGENS = {'PCG64', 'PCG64DXSM', 'MT19937', 'Philox', 'SFC64'}

    def _np_name(e: ast.AST) -> str:
        """`rnd.default_rng` / `np.random.PCG64` / a module constant bound to one -> its name"""
        if isinstance(e, ast.Name):
            vals = mk.module.assigns.get(e.id)
            if vals and len(vals) == 1:
                return _np_name(vals[0])
            imp = mk.module.imports.get(e.id)
            if imp and imp[0] == 'attr' and imp[1] == 'numpy.random':
                return imp[2]
            return ''
        if isinstance(e, ast.Attribute):
            root = e
            while isinstance(root, ast.Attribute):
                root = root.value
            if isinstance(root, ast.Name) and root.id in numpy_alias:
                return e.attr
        return ''

    def _seeded(v: ast.AST) -> Optional[bool]:
        """True: a fresh generator determined by the seed parameter; False: a generator that
        ignores it; None: outside the grammar"""
        if not isinstance(v, ast.Call):
            return None
        name = _np_name(v.func)
        args = list(v.args) + [k.value for k in v.keywords]
        if name == 'default_rng':
            return len(args) == 1 and src(args[0]) == sp
        if name == 'Generator' and len(args) == 1 and isinstance(args[0], ast.Call) and \
                _np_name(args[0].func) in BITGENS:
            inner = list(args[0].args) + [k.value for k in args[0].keywords]
            return len(inner) == 1 and src(inner[0]) == sp
        return None
    # the seed reaches the constructor as given: a rebinding of the parameter replaces it on
    # some path (`if not isinstance(seed, int): seed = None` drops numpy integer seeds)
    rebinds = [d for d in wmk.defs.get(sp, []) if d[0] in ('value', 'aug', 'unpack')]
    for d in rebinds:
        v = d[1] if d[0] == 'value' else None
        if isinstance(v, ast.Constant):
            rep.violation('C02.R1', RNG, 'make_rng', getattr(v, 'lineno', mk.node.lineno),
                          f'{sp} = {src(v)}',
                          f'make_rng replaces its seed by `{src(v)}` when '
                          f'`{show(strip_iter(d[3]))[:100]}`: the generator then does not depend '
                          f'on the seed that was given (same seed, different trajectories)')
        else:
            raise AnalysisError(f'make_rng: the seed parameter is rebound '
                                f'(`{src(v) if v is not None else sp}`) before it is used')
    verdicts = [(_seeded(wmk.expand(e.value)) if e.value is not None else False, e)
                for e in rets]
    if not rets or any(v is None for v, _ in verdicts):
        bad_e = next((e for v, e in verdicts if v is None), None)
        raise AnalysisError('make_rng: return value `'
                            + (src(bad_e.value)[:80] if bad_e is not None else '<none>')
                            + '` is not a numpy generator constructor the rule knows')
    rep.check(all(v for v, _ in verdicts), 'C02.R1', RNG, 'make_rng',
              mk.node.lineno, '; '.join(src(e.stmt) for _, e in verdicts)[:160],
              'make_rng does not build default_rng(seed) from its seed parameter',
              'make_rng(seed)')
    writers = [q for q, s in eff.summ.items() if '_gv_rng' in s.global_writes
               and any('_gv_rng' in t for _, t in s.global_sites if 'global' in t or '=' in t)]
    direct = []
    for q, f in eff.funcs.items():
        w = eff.walks[q]
        if any(e.kind == 'global' and '_gv_rng' in e.node.names for e in w.events):
            direct.append(f.short)
    rep.check(direct == ['reset_gv_rng'], 'C02.R1', RNG, '_gv_rng', 1, ', '.join(direct),
              f'the library-level generator is written by {direct}, not only by reset_gv_rng',
              '_gv_rng writers')
    from ..guards import returns_by_none
    for name, term, if_none in (('get_gv_rng', '_gv_rng', 'reset_gv_rng()'),
                                ('get_gv_rng_if_none', 'rng', 'get_gv_rng()')):
        g = index.func(RNG, name)
        got = returns_by_none(walk_function(g.node), term)
        rep.check(got == {True: if_none, False: term},
                  'C02.R1', RNG, name, g.node.lineno, str(got),
                  f'{name} is not `{if_none} if {term} is None else {term}` (it yields {got}): '
                  f'the fallback generator would be used (or reset) when a generator is '
                  f'supplied', name)

    # ---------------------------------------------------------------- R2
    for q, f in sorted(eff.funcs.items()):
        if not f.relpath.startswith(PKG):
            continue
        w = eff.walks[q]
        has_rng = 'rng' in w.params
        for (line, text, req, kind) in rm.sites.get(q, []):
            if kind == 'callee':
                continue
            ok = (kind == 'param' and has_rng)
            if f.relpath == RNG and kind == 'param':
                ok = True
            rep.check(ok, 'C02.R2', f.relpath, f.short, line, text,
                      f'draw `{text}` uses {kind}, not the generator threaded through the `rng` '
                      f'parameter', f'{f.short}: draw on rng')
        # rebinding of rng
        for d in (w.defs.get('rng', []) if has_rng else []):
            if d[0] == 'value':
                v = src(d[1])
                rep.check(v == 'get_gv_rng_if_none(rng)', 'C02.R2', f.relpath, f.short,
                          getattr(d[1], 'lineno', f.node.lineno), f'rng = {v}',
                          f'`rng` is rebound to `{v}`: the supplied generator is dropped',
                          f'{f.short}: rng rebinding')
            else:
                rep.violation('C02.R2', f.relpath, f.short, f.node.lineno, 'rng',
                              '`rng` is rebound by something other than get_gv_rng_if_none(rng)')
        for e in w.events:
            if e.kind == 'call' and src(e.node.func) in ('get_gv_rng', 'reset_gv_rng') and \
                    f.relpath != RNG:
                rep.violation('C02.R2', f.relpath, f.short, e.line, src(e.node),
                              'the library-level generator is fetched/reset directly outside '
                              'rng.py')
            if e.kind == 'call' and src(e.node.func) == 'make_rng' and \
                    not (f.relpath == GW and f.name == 'set_seed') and f.relpath != RNG:
                rep.violation('C02.R2', f.relpath, f.short, e.line, src(e.node),
                              'a fresh generator is created outside GridWorld.set_seed')

    # ---------------------------------------------------------------- R3
    rng_forwarding(index, rep, 'C02.R3', eff, rm)

    # ---------------------------------------------------------------- R4
    gw = index.cls(GW, 'GridWorld')
    ss = gw.methods.get('set_seed')
    if ss is None:
        raise AnalysisError('anchor vanished: GridWorld.set_seed')
    w = walk_function(ss.node)
    sp = ss.node.args.args[1].arg
    st = [e for e in w.events if e.kind == 'attrstore' and src(e.target) == 'self._rng']
    rep.check(len(st) == 1 and src(st[0].value) == f'make_rng({sp})', 'C02.R4', GW,
              'GridWorld.set_seed', ss.node.lineno, '; '.join(src(e.stmt) for e in st),
              'set_seed does not assign self._rng = make_rng(seed)', 'set_seed')
    for mname, m in gw.methods.items():
        if mname in ('set_seed', '__init__'):
            continue
        ww = walk_function(m.node)
        for e in ww.events:
            if e.kind in ('attrstore', 'augstore') and src(e.target) == 'self._rng':
                rep.violation('C02.R4', GW, m.short, e.line, src(e.stmt),
                              'self._rng is assigned outside set_seed/__init__')
    for mod in index.modules.values():
        for n in ast.walk(mod.tree):
            if isinstance(n, ast.Assign) and mod.relpath != GW:
                for t in n.targets:
                    if isinstance(t, ast.Attribute) and t.attr == '_rng':
                        rep.violation('C02.R4', mod.relpath, '<module>', n.lineno, src(n),
                                      "an environment's generator is assigned outside "
                                      'gridworld.py')
    for mname, attr, has in (('functional_reset', 'self._reset_function', True),
                             ('functional_observation', 'self._observation_function', True)):
        m = gw.methods.get(mname)
        if m is None:
            raise AnalysisError(f'anchor vanished: GridWorld.{mname}')
        from ..view import view
        ww = view(index, m)[1]
        calls = [e for e in ww.events if e.kind == 'call' and src(e.node.func) == attr]
        ok = len(calls) == 1 and {k.arg: src(ww.expand(k.value))
                                  for k in calls[0].node.keywords}.get('rng') == 'self._rng'
        rep.check(ok, 'C02.R4', GW, f'GridWorld.{mname}', m.node.lineno,
                  '; '.join(src(c.node) for c in calls),
                  f'{mname} does not call {attr}(.., rng=self._rng) exactly once',
                  f'{mname} threads rng')
    m = gw.methods.get('functional_step')
    from ..view import step_wiring
    sw = step_wiring(index)
    ww = sw['walk']
    calls = sw['tcalls']
    ok = len(calls) == 1 and {k.arg: src(ww.expand(k.value))
                              for k in calls[0].node.keywords}.get('rng') == 'self._rng'
    rep.check(ok, 'C02.R4', GW, 'GridWorld.functional_step', m.node.lineno,
              '; '.join(src(c.node) for c in calls),
              'functional_step does not run the transition function with rng=self._rng '
              'exactly once', 'functional_step threads rng')
    for role in ('reward', 'terminating'):
        fam = index.registries.get(role, {})
        drawers = [n for n, f in fam.items() if rm.sites.get(eff.qual(f))]
        rep.check(not drawers, 'C02.R4', GW, 'GridWorld.functional_step', m.node.lineno,
                  f'{role} family', f'{role} functions {drawers} may draw but GridWorld calls '
                  f'the {role} component without rng', f'{role} family draw-free')

    # ---------------------------------------------------------------- R5
    set_order(index, rep, 'C02.R5', eff)

    # ---------------------------------------------------------------- R6
    debug_gates(index, rep, 'C02.R6', eff, rm)

    # ---------------------------------------------------------------- R7
    allowed_global = {'_gv_rng', '_gv_debug'}
    for q, f in sorted(eff.funcs.items()):
        if not f.relpath.startswith(PKG) or f.relpath in (RNG, DBG):
            continue
        s = eff.summ[q]
        w = eff.walks[q]
        direct_writes = set()
        for e in w.events:
            if e.kind == 'global':
                direct_writes |= set(e.node.names)
        for line, text in s.global_sites:
            if 'callee' in text:
                continue
        mine = {g for g in s.global_writes if g not in allowed_global}
        own = set()
        for e in w.events:
            if e.kind in ('store', 'attrstore', 'augstore'):
                root = e.target
                while isinstance(root, (ast.Attribute, ast.Subscript)):
                    root = root.value
                if isinstance(root, ast.Name) and root.id in mine and \
                        root.id not in w.params and root.id not in w.defs:
                    own.add(root.id)
            if e.kind == 'call' and isinstance(e.node.func, ast.Attribute):
                root = e.node.func.value
                while isinstance(root, (ast.Attribute, ast.Subscript)):
                    root = root.value
                if isinstance(root, ast.Name) and root.id in mine and \
                        root.id not in w.params and root.id not in w.defs:
                    own.add(root.id)
        own |= (direct_writes - allowed_global)
        is_component = any(f is g for r in index.registries.values() for g in r.values()) or \
            (f.cls is not None and f.cls.name in ('GridWorld', 'InnerEnv', 'Grid', 'Agent'))
        if own and (is_component or not f.relpath.endswith(('registry.py', 'grid_object.py'))):
            if f.relpath.endswith('utils/rl.py'):
                continue
            rep.violation('C02.R7', f.relpath, f.short, f.node.lineno, ', '.join(sorted(own)),
                          f'{f.short} writes module-level state {sorted(own)}: environments '
                          f'would share it')
        elif is_component:
            rep.holds('C02.R7', f'{f.relpath}:{f.short}', 'no global written')
        # mutable default arguments that are mutated
        for pname, d in f.param_defaults().items():
            if isinstance(d, (ast.List, ast.Dict, ast.Set)) or (
                    isinstance(d, ast.Call) and src(d.func) in ('list', 'dict', 'set')):
                if pname in s.mut_params:
                    rep.violation('C02.R7', f.relpath, f.short, f.node.lineno,
                                  f'{pname}={src(d)}', f'mutable default `{pname}` is mutated: '
                                  f'state shared across calls and environments')


def set_order(index: RepoIndex, rep, rule: str, eff: Effects) -> None:
    st = SetTypes(index)
    pending = True
    rounds = 0
    results = {}
    while pending and rounds < 6:
        pending = False
        rounds += 1
        for f in index.all_functions(PKG):
            for (verdict, line, text, reason) in st.scan_function(f):
                key = (f.qualname, line, text)
                if verdict == 'passes':
                    tq, pname = reason.split('|')
                    cur = st.extra_params.setdefault(tq, set())
                    # only parameters that are not annotated as sets need the extra mark
                    if pname not in cur:
                        cur.add(pname)
                        pending = True
                    results[key] = ('ok', f, line, text, f'passed to {tq}({pname})')
                else:
                    results[key] = (verdict, f, line, text, reason)
    for (verdict, f, line, text, reason) in results.values():
        site = f'{f.relpath}:{f.short}:{line}'
        if verdict == 'ok':
            rep.holds(rule, site, f'{text[:80]} -- {reason}')
        elif verdict == 'unknown':
            rep.undecided(rule, site, f'{text[:80]} -- {reason}')
        else:
            rep.violation(rule, f.relpath, f.short, line, text,
                          f'{reason}; enum members hash by name, so the order changes with '
                          f'PYTHONHASHSEED and the same seed gives different results in '
                          f'different processes')


def _truth(f, asg: Dict[str, bool]) -> bool:
    k = f[0]
    if k == 'true' or k == 'iter':
        return True
    if k == 'false':
        return False
    if k == 'not':
        return not _truth(f[1], asg)
    if k == 'and':
        return all(_truth(x, asg) for x in f[1:])
    if k == 'or':
        return any(_truth(x, asg) for x in f[1:])
    return asg[show(f)]


def _atom_keys(f, out: Set[str]) -> None:
    k = f[0]
    if k in ('atom', 'raises'):
        out.add(show(f))
    elif k == 'not':
        _atom_keys(f[1], out)
    elif k in ('and', 'or'):
        for x in f[1:]:
            _atom_keys(x, out)


def debug_gates(index: RepoIndex, rep, rule: str, eff: Effects, rm=None) -> None:
    """the debug flag only adds raises: for every valuation of the other conditions, a run
    with the flag on either raises or performs exactly the stores / returns / impure calls
    of the run with the flag off (decided on the guarded events of each function that reads
    gv_debug(), private helpers inlined, locals expanded)"""
    import itertools
    from ..view import view
    n = 0
    DEBUG = 'gv_debug()'
    funcs = list(index.all_functions(PKG))
    direct = {f.name for f in funcs if 'gv_debug' in {x.id for x in ast.walk(f.node)
                                                      if isinstance(x, ast.Name)}}
    for f in funcs:
        if f.relpath == DBG and f.name in ('gv_debug', 'reset_gv_debug'):
            continue
        mentioned = {x.id for x in ast.walk(f.node) if isinstance(x, ast.Name)} | \
            {x.attr for x in ast.walk(f.node) if isinstance(x, ast.Attribute)}
        if not (mentioned & (direct | {'gv_debug'})):
            continue
        node, w, _ = view(index, f)
        reads = [x for x in ast.walk(node) if isinstance(x, ast.Call)
                 and src(x.func) == 'gv_debug']
        if not reads:
            continue
        n += 1
        q = eff.qual(f)

        def impure(c: ast.Call) -> str:
            for t in (eff.resolve(q, c) if q in eff.funcs else []):
                ts = eff.summary(t)
                if ts.mut_params - {'self'} or (ts.global_writes - {'_gv_debug', '_gv_rng'}):
                    return f'{t.short} mutates {sorted(ts.mut_params)}'
                if rm is not None and rm.may_draw(t, None, f):
                    return f'{t.short} may draw random numbers'
            if isinstance(c.func, ast.Attribute) and c.func.attr in RNG_METHODS \
                    and 'rng' in src(c.func.value):
                return 'draws from a generator'
            return ''
        evs = []
        for e in w.events:
            g = w.expand_formula(strip_iter(e.guard))
            if e.kind in ('store', 'attrstore', 'augstore', 'delete'):
                evs.append(('effect', f'{src(e.target)} <- '
                            f'{src(e.value) if e.value is not None else ""}', g, e))
            elif e.kind == 'return':
                evs.append(('effect', f'return {src(w.expand(e.value)) if e.value is not None else None}',
                            g, e))
            elif e.kind == 'raise':
                evs.append(('raise', src(e.stmt), g, e))
            elif e.kind == 'call' and src(e.node.func) != 'gv_debug':
                why = impure(e.node)
                if why:
                    evs.append(('effect', f'call {src(e.node)} ({why})', g, e))
            elif e.kind == 'attrload' and f.cls is not None:
                # reading a property runs its getter: `self.observation` computes, memoises
                # and (for a stochastic observation function) draws
                pm = index.method(f.cls, e.node.attr)
                if pm is not None and pm.is_property() and eff.qual(pm) in eff.funcs:
                    ps_ = eff.summary(pm)
                    why = ''
                    if ps_.mut_params or (ps_.global_writes - {'_gv_debug', '_gv_rng'}):
                        why = f'getter mutates {sorted(ps_.mut_params)}'
                    elif rm is not None and rm.may_draw(pm, None, f):
                        why = 'getter may draw random numbers'
                    if why:
                        evs.append(('effect', f'read of property {src(e.node)} ({why})', g, e))
        if w.fall is not None:
            # falling off the end returns None, like a bare `return`
            evs.append(('effect', 'return None', w.expand_formula(strip_iter(w.fall)), None))
        keys: Set[str] = set()
        for _, _, g, _ in evs:
            _atom_keys(g, keys)
        # the flag must only be read as a condition
        cond_nodes: Set[int] = set()
        for x in ast.walk(node):
            if isinstance(x, (ast.If, ast.While, ast.IfExp, ast.Assert)):
                for y in ast.walk(x.test):
                    cond_nodes.add(id(y))
        free_reads = [x for x in reads if id(x) not in cond_nodes]
        for x in free_reads:
            # `flag = gv_debug()` is fine when the local is only used as a condition
            ok = False
            for st in ast.walk(node):
                if isinstance(st, ast.Assign) and st.value is x and len(st.targets) == 1 and \
                        isinstance(st.targets[0], ast.Name):
                    nm = st.targets[0].id
                    loads = [y for y in ast.walk(node) if isinstance(y, ast.Name)
                             and y.id == nm and isinstance(y.ctx, ast.Load)]
                    ok = all(id(y) in cond_nodes for y in loads)
            if not ok:
                rep.violation(rule, f.relpath, f.short, x.lineno, 'gv_debug()',
                              'gv_debug() is read outside a condition: behaviour depends on '
                              'the debug flag')
        others = sorted(keys - {DEBUG})
        if DEBUG not in keys:
            rep.holds(rule, f'{f.relpath}:{f.short}', 'debug flag read, no event depends on it')
            continue
        if len(others) > 14:
            raise AnalysisError(f'{f.short}: {len(others)} conditions around gv_debug()')
        bad = None
        for vals in itertools.product((False, True), repeat=len(others)):
            asg = dict(zip(others, vals))
            res = {}
            for d in (False, True):
                asg[DEBUG] = d
                fired = frozenset(t for k, t, g, _ in evs if k == 'effect' and _truth(g, asg))
                raised = [t for k, t, g, _ in evs if k == 'raise' and _truth(g, asg)]
                res[d] = (fired, raised)
            if res[False][1] and not res[True][1]:
                bad = (asg, f'`{res[False][1][0]}` is raised only with the flag off')
            elif not res[True][1] and not res[False][1] and res[True][0] != res[False][0]:
                diff = sorted(res[True][0] ^ res[False][0])
                bad = (asg, f'`{diff[0][:80]}` happens with the flag '
                            f'{"on" if diff[0] in res[True][0] else "off"} only')
            if bad:
                break
        cond = ', '.join(f'{k}={v}' for k, v in sorted((bad[0] if bad else {}).items())
                         if k != DEBUG)
        rep.check(bad is None, rule, f.relpath, f.short, f.node.lineno,
                  f'gv_debug() in {f.short}',
                  'the debug flag changes more than whether a check raises: '
                  + (f'{bad[1]} (when {cond})' if bad else '')
                  + ': runs with the flag on and off would differ',
                  f'{f.short}: debug gate raise-only')
    if n == 0:
        raise AnalysisError('no gv_debug() gate found in the package')
