"""C18 -- geometry is a consistent algebra of quarter turns and rigid motions.

Everything is decided on tables and formulas *extracted* from geometry.py / grid.py /
envs/utils.py; because the extracted formulas are linear, the finite obligations imply the
laws for all integer coordinates (DESIGN.md appendix A.1)."""
from __future__ import annotations

import ast
import itertools

from ..affine import Aff
from ..core import AnalysisError, src
from ..geom import GEOM, GRID, A, GeoInterp, Geometry, IndexMap, P
from ..guards import show, strip_iter, walk_function
from ..index import RepoIndex

EXPLANATION = (
    'Static extraction of the three literal orientation tables, of the per-heading '
    'branches of Orientation.__mul__ (as integer 2x2 matrices and interval maps), of the '
    'Position/Transform operators (as affine forms, evaluated by a symbolic interpreter '
    'over the extracted data) and of the grid rotation functions (as affine index maps); '
    'then finite group / homomorphism / action / inverse obligations are checked. The '
    'forms are linear, so the finite obligations imply the laws for all integer positions, '
    'areas and transforms. Nothing of gym_gridverse is imported or executed.')
TRUSTED = ['Python semantics of the literal tables and arithmetic expressions extracted',
           'list semantics of x[::-1], zip(*x), list(row) used by the index-map abstraction']

UTILS = 'gym_gridverse/envs/utils.py'
I2 = ((1, 0), (0, 1))


def mm(a, b):
    return tuple(tuple(sum(a[i][k] * b[k][j] for k in range(2)) for j in range(2))
                 for i in range(2))


def mv(a, v):
    return tuple(sum(a[i][k] * v[k] for k in range(2)) for i in range(2))


def front_rule(index: RepoIndex, rep, rule: str, g=None, gi=None) -> None:
    """Agent.front() denotes the cell one step ahead, position + M(heading)·delta(FORWARD),
    for every heading (shared by the rules about the faced cell: C10, C18)"""
    g = g or Geometry(index)
    gi = gi or GeoInterp(g)
    af = index.func('gym_gridverse/agent.py', 'Agent.front')
    for o in g.orients:
        Tt = ('T', P('py', 'px'), ('O', o))
        d = g.delta[o]
        try:
            r = gi.call(af, {af.node.args.args[0].arg: Tt})
        except (AnalysisError, RecursionError) as err:
            # an expression the symbolic pose algebra cannot read (a clamp, a guard on the
            # sign of a coordinate): folded at constant poses instead.  A pose where the
            # result is not one cell ahead is a counterexample (a verdict); agreement at every
            # sampled pose proves nothing and the check stops (exit 2)
            wit = None
            for py in (0, 1, 4, -1, -2):
                for px in (0, 1, 4, -1, -2):
                    Tc = ('T', ('P', (Aff.const(py), Aff.const(px))), ('O', o))
                    try:
                        rc = gi.call(af, {af.node.args.args[0].arg: Tc})
                    except (AnalysisError, RecursionError):
                        raise AnalysisError(f'Agent.front: {err}')
                    if rc != ('P', (Aff.const(py + d[0]), Aff.const(px + d[1]))) and \
                            wit is None:
                        wit = (py, px, rc)
            if wit is None:
                raise AnalysisError(f'Agent.front: {err}')
            rep.violation(rule, 'gym_gridverse/agent.py', 'Agent.front', af.node.lineno,
                          'Agent.front', f'Agent.front with heading {o} at position '
                          f'({wit[0]}, {wit[1]}) is {wit[2]}, not one cell ahead '
                          f'({wit[0] + d[0]}, {wit[1] + d[1]}): the faced cell of an agent on '
                          f'the border is not the cell beyond it')
            continue
        ok = r == ('P', (Aff.sym('py') + d[0], Aff.sym('px') + d[1]))
        rep.check(ok, rule, 'gym_gridverse/agent.py', 'Agent.front', af.node.lineno,
                  'Agent.front', f'Agent.front with heading {o} is {r}, not one cell ahead',
                  f'front {o}')


def reflected_operators(index: RepoIndex, rep, rule: str) -> None:
    """`a * b` and `b * a` are both documented for poses, positions, areas and grids.  The
    second spelling works through `__rmul__` of the right operand -- which must accept every
    operand type its `__mul__` accepts -- and, when the left operand has a `__mul__` of its
    own, only if that answers NotImplemented for an operand of a class it does not know
    (`orientation * grid` reaches Grid.__rmul__ that way).  Read from the isinstance tests:
    the operand types under which a path returns something other than NotImplemented."""
    from ..guards import truth_under
    PINNED = (('gym_gridverse/geometry.py', 'Orientation', 'mul'),
              ('gym_gridverse/geometry.py', 'Transform', 'mul'),
              ('gym_gridverse/geometry.py', 'Position', 'add'),
              ('gym_gridverse/grid.py', 'Grid', 'mul'))

    def types_of(t: ast.AST):
        return {src(x) for x in (t.elts if isinstance(t, ast.Tuple) else [t])}

    def accepted(fn):
        """(types accepted, return that a foreign operand reaches, universe)"""
        w = walk_function(fn.node)
        if len(fn.node.args.args) < 2:
            raise AnalysisError(f'{fn.short}: no operand parameter')
        op = fn.node.args.args[1].arg
        universe = set()
        for n in ast.walk(fn.node):
            if isinstance(n, ast.Call) and src(n.func) == 'isinstance' and len(n.args) == 2 \
                    and src(n.args[0]) == op:
                universe |= types_of(n.args[1])

        def truth_for(T):
            def at(e):
                if isinstance(e, ast.Call) and src(e.func) == 'isinstance' and \
                        len(e.args) == 2 and src(e.args[0]) == op:
                    return T in types_of(e.args[1])
                return None
            return at
        acc, foreign = set(), None
        for e in w.events:
            if e.kind != 'return' or e.value is None or src(e.value) == 'NotImplemented':
                continue
            for T in sorted(universe):
                if truth_under(strip_iter(e.guard), truth_for(T)) is not False:
                    acc.add(T)
            if truth_under(strip_iter(e.guard), truth_for('<foreign>')) is not False \
                    and foreign is None:
                foreign = e
        return acc, foreign, universe, op

    from ..guards import strip_iter
    for rel, cname, o in PINNED:
        cls = index.cls(rel, cname)
        fwd = cls.methods.get(f'__{o}__')
        if fwd is None:
            raise AnalysisError(f'anchor vanished: {cname}.__{o}__')
        acc, foreign, universe, _ = accepted(fwd)
        if universe:
            rep.check(foreign is None, rule, rel, fwd.short, fwd.node.lineno,
                      src(foreign.stmt)[:120] if foreign is not None else f'{sorted(universe)}',
                      f'{cname}.__{o}__ answers an operand of a class it does not test for '
                      f'(`{src(foreign.stmt)[:80] if foreign is not None else ""}`) instead of '
                      f'NotImplemented: the reflected operator of that class (Grid.__rmul__ for '
                      f'`orientation * grid`) is never tried',
                      f'{cname}.__{o}__: foreign operands -> NotImplemented')
        r = f'__r{o}__'
        alias = cls.attrs.get(r)
        rf = cls.methods.get(r)
        if alias is not None and rf is None:
            rep.check(src(alias) == f'__{o}__', rule, rel, f'{cname}.{r}', alias.lineno,
                      f'{r} = {src(alias)}', f'{cname}.{r} is `{src(alias)}`, not {cname}.__{o}__',
                      f'{cname}.{r} is __{o}__')
            continue
        if rf is None:
            rep.violation(rule, rel, f'{cname}.{r}', cls.node.lineno, cname,
                          f'{cname} no longer has {r}: `x {"*" if o == "mul" else "+"} '
                          f'{cname.lower()}` is not defined')
            continue
        racc, rforeign, runi, rop = accepted(rf)
        if not runi:
            # no type test: it must hand the operand to the forward operator
            from ..inline import pure_body_expr
            e = pure_body_expr(rf.node)
            ok = e is not None and src(e) in (f'self.__{o}__({rop})',
                                              f'self {"*" if o == "mul" else "+"} {rop}',
                                              f'{cname}.__{o}__(self, {rop})')
            rep.check(ok, rule, rel, rf.short, rf.node.lineno, src(e)[:100] if e is not None
                      else rf.short, f'{cname}.{r} is not the forward operator with the operands '
                      f'exchanged', f'{cname}.{r} forwards')
            continue
        missing = sorted((acc - {cname}) - racc)
        rep.check(not missing, rule, rel, rf.short, rf.node.lineno,
                  f'accepts {sorted(racc)}; __{o}__ accepts {sorted(acc)}',
                  f'{cname}.{r} does not accept {missing}, which {cname}.__{o}__ accepts: '
                  f'`{missing[0].lower() if missing else ""} {"*" if o == "mul" else "+"} '
                  f'{cname.lower()}` raises TypeError although the other spelling works',
                  f'{cname}.{r} accepts what __{o}__ accepts')


def from_positions_box(index: RepoIndex, rep, rule: str, gi) -> None:
    """Area.from_positions(ps) is the bounding box of ps, in whatever order they come (the
    image of an area under a turn enumerates its positions in decreasing order).  Folded at
    small constant position lists in increasing, decreasing and mixed order; a list where the
    result is not the box is a counterexample, an unreadable body is no verdict."""
    try:
        fp = index.func(GEOM, 'Area.from_positions')
    except Exception:       # noqa: BLE001
        return
    pn = fp.node.args.args[0].arg if fp.node.args.args else None
    if pn in (None, 'cls') and len(fp.node.args.args) > 1:
        pn = fp.node.args.args[1].arg

    def pt(y, x):
        return ('P', (Aff.const(y), Aff.const(x)))
    samples = ([(3, 7), (2, 4)], [(2, 4), (3, 7)], [(2, 7), (2, 4)], [(5, 5)],
               [(4, 1), (3, 2), (2, 3)], [(1, 1), (1, 3), (1, 2)])
    site = f'{GEOM}:Area.from_positions:{fp.node.lineno}'
    for pts in samples:
        ys, xs = [p[0] for p in pts], [p[1] for p in pts]
        want = ('A', ((Aff.const(min(ys)), Aff.const(max(ys))),
                      (Aff.const(min(xs)), Aff.const(max(xs)))))
        try:
            got = gi.call(fp, {pn: ('U', tuple(pt(*p) for p in pts))})
        except (AnalysisError, RecursionError) as err:
            rep.undecided(rule, site, f'not readable at {pts}: {str(err)[:80]}')
            return
        if got != want:
            rep.violation(rule, GEOM, 'Area.from_positions', fp.node.lineno, f'{pts} -> {got}',
                          f'Area.from_positions({pts}) is {got}, not the bounding box '
                          f'{want}: the area spanned by transformed positions is not the '
                          f'transformed area')
            return
    rep.holds(rule, site, f'bounding box at {len(samples)} position lists')


def value_classes_final(index: RepoIndex, rep, rule: str) -> None:
    """Position, Area, Shape and Transform compare by the equality their dataclass decorator
    generates, which is class-strict (`other.__class__ is self.__class__`): an instance of a
    subclass never equals what the algebra produces (`t * e == t` is False for a `Pose(..)`
    although the hashes agree).  No class of the package subclasses them unless the base
    defines its own `__eq__`."""
    n = 0
    for base in ('Position', 'Area', 'Shape', 'Transform'):
        bc = index.find_class(base)
        if bc is None:
            raise AnalysisError(f'anchor vanished: geometry class {base}')
        n += 1
        subs = index.subclasses(base)
        own_eq = '__eq__' in bc.methods
        for sc in subs:
            rep.check(own_eq or '__eq__' in sc.methods, rule, sc.module.relpath, sc.name,
                      sc.node.lineno, f'class {sc.name}({base})',
                      f'{sc.name} subclasses the value class {base}, whose generated equality '
                      f'compares only objects of exactly the same class: a {sc.name} never '
                      f'equals the {base} an operator returns, so identities and inverses of '
                      f'the pose algebra fail for the objects the library hands out',
                      f'{sc.name}: equality across the subclass')
        rep.holds(rule, f'{base}: {len(subs)} subclass(es)', 'class-strict equality is safe')


def run(index: RepoIndex, rep) -> None:
    rep.rule('C18.R13', 'geometry value classes are not subclassed (their generated equality '
             'is class-strict)', floor=4)
    value_classes_final(index, rep, 'C18.R13')
    rep.rule('C18.R12', 'both spellings of a product work: reflected operators accept every '
             'operand type the forward operator accepts, and the forward operators answer '
             'NotImplemented for operands of other classes', floor=7)
    reflected_operators(index, rep, 'C18.R12')
    rep.rule('C18.R9', 'outside the rotation operators, geometry keeps row and column quantities apart (axis typing, E14)', floor=1)
    from ..axes import axis_rule
    axis_rule(index, rep, 'C18.R9', ('gym_gridverse/geometry.py',), floor=12)
    rep.rule('C18.R10', 'no fixed number of names is unpacked from a set of computed values '
             '(degenerate areas and offsets collapse it) (E15)', floor=40)
    from ..unpack import unpack_rule
    unpack_rule(index, rep, 'C18.R10', ('gym_gridverse/geometry.py', 'gym_gridverse/grid.py',
                                        'gym_gridverse/envs/utils.py'))
    from .c11 import scan_once
    scan_once(index, rep, 'C18.R11')
    rep.rule('C18.R8', 'geometry operators and grid rotations are pure functions of their '
             'operands (no in-place update, no cache)', floor=15)
    purity(index, rep)
    g = Geometry(index)
    O = g.orients
    gi = GeoInterp(g)
    from_positions_box(index, rep, 'C18.R3', gi)
    rep.rule('C18.R1', 'rotation table: total, FORWARD two-sided identity, _orientation_neg '
             'two-sided inverse, associative, cyclic of order 4', floor=80)
    rep.rule('C18.R2', 'Orientation * Position: linear, rotation matrices (orthogonal, det 1), '
             'homomorphism of the table; heading deltas are M(o)·delta(F)', floor=28)
    rep.rule('C18.R3', 'Orientation * Area is the image of the interval box under M(o)', floor=8)
    rep.rule('C18.R4', 'Position +, -, unary - are componentwise; Position + Area shifts the box',
             floor=4)
    rep.rule('C18.R5', 'Transform composition (p1 + o1·p2, o1·o2), action p + o·x, inverse, '
             'associativity and action compatibility for all heading combinations', floor=100)
    rep.rule('C18.R6', 'grid rotations: bijective index maps, each undone by the map of the '
             'inverse orientation, composition follows the table; Grid.__mul__ applies the table',
             floor=25)
    rep.rule('C18.R7', 'get_next_position agrees with the pose algebra for every heading and '
             'action', floor=32)
    rep.rule('C18.R8', 'geometry operators and grid rotations are pure functions of their '
             'operands (no in-place update, no cache)', floor=15)

    f = 'gym_gridverse/geometry.py'
    fn_mul = gi.method('Orientation', '__mul__')
    fn_neg = gi.method('Orientation', '__neg__')
    # ---- R1 the orientation product (denotation of Orientation.__mul__ on Orientations)
    ml = fn_mul.node.lineno
    total = all(g.rot.get((a, b)) in O for a in O for b in O)
    rep.check(total, 'C18.R1', f, 'Orientation.__mul__', ml, 'orientation * orientation',
              f'orientation product is not total over {O} x {O}: undefined at '
              f'{[k for k in sorted(g.rot) if g.rot[k] not in O][:4]}')
    if not total:
        return
    for name in ('_orientation_rotations', '_orientation_neg', '_position_from_orientation'):
        d = g.table_dups(name)
        rep.check(not d, 'C18.R1', f, name, g.line_of(name), name,
                  f'{name} lists the key(s) {d} twice: one of the entries is dead')
    negtotal = all(g.neg.get(a) in O for a in O)
    rep.check(negtotal, 'C18.R1', f, 'Orientation.__neg__', fn_neg.node.lineno,
              '-orientation', 'negation is not defined for every orientation')
    for a in O:
        rep.check(g.rot[('FORWARD', a)] == a and g.rot[(a, 'FORWARD')] == a,
                  'C18.R1', f, 'Orientation.__mul__', ml,
                  f'(F, {a}) / ({a}, F)', f'FORWARD is not a two-sided identity for {a}',
                  f'identity {a}')
        if g.neg.get(a) in O:
            rep.check(g.rot[(a, g.neg[a])] == 'FORWARD' and g.rot[(g.neg[a], a)] == 'FORWARD',
                      'C18.R1', f, 'Orientation.__neg__', fn_neg.node.lineno, f'-{a}',
                      f'-{a} = {g.neg[a]} is not a two-sided inverse of {a}', f'inverse {a}')
    for a, b, c in itertools.product(O, repeat=3):
        rep.check(g.rot[(g.rot[(a, b)], c)] == g.rot[(a, g.rot[(b, c)])],
                  'C18.R1', f, 'Orientation.__mul__', ml, f'({a}*{b})*{c}',
                  f'orientation product is not associative at ({a}, {b}, {c})',
                  f'assoc {a},{b},{c}')
    gen = 'RIGHT'
    powers = [gen]
    for _ in range(3):
        powers.append(g.rot[(powers[-1], gen)])
    rep.check(len(set(powers)) == 4 and powers[3] == 'FORWARD' and powers[1] == 'BACKWARD',
              'C18.R1', f, 'Orientation.__mul__', ml, 'powers of RIGHT',
              f'RIGHT does not generate a cyclic group of order 4 with R*R = BACKWARD: {powers}',
              'cyclic')
    rep.check(g.rot[('LEFT', 'RIGHT')] == 'FORWARD' and g.rot[('LEFT', 'LEFT')] == 'BACKWARD',
              'C18.R1', f, 'Orientation.__mul__', ml, 'LEFT*RIGHT, LEFT*LEFT',
              'LEFT is not the inverse quarter turn of RIGHT', 'left-right')
    for a in O:
        # foreign operands are refused, not mapped to a heading
        try:
            r = gi.mul(('O', a), ('X', 'foreign'))
        except AnalysisError:
            r = None
        rep.check(r is None or r[0] == 'X', 'C18.R1', f, 'Orientation.__mul__', ml,
                  f'{a} * <other type>', f'{a} * <foreign operand> yields {r}', f'foreign {a}')

    # ---- R2 matrices
    for o in O:
        m0, m1 = g.M[o]
        rep.check(m0.k == 0 and m1.k == 0 and m0.symbols() <= {'y', 'x'}
                  and m1.symbols() <= {'y', 'x'},
                  'C18.R2', f, 'Orientation.__mul__', ml,
                  f'{o} * Position -> ({m0}, {m1})', f'{o} * position is not linear',
                  f'linear {o}')
        m = g.mat(o)
        rep.check(mm(m, tuple(zip(*m))) == I2 and m[0][0] * m[1][1] - m[0][1] * m[1][0] == 1,
                  'C18.R2', f, 'Orientation.__mul__', ml,
                  f'{o} * Position -> ({m0}, {m1})',
                  f'matrix of {o} is {m}: not a rotation (orthogonal, determinant 1)',
                  f'rotation matrix {o}')
    rep.check(g.mat('FORWARD') == I2, 'C18.R2', f, 'Orientation.__mul__', ml,
              'FORWARD * Position', 'FORWARD does not act as the identity on positions',
              'M(F)=I')
    for a in O:
        for b in O:
            rep.check(mm(g.mat(a), g.mat(b)) == g.mat(g.rot[(a, b)]),
                      'C18.R2', f, 'Orientation.__mul__', ml,
                      f'M({a})·M({b}) vs M({g.rot[(a, b)]})',
                      f'action on positions is not a homomorphism at ({a}, {b}): '
                      f'M({a})·M({b}) = {mm(g.mat(a), g.mat(b))} but M({g.rot[(a, b)]}) = '
                      f'{g.mat(g.rot[(a, b)])}', f'homomorphism {a},{b}')
    fo = gi.method('Position', 'from_orientation')
    dline = fo.node.lineno
    covered = all(g.delta.get(o) is not None for o in O)
    rep.check(covered, 'C18.R2', f, 'Position.from_orientation', dline,
              'Position.from_orientation', 'heading delta is not defined for every orientation')
    if covered:
        rep.check(g.delta['FORWARD'] == (-1, 0), 'C18.R2', f, 'Position.from_orientation',
                  dline, f'F -> {g.delta["FORWARD"]}',
                  'FORWARD is not one cell up (y decreases), as documented', 'delta F')
        for o in O:
            rep.check(g.delta[o] == mv(g.mat(o), g.delta['FORWARD']),
                      'C18.R2', f, 'Position.from_orientation', dline, f'{o} -> {g.delta[o]}',
                      f'heading delta of {o} is {g.delta[o]}, expected M({o})·delta(F) = '
                      f'{mv(g.mat(o), g.delta["FORWARD"])}', f'delta {o}')

    # ---- R3 area image
    for o in O:
        m = g.mat(o)
        for axis in (0, 1):
            cy, cx = m[axis]
            names = ('ymin', 'ymax') if cy else ('xmin', 'xmax')
            c = cy or cx
            exp = (Aff.sym(names[0]), Aff.sym(names[1])) if c == 1 else \
                (-Aff.sym(names[1]), -Aff.sym(names[0]))
            got = g.AR[o][axis]
            rep.check(tuple(got) == exp, 'C18.R3', f, 'Orientation.__mul__',
                      ml, f'{o} * Area axis {"yx"[axis]} -> {got}',
                      f'{o} * area: {"yx"[axis]}-interval is {got}, the image of the box under '
                      f'M({o}) is {exp}', f'area {o} axis {axis}')
            # special cases the operator makes on the bounds (`if ymax == height // 2: ..`):
            # each must be the same image, specialised to that case
            for desc, val in g.AR_cases[o]:
                sub = getattr(desc, 'sub', {})
                if not sub:
                    continue
                exp_c = tuple(x.subst(sub) for x in exp)
                got_c = tuple(val[1][axis])
                if got_c != exp_c:
                    rep.violation('C18.R3', f, 'Orientation.__mul__', ml,
                                  f'{o} * Area axis {"yx"[axis]} when {desc}',
                                  f'{o} * area when {desc}: the {"yx"[axis]}-interval is '
                                  f'{got_c}, the image of the box under M({o}) is {exp_c}')

    # ---- R4 position ops
    S = Aff.sym
    pl = gi.method('Position', '__add__').node.lineno
    sp, op_ = P('sy', 'sx'), P('oy', 'ox')
    from ..geom import split_cases

    def agree(rule_, where, line, got_f, exp_f, inputs, what, label):
        """got_f(*inputs) == exp_f(*inputs) in every case of the split on zero tests"""
        for desc, (got_, exp_) in split_cases(gi, lambda *v: (got_f(*v), exp_f(*v)), inputs):
            rep.check(got_ == exp_, rule_, f, where, line, f'{got_}',
                      what + f': got {got_[1:] if got_ else got_}, expected {exp_[1:]}'
                      + (f' when {desc}' if desc else ''), label + (f' [{desc}]' if desc else ''))
    agree('C18.R4', 'Position.__add__', pl, gi.add,
          lambda a, b: ('P', (a[1][0] + b[1][0], a[1][1] + b[1][1])), [sp, op_],
          'Position + Position is not componentwise', 'p + p')
    agree('C18.R4', 'Position.__add__', pl, gi.add,
          lambda a, b: ('A', ((a[1][0] + b[1][0][0], a[1][0] + b[1][0][1]),
                              (a[1][1] + b[1][1][0], a[1][1] + b[1][1][1]))), [sp, A()],
          'Position + Area does not shift both intervals by the position', 'p + area')
    agree('C18.R4', 'Position.__sub__', gi.method('Position', '__sub__').node.lineno,
          gi.p_sub_p, lambda a, b: ('P', (a[1][0] - b[1][0], a[1][1] - b[1][1])), [sp, op_],
          'Position - Position is not componentwise', 'p - p')
    agree('C18.R4', 'Position.__neg__', gi.method('Position', '__neg__').node.lineno,
          gi.neg, lambda a: ('P', (-a[1][0], -a[1][1])), [sp],
          '-Position is not componentwise', '-p')

    # ---- R5 transforms
    tl = gi.method('Transform', '__mul__').node.lineno
    nl = gi.method('Transform', '__neg__').node.lineno
    zero = (Aff.const(0), Aff.const(0))
    for o1 in O:
        T1 = ('T', P('py', 'px'), ('O', o1))
        # action on a position and an area
        v = P('vy', 'vx')
        agree('C18.R5', 'Transform.__mul__', tl, gi.mul,
              lambda t, x: gi.p_add_p(t[1], gi.o_mul_p(t[2], x)), [T1, v],
              f'transform * position with heading {o1} is not p + o·x', f'act position {o1}')
        ar = A()
        # expected: the rotated box shifted by the position, computed on the components (not
        # through Position.__add__, which is what C18.R4 decides)
        agree('C18.R5', 'Transform.__mul__', tl, gi.mul,
              lambda t, a: (lambda r: ('A', ((t[1][1][0] + r[1][0][0], t[1][1][0] + r[1][0][1]),
                                             (t[1][1][1] + r[1][1][0], t[1][1][1] + r[1][1][1]))))(
                  gi.o_mul_a(t[2], a)), [T1, ar],
              f'transform * area with heading {o1} is not the rotated box shifted by the '
              f'position', f'act area {o1}')
        for o2 in O:
            got = gi.mul(T1, ('O', o2))
            rep.check(got == gi.o_mul_o(T1[2], ('O', o2)), 'C18.R5', f, 'Transform.__mul__', tl,
                      'transform * orientation',
                      f'transform * orientation ({o1}, {o2}) gives {got}, expected o1·o2',
                      f'act orientation {o1},{o2}')
        # inverse
        inv = gi.neg(T1)
        for a, b, what in ((T1, inv, 'T * -T'), (inv, T1, '-T * T')):
            r = gi.mul(a, b) if inv[0] == 'T' else inv
            rep.check(r[0] == 'T' and r[1][1] == zero and r[2] == ('O', 'FORWARD'),
                      'C18.R5', f, 'Transform.__neg__', nl, '-transform',
                      f'{what} with heading {o1} is {r}, not the identity transform',
                      f'inverse {what} {o1}')
        for o2 in O:
            T2 = ('T', P('qy', 'qx'), ('O', o2))
            got = gi.mul(T1, T2)
            exp = ('T', gi.p_add_p(T1[1], gi.o_mul_p(T1[2], T2[1])), gi.o_mul_o(T1[2], T2[2]))
            rep.check(got == exp, 'C18.R5', f, 'Transform.__mul__', tl, 'transform * transform',
                      f'transform product ({o1}, {o2}) is {got}, expected (p1 + o1·p2, o1·o2) = '
                      f'{exp}', f'compose {o1},{o2}')
            if got[0] != 'T':
                continue
            # action compatibility (T1 T2) v = T1 (T2 v)
            rep.check(gi.mul(gi.mul(T1, T2), v) == gi.mul(T1, gi.mul(T2, v)),
                      'C18.R5', f, 'Transform.__mul__', tl, '(T1*T2)*v',
                      f'acting with a composed transform differs from acting successively at '
                      f'({o1}, {o2})', f'action compat {o1},{o2}')
            for o3 in O:
                T3 = ('T', P('ry', 'rx'), ('O', o3))
                rep.check(gi.mul(gi.mul(T1, T2), T3) == gi.mul(T1, gi.mul(T2, T3)),
                          'C18.R5', f, 'Transform.__mul__', tl, '(T1*T2)*T3',
                          f'transform composition is not associative at ({o1}, {o2}, {o3})',
                          f'assoc {o1},{o2},{o3}')
    ident = ('T', ('P', zero), ('O', 'FORWARD'))
    T1 = ('T', P('py', 'px'), ('O', 'LEFT'))
    rep.check(gi.mul(ident, T1) == T1 and gi.mul(T1, ident) == T1, 'C18.R5', f,
              'Transform.__mul__', tl, 'identity', '((0,0), FORWARD) is not a two-sided identity')
    front_rule(index, rep, 'C18.R5', g, gi)
    # in-place spellings of the pose operators denote the same pose as the operator
    tcls = index.cls(f, 'Transform')
    for iname, m in sorted(tcls.methods.items()):
        if not (iname.startswith('__i') and iname.endswith('__') and
                '__' + iname[3:] in tcls.methods):
            continue
        if iname != '__imul__':
            raise AnalysisError(f'Transform.{iname}: in-place operator outside the grammar')
        me_, ot_ = [a.arg for a in m.node.args.args[:2]]
        for o1 in O:
            for o2 in O:
                T1 = ('T', P('py', 'px'), ('O', o1))
                T2 = ('T', P('qy', 'qx'), ('O', o2))
                got = gi.call_inplace(m, {me_: T1, ot_: T2})
                exp = gi.mul(T1, T2)
                rep.check(got == exp, 'C18.R5', f, f'Transform.{iname}', m.node.lineno,
                          f'pose *= pose ({o1}, {o2})',
                          f'`t *= s` with headings ({o1}, {o2}) leaves {got}, but t * s is '
                          f'{exp}: acting with the composed pose differs from acting '
                          f'successively', f'in-place compose {o1},{o2}')

    # ---- R6 grid rotations
    gl = index.table(GRID, '_grid_rotation_functions').lineno
    gf = 'gym_gridverse/grid.py'
    rep.check(set(g.grid_rot) == set(O), 'C18.R6', gf, '_grid_rotation_functions', gl,
              '_grid_rotation_functions', 'grid rotation table does not cover every orientation')
    for o in O:
        if o not in g.grid_rot:
            continue
        m = g.grid_rot[o]
        bij = (m.r.symbols() | m.c.symbols()) <= {'i', 'j', 'H', 'W'} and \
            sorted([tuple(sorted(k for k in m.r.c if k in 'ij')),
                    tuple(sorted(k for k in m.c.c if k in 'ij'))]) == [('i',), ('j',)] and \
            all(abs(v) == 1 for k, v in list(m.r.c.items()) + list(m.c.c.items()) if k in 'ij')
        rep.check(bij, 'C18.R6', gf, g.grid_rot_name[o], gl, repr(m),
                  f'grid rotation for {o} is not a rearrangement (index map {m})',
                  f'bijection {o}')
        rep.check(not getattr(m, 'mutates_operand', False), 'C18.R6', gf, g.grid_rot_name[o],
                  index.func(GRID, g.grid_rot_name[o]).node.lineno, g.grid_rot_name[o],
                  f'grid rotation for {o} reverses the list or the rows of its operand in '
                  f'place: the rotated grid is right once, the operand is left rearranged',
                  f'operand untouched {o}')
        for msg in getattr(m, 'special_bad', []):
            rep.violation('C18.R6', gf, g.grid_rot_name[o],
                          index.func(GRID, g.grid_rot_name[o]).node.lineno,
                          g.grid_rot_name[o],
                          f'grid rotation for {o}: {msg} (the rotation is then not undone by '
                          f'the inverse one on such grids)')
        inv = g.grid_rot.get(g.neg.get(o, ''))
        if inv is None:
            continue
        # apply m, then inv: value2[i][j] = value1[inv.r][inv.c] with dims of value1
        mp_dims = {'H': m.nr, 'W': m.nc}
        r2 = inv.r.subst(mp_dims)
        c2 = inv.c.subst(mp_dims)
        rr = m.r.subst({'i': r2, 'j': c2})
        cc = m.c.subst({'i': r2, 'j': c2})
        rep.check(rr == Aff.sym('i') and cc == Aff.sym('j')
                  and inv.nr.subst(mp_dims) == Aff.sym('H') and inv.nc.subst(mp_dims) == Aff.sym('W'),
                  'C18.R6', gf, '_grid_rotation_functions', gl, f'{o} then {g.neg[o]}',
                  f'rotating a grid by {o} and then by {g.neg[o]} gives cell [{rr}][{cc}], '
                  f'not the original', f'undone {o}')
    # composing two rotations is the rotation of the composed orientation
    for a in O:
        for b in O:
            if a not in g.grid_rot or b not in g.grid_rot:
                continue
            ma, mb = g.grid_rot[a], g.grid_rot[b]
            dims = {'H': ma.nr, 'W': ma.nc}
            r2, c2 = mb.r.subst(dims), mb.c.subst(dims)
            rr = ma.r.subst({'i': r2, 'j': c2})
            cc = ma.c.subst({'i': r2, 'j': c2})
            mc = g.grid_rot[g.rot[(a, b)]]
            rep.check(rr == mc.r and cc == mc.c, 'C18.R6', gf, '_grid_rotation_functions', gl,
                      f'{a} then {b} vs {g.rot[(a, b)]}',
                      f'rotating a grid by {a} and then by {b} shows cell [{rr}][{cc}], the '
                      f'rotation by {g.rot[(a, b)]} shows [{mc.r}][{mc.c}]',
                      f'compose {a},{b}')
    gm = index.func(GRID, 'Grid.__mul__')
    mul_returns_operand(index, rep, 'C18.R6')
    gi.opaque = set(g.grid_rot_name.values())    # rotation functions stay symbolic here
    me, other = [a.arg for a in gm.node.args.args[:2]]
    for o in O:
        if o not in g.grid_rot_name:
            continue
        # an uninterpretable Grid.__mul__ is not a verdict: the error goes up (exit 2)
        got = gi.call(gm, {me: ('G', 'self'), other: ('O', o)})
        exp = ('C', 'Grid', (('C', g.grid_rot_name[o], (('X', 'self.objects'),)),))
        rep.check(got == exp, 'C18.R6', gf, 'Grid.__mul__', gm.node.lineno, f'grid * {o}',
                  f'Grid.__mul__ with {o} yields {got}, not Grid(<rotation function of {o}>'
                  f'(self.objects))', f'Grid.__mul__ applies table {o}')
    try:
        got = gi.call(gm, {me: ('G', 'self'), other: ('X', 'foreign')})
    except AnalysisError as e:
        got = ('X', str(e))
    rep.check(got[0] == 'X', 'C18.R6', gf, 'Grid.__mul__', gm.node.lineno, 'grid * <other>',
              f'Grid.__mul__ with a foreign operand yields {got}', 'Grid.__mul__ foreign')

    # ---- R7 get_next_position (denotation for all headings x actions)
    from .c08 import _next_position
    _next_position(index, rep, g)


def mul_returns_operand(index: RepoIndex, rep, rule: str) -> None:
    """no path of Grid.__mul__ hands back the operand: a grid that "looks the same from every
    side" (one object type) still has colours, statuses and -- when it is not square -- another
    shape after a quarter turn"""
    gm = index.func(GRID, 'Grid.__mul__')
    wgm = walk_function(gm.node)
    n = 0
    for e_ in wgm.events:
        if e_.kind == 'return' and e_.value is not None:
            n += 1
            if src(wgm.expand(e_.value)) == gm.node.args.args[0].arg:
                rep.violation(rule, GRID, 'Grid.__mul__', e_.line, src(e_.stmt),
                              f'Grid.__mul__ returns the grid itself when '
                              f'`{show(strip_iter(e_.guard))[:100]}`: the result is not rotated '
                              f'(a quarter turn of a non-square grid has another shape) and '
                              f'shares its cells with the operand')
    rep.holds(rule, f'{GRID}:Grid.__mul__:returns', f'{n} returns, none of them the operand')


def purity(index: RepoIndex, rep) -> None:
    from ..effects import Effects
    eff = Effects(index)
    # "no cache": a memoised helper in the geometry / grid modules must be keyed on what
    # identifies its input and must not hand out a mutable cached object (C03.R4)
    from .c03 import memo_rules
    for rel_ in (GEOM, GRID):
        memo_rules(index, rep, 'C18.R8', eff, only_rel=rel_)
    for rel, name in ((GEOM, 'Orientation.__mul__'), (GEOM, 'Orientation.__neg__'),
                      (GEOM, 'Position.__add__'), (GEOM, 'Position.__sub__'),
                      (GEOM, 'Position.__neg__'), (GEOM, 'Position.from_orientation'),
                      (GEOM, 'Transform.__mul__'), (GEOM, 'Transform.__neg__'),
                      (GEOM, 'Area.contains'), (GRID, 'Grid.__mul__'),
                      (GRID, '_rotate_matrix_forward'), (GRID, '_rotate_matrix_right'),
                      (GRID, '_rotate_matrix_left'), (GRID, '_rotate_matrix_backward'),
                      (UTILS, 'get_next_position')):
        fn = index.func(rel, name)
        sm = eff.summary(fn)
        sites = [f'line {l} `{t}`' for p_ in sorted(sm.mut_params)
                 for l, t in sm.mut_sites.get(p_, [])[:2]]
        rep.check(not sm.mut_params and not sm.global_writes, 'C18.R8', rel, name,
                  fn.node.lineno, '; '.join(sites) or name,
                  f'{name} modifies its operand(s) {sorted(sm.mut_params)} / module state '
                  f'{sorted(sm.global_writes)} ({"; ".join(sites)}): poses are mutated in place by '
                  f'the dynamics and grids are reused, so a cached or in-place result breaks '
                  f'the algebra on the second use', f'{name} pure')
