"""Wiring facets shared by the checks whose property is quantified "through the environment":
the components the property is about are only as good as the glue that calls them.

    GridWorld.functional_reset         hands out the reset function's state, unchanged
    GridWorld.functional_step          one transition on a deep copy of the caller's state; the
                                       copy is what is returned
    GridWorld.functional_observation   hands out the observation function's result, unchanged
    transition_functions.chain         each configured part runs once per step, in order, on
                                       the same (state, action)
    transition_functions.factory       binds the configured values as given

Every facet reads the function in normal form (helpers the pinned tree did not have are read
through by `view`), so the rules do not depend on how intermediate values are named."""
from __future__ import annotations

import ast
from typing import List

from ..core import AnalysisError, src
from ..guards import show, strip_iter, walk_function
from ..index import RepoIndex

GW = 'gym_gridverse/envs/gridworld.py'
TRANS = 'gym_gridverse/envs/transition_functions.py'


def _rebinds(w, name: str) -> List[str]:
    out = []
    for d in w.defs.get(name, []):
        if d[0] in ('value', 'unpack', 'aug', 'elem', 'elem-unpack', 'opaque'):
            out.append(f'{name} = {src(d[1])[:70]}' if d[0] == 'value' else f'{name} (re-bound)')
    return out


def step_on_callers_state(index: RepoIndex, rep, rule: str) -> None:
    """functional_step(state, action): the dynamics run once, on a deep copy of the state the
    caller gave, and that copy is the next state"""
    from ..view import step_wiring
    sw = step_wiring(index)
    fs, w, sp, C = sw['func'], sw['walk'], sw['state'], sw['copy']
    w0 = walk_function(fs.node)
    reb = _rebinds(w0, sp) or _rebinds(w, sp)
    rep.check(not reb, rule, GW, fs.short, fs.node.lineno, '; '.join(reb)[:160] or sp,
              f'functional_step re-binds its state parameter (`{(reb or [""])[0]}`): the '
              f'dynamics, the reward and the termination no longer work on the state the '
              f'caller gave (what it holds, where its objects are, can be lost on the way)',
              'functional_step: state as given')
    ok = len(sw['tcalls']) == 1 and C is not None and sw['copy_deep']
    rep.check(ok, rule, GW, fs.short, fs.node.lineno,
              f'{len(sw["tcalls"])} transition call(s) on `{C}` = `{sw["copy_def"]}`'[:200],
              f'functional_step does not run its transition function exactly once on a deep '
              f'copy of the given state (calls: {len(sw["tcalls"])}; operand `{C}` = '
              f'`{sw["copy_def"]}`)', 'functional_step: one transition on a deep copy')
    if C is None:
        return
    # between the transition and the return, the copy is only read: nothing re-binds it or
    # replaces parts of it from another state
    later = [e for e in w.events if e.order > sw['tcalls'][0].order] if sw['tcalls'] else []
    edits = []
    for e in later:
        t = None
        if e.kind in ('store', 'attrstore', 'augstore', 'delete'):
            t = e.target
        elif e.kind == 'call' and isinstance(e.node.func, ast.Attribute):
            from ..guards import MUTATORS
            if e.node.func.attr in MUTATORS:
                t = e.node.func
        while isinstance(t, (ast.Subscript, ast.Attribute)):
            t = t.value
        if isinstance(t, ast.Name) and t.id == C:
            edits.append(src(e.stmt)[:80] if e.stmt is not None else src(e.node)[:80])
    nreb = [d for d in w.defs.get(C, [])]
    rep.check(not edits and len(nreb) == 1, rule, GW, fs.short, fs.node.lineno,
              '; '.join(edits)[:200] or C,
              f'after the transition, functional_step edits the next state itself '
              f'(`{(edits or [C + " re-bound"])[0]}`): what the dynamics produced is not what '
              f'is returned', 'functional_step: next state untouched after the transition')
    rets = [e for e in w.events if e.kind == 'return' and e.value is not None]
    first = [src(w.expand(r.value.elts[0], stop=[C]))
             if isinstance(r.value, ast.Tuple) and r.value.elts else src(r.value) for r in rets]
    rep.check(bool(rets) and all(f_ == C for f_ in first), rule, GW, fs.short,
              fs.node.lineno, '; '.join(first)[:120],
              f'functional_step returns `{"; ".join(first)[:80]}` as the next state, not the '
              f'copy `{C}` its transition modified on every path',
              'functional_step returns the modified copy')


def _passthrough(index: RepoIndex, rep, rule: str, mname: str, attr: str, what: str) -> None:
    from ..view import view
    gw = index.cls(GW, 'GridWorld')
    m = gw.methods.get(mname)
    if m is None:
        raise AnalysisError(f'anchor vanished: GridWorld.{mname}')
    node, w, _ = view(index, m)
    params = [a.arg for a in m.node.args.args[1:]]
    for p in params:
        reb = _rebinds(w, p)
        rep.check(not reb, rule, GW, m.short, m.node.lineno, '; '.join(reb)[:160] or p,
                  f'{mname} re-binds its parameter `{p}` (`{(reb or [""])[0]}`): the {what} '
                  f'function does not see the state it was asked about',
                  f'{mname}: {p} as given')
    calls = [e for e in w.events if e.kind == 'call' and src(e.node.func) == attr]
    rets = [e for e in w.events if e.kind == 'return' and e.value is not None]
    if len(calls) != 1 or not rets:
        rep.check(False, rule, GW, m.short, m.node.lineno,
                  '; '.join(src(c.node) for c in calls)[:160],
                  f'{mname} does not call {attr} exactly once and return', f'{mname}')
        return
    want = src(calls[0].node)
    got = [src(w.expand(r.value)) for r in rets]
    # the result is only read before it is returned
    res = [n for n, ds in w.defs.items()
           if len(ds) == 1 and ds[0][0] == 'value' and ds[0][1] is calls[0].node]
    edits = []
    for e in w.events:
        t = None
        if e.kind in ('store', 'attrstore', 'augstore', 'delete'):
            t = e.target
        elif e.kind == 'call' and isinstance(e.node.func, ast.Attribute):
            from ..guards import MUTATORS
            if e.node.func.attr in MUTATORS:
                t = e.node.func
        while isinstance(t, (ast.Subscript, ast.Attribute)):
            t = t.value
        if isinstance(t, ast.Name) and t.id in res:
            edits.append(src(e.stmt)[:80] if e.stmt is not None else src(e.node)[:80])
    rep.check(all(g == want for g in got) and not edits, rule, GW, m.short, m.node.lineno,
              ('; '.join(got) + ('; ' + '; '.join(edits) if edits else ''))[:200],
              f'{mname} does not hand out the result of `{want[:80]}` unchanged (returns '
              f'`{"; ".join(got)[:100]}`{", edits: " + edits[0] if edits else ""}): what the '
              f'{what} function guarantees is not what the environment shows',
              f'{mname} hands out the {what} function\'s result')


def reset_passthrough(index: RepoIndex, rep, rule: str) -> None:
    _passthrough(index, rep, rule, 'functional_reset', 'self._reset_function', 'reset')


def observation_passthrough(index: RepoIndex, rep, rule: str) -> None:
    _passthrough(index, rep, rule, 'functional_observation', 'self._observation_function',
                 'observation')


def chain_once(index: RepoIndex, rep, rule: str) -> None:
    """chain(state, action, *, transition_functions, rng): every configured part is called
    exactly once, in the configured order, with the same state and action"""
    from ..view import view
    f = index.func(TRANS, 'chain')
    node, w, _ = view(index, f)
    ps = [a.arg for a in f.node.args.args + f.node.args.kwonlyargs]
    if 'transition_functions' not in ps or len(ps) < 2:
        raise AnalysisError('chain: parameters outside the grammar')
    sp, ap = ps[0], ps[1]
    seq = 'transition_functions'
    reb = _rebinds(w, seq) + _rebinds(w, sp) + _rebinds(w, ap)
    rep.check(not reb, rule, TRANS, 'chain', f.node.lineno, '; '.join(reb)[:160] or seq,
              f'chain re-binds `{(reb or [""])[0]}`: the parts that run are not the configured '
              f'ones, or they do not see the given state and action', 'chain: inputs as given')
    # calls of a part: a name bound to an element of the sequence
    parts = set()
    for n, ds in w.defs.items():
        for d in ds:
            it = d[1][0] if d[0] in ('unpack', 'elem-unpack') else d[1]
            if d[0] == 'value' and isinstance(it, ast.Subscript):
                it = it.value
            if d[0] in ('elem', 'unpack', 'elem-unpack', 'value') and \
                    isinstance(it, ast.Name) and it.id == seq:
                parts.add(n)
    calls = [e for e in w.events if e.kind == 'call' and isinstance(e.node.func, ast.Name)
             and e.node.func.id in parts]
    if not calls:
        raise AnalysisError('chain: no call of a configured part (outside the grammar)')
    looped = [e for e in calls if e.loops and src(e.loops[-1][1]) == seq
              and len(e.loops) == 1]
    single = [e for e in calls if e not in looped]
    ok = len(looped) == 1 and show(strip_iter(looped[0].guard)) in (
        'True', f'not (len({seq}) == 1)', f'len({seq}) != 1')
    for e in single:
        # a shortcut for a chain of one: under `len(seq) == 1`, leaving the function after it
        g = show(strip_iter(e.guard))
        ok = ok and g in (f'len({seq}) == 1',) and not e.loops
    for e in calls:
        a = [src(x) for x in e.node.args[:2]]
        ok = ok and a == [sp, ap]
    rep.check(ok, rule, TRANS, 'chain', f.node.lineno,
              '; '.join(f'{src(e.node)[:50]} under {show(strip_iter(e.guard))[:40]}'
                        for e in calls)[:240],
              'chain does not call every configured part exactly once, in order, with the '
              'given state and action: a part that is skipped or runs twice moves the agent '
              'or an obstacle zero or two cells in one step', 'chain: each part once')


def transition_factory_passthrough(index: RepoIndex, rep, rule: str) -> None:
    from .c17 import N_PROTOCOL, ROLE_FILE, factory_denotation
    f = index.func(ROLE_FILE['transition'], 'factory')
    g = index.func(ROLE_FILE['reset'], 'factory')
    a = factory_denotation(f, {'transition_function_registry': 'REGISTRY'}, index)
    b = factory_denotation(g, {'reset_function_registry': 'REGISTRY'}, index)
    _ = N_PROTOCOL
    rep.check(not a['edits'], rule, TRANS, 'factory', f.node.lineno,
              '; '.join(a['edits'])[:200] or 'no edit of kwargs',
              f'the transition factory changes a configured value before binding it '
              f'(`{(a["edits"] or [""])[0][:100]}`): a chain built by name does not run the '
              f'parts it was configured with, each once', 'factory passes values through')
    diff = [k for k in ('ret', 'check', 'order') if a[k] != b[k]]
    rep.check(not diff, rule, TRANS, 'factory', f.node.lineno, f'{a["ret"]}'[:200],
              f'the transition factory does not bind the configured values like its siblings '
              f'(differs in {diff})', 'factory binds like its siblings')


def late_binding_closures(index: RepoIndex, rep, rule: str, files) -> None:
    """a function defined in a loop body reads the loop's variables when it is *called*, not
    when it is defined: if it outlives the iteration (registered, stored, appended, returned)
    every copy sees the values of the last iteration -- four aliases that all dispatch to the
    last function of the table.  Flagged: a def / lambda in a for-loop (or a comprehension)
    whose free names are bound by that loop, and which escapes the iteration other than by
    being called.  Binding the value at definition time (`def f(x, _n=_n)`,
    `partial(f, n=_n)`) is the accepted idiom."""
    n_sites = 0

    def bound_by(target) -> set:
        return {x.id for x in ast.walk(target) if isinstance(x, ast.Name)}

    def free_names(fn) -> set:
        params = {a.arg for a in fn.args.posonlyargs + fn.args.args + fn.args.kwonlyargs}
        for extra in (fn.args.vararg, fn.args.kwarg):
            if extra is not None:
                params.add(extra.arg)
        body = fn.body if isinstance(fn.body, list) else [fn.body]
        stored, loaded = set(), set()
        for st in body:
            for x in ast.walk(st):
                if isinstance(x, ast.Name):
                    (stored if isinstance(x.ctx, (ast.Store, ast.Del)) else loaded).add(x.id)
        return loaded - params - stored

    for rel in files:
        mod = index.module(rel)
        for loop in ast.walk(mod.tree):
            if isinstance(loop, (ast.For, ast.AsyncFor)):
                per_iter = bound_by(loop.target)
                for st in loop.body:
                    for x in ast.walk(st):
                        if isinstance(x, (ast.Assign, ast.AnnAssign, ast.AugAssign)):
                            for t in (x.targets if isinstance(x, ast.Assign) else [x.target]):
                                if isinstance(t, (ast.Name, ast.Tuple, ast.List)):
                                    per_iter |= bound_by(t)
                inner = []
                for st in loop.body:
                    for x in ast.walk(st):
                        if isinstance(x, (ast.FunctionDef, ast.Lambda)):
                            inner.append(x)
                for fn in inner:
                    n_sites += 1
                    late = sorted(free_names(fn) & per_iter)
                    name = getattr(fn, 'name', '<lambda>')
                    if isinstance(fn, ast.FunctionDef):
                        late = [v for v in late if v != fn.name]
                        uses = [y for st in loop.body for y in ast.walk(st)
                                if isinstance(y, ast.Name) and y.id == fn.name
                                and isinstance(y.ctx, ast.Load)]
                        called = {id(c.func) for st in loop.body for c in ast.walk(st)
                                  if isinstance(c, ast.Call)}
                        escapes = [y for y in uses if id(y) not in called]
                    else:
                        # a lambda given to a call that keeps it, stored, or returned
                        escapes = []
                        for st in loop.body:
                            for y in ast.walk(st):
                                if isinstance(y, ast.Call) and isinstance(y.func, ast.Attribute) \
                                        and y.func.attr in ('append', 'register', 'add', 'insert',
                                                            'setdefault', 'extend', 'update') \
                                        and any(a is fn for a in list(y.args) +
                                                [k.value for k in y.keywords]):
                                    escapes.append(y)
                                if isinstance(y, ast.Assign) and y.value is fn and any(
                                        isinstance(t, (ast.Subscript, ast.Attribute))
                                        for t in y.targets):
                                    escapes.append(y)
                                if isinstance(y, (ast.Return, ast.Yield)) and y.value is fn:
                                    escapes.append(y)
                    rep.check(not (late and escapes), rule, rel, name, fn.lineno,
                              f'{name} reads {late}',
                              f'`{name}` is defined in a loop, reads the loop variable(s) {late} '
                              f'when it is called, and outlives the iteration (line '
                              f'{escapes[0].lineno if escapes else 0}): every function made by '
                              f'this loop uses the values of the last iteration',
                              f'{name}: no late-bound loop variable')
            if isinstance(loop, (ast.ListComp, ast.SetComp, ast.DictComp, ast.GeneratorExp)):
                per_iter = set()
                for g in loop.generators:
                    per_iter |= bound_by(g.target)
                elts = [loop.key, loop.value] if isinstance(loop, ast.DictComp) else [loop.elt]
                for el in elts:
                    cands = [el] + (list(el.elts) if isinstance(el, (ast.Tuple, ast.List))
                                    else [])
                    for fn in cands:
                        if isinstance(fn, ast.Lambda):
                            n_sites += 1
                            late = sorted(free_names(fn) & per_iter)
                            rep.check(not late, rule, rel, '<lambda>', fn.lineno,
                                      src(fn)[:80],
                                      f'the lambda `{src(fn)[:60]}` collected by a comprehension '
                                      f'reads the comprehension variable(s) {late} when it is '
                                      f'called: every element uses the last value',
                                      'lambda: no late-bound comprehension variable')
    rep.holds(rule, 'closures made in loops', f'{n_sites} in {len(list(files))} file(s)')


def records_as_given(index: RepoIndex, rep, rule: str, names=('State', 'Observation')) -> None:
    """State(grid, agent) and Observation(grid, agent) are records: what a component builds is
    what the environment, the spaces and the representations see.  Neither class rewrites its
    fields on construction: no `__post_init__` / `__new__` / `__setattr__` that stores a
    field, and a hand-written `__init__` stores its parameters themselves."""
    for rel, cname in (('gym_gridverse/state.py', 'State'),
                       ('gym_gridverse/observation.py', 'Observation')):
        if cname not in names:
            continue
        cls = index.cls(rel, cname)
        bad = []
        for mname in ('__post_init__', '__new__', '__setattr__', '__init__'):
            m = cls.methods.get(mname)
            if m is None:
                continue
            params = {a.arg for a in m.node.args.args[1:] + m.node.args.kwonlyargs}
            for n in ast.walk(m.node):
                tgt = val = None
                if isinstance(n, ast.Assign) and len(n.targets) == 1 and \
                        isinstance(n.targets[0], ast.Attribute) and \
                        src(n.targets[0].value) == 'self':
                    tgt, val = n.targets[0].attr, n.value
                if isinstance(n, ast.Call) and src(n.func) in (
                        'object.__setattr__', 'setattr', 'super().__setattr__') and \
                        len(n.args) >= 2 and isinstance(n.args[-2], ast.Constant):
                    tgt, val = n.args[-2].value, n.args[-1]
                if tgt in ('grid', 'agent'):
                    if mname == '__init__' and isinstance(val, ast.Name) and val.id in params:
                        continue
                    bad.append((mname, n.lineno, src(n)[:80]))
        rep.check(not bad, rule, rel, cname, cls.node.lineno,
                  '; '.join(b[2] for b in bad)[:200] or f'{cname} stores its fields as given',
                  f'{cname}.{bad[0][0] if bad else ""} rewrites a field on construction '
                  f'(`{bad[0][2] if bad else ""}`): the {cname.lower()} the environment hands out '
                  f'is not the one its components built (shape, cells or agent differ)',
                  f'{cname} is a plain record')


def draw_helpers_always_draw(index: RepoIndex, rep, rule: str) -> None:
    """the drawing helpers of rng.py (`choice`, `choices`, `shuffle`, and any added later) are
    thin wrappers of one numpy draw: a helper that answers a value *without* drawing on some
    path (`if low == high: return low`) answers where numpy would have raised ValueError for
    an empty range -- the only refusal some reset functions have -- and leaves the stream where
    it was.  Every return of a value (other than None) is preceded by a draw on its path."""
    from ..guards import prop_implies
    rel = 'gym_gridverse/rng.py'
    mod = index.module(rel)
    n = 0
    for name, f in sorted(mod.functions.items()):
        ps = [a.arg for a in f.node.args.args + f.node.args.kwonlyargs]
        if 'rng' not in ps:
            continue
        w = walk_function(f.node)
        draws = [e for e in w.events if e.kind == 'call' and
                 isinstance(e.node.func, ast.Attribute) and src(e.node.func.value) == 'rng']
        if not draws:
            continue
        n += 1
        bad = []
        for r in (e for e in w.events if e.kind == 'return' and e.value is not None):
            if isinstance(r.value, ast.Constant) and r.value.value is None:
                continue
            if isinstance(r.value, (ast.List, ast.Tuple, ast.Set, ast.Dict)) and \
                    not ast.unparse(r.value).strip('[](){} '):
                continue          # "nothing drawn" for a request of nothing: no value answered
            before = [d for d in draws if d.order <= r.order]
            ok = any(prop_implies(strip_iter(r.guard), strip_iter(d.guard)) is None
                     for d in before)
            if not ok:
                bad.append(r)
        # a shortcut is refuted only where the wrapped draw is shown to refuse: the guard of
        # the return makes the half-open range of `rng.integers(a, b)` empty
        proved = []
        for b_ in bad:
            g_ = show(strip_iter(b_.guard)).replace(' ', '').strip('()')
            for d in draws:
                if d.node.func.attr != 'integers' or len(d.node.args) < 2:
                    continue
                kw_ = {k.arg: k.value for k in d.node.keywords}
                if 'endpoint' in kw_ and src(kw_['endpoint']) != 'False':
                    # an option of the helper that defaults to half-open, with a caller in the
                    # package that leaves it out
                    ep = kw_['endpoint']
                    dflt = f.param_defaults().get(ep.id) if isinstance(ep, ast.Name) else None
                    if not (isinstance(dflt, ast.Constant) and dflt.value is False and any(
                            isinstance(c_, ast.Call) and src(c_.func).split('.')[-1] == name
                            and ep.id not in {k.arg for k in c_.keywords}
                            and len(c_.args) <= ps.index(ep.id)
                            for m_ in index.modules.values() for c_ in ast.walk(m_.tree))):
                        continue
                a_, c_ = (src(x).replace(' ', '') for x in d.node.args[:2])
                if g_ in (f'{a_}=={c_}', f'{c_}=={a_}', f'{a_}>={c_}', f'{c_}<={a_}'):
                    proved.append(b_)
                    break
        for b_ in bad:
            if b_ not in proved:
                rep.undecided(rule, f'{rel}:{name}', f'returns `{src(b_.value)[:40]}` under '
                              f'`{show(strip_iter(b_.guard))[:60]}` without drawing')
        bad = proved
        rep.check(not bad, rule, rel, name, f.node.lineno,
                  '; '.join(src(b.stmt)[:60] for b in bad) or f'{name} draws on every path',
                  f'{name} returns `{src(bad[0].value)[:40] if bad else ""}` under '
                  f'`{show(strip_iter(bad[0].guard))[:60] if bad else ""}` without drawing: where '
                  f'the numpy draw it wraps would raise ValueError (an empty range: a room '
                  f'without interior, no free cell) it now answers, and the reset function '
                  f'built on it returns a malformed state instead of refusing',
                  f'{name}: a value only after a draw')
    if n < 3:
        raise AnalysisError(f'rng.py: {n} drawing helpers found, floor is 3')
