"""Evaluation of *extracted* arithmetic/boolean expressions at small integer points.
Used to compare an extracted condition with the condition a rule requires and to produce
concrete witnesses.  Never executes repository code: it interprets ast nodes."""
from __future__ import annotations

import ast
from fractions import Fraction
from typing import Any, Callable, Dict, Optional

from .core import AnalysisError, src


class CannotEval(Exception):
    pass


def ev(e: ast.AST, env: Dict[str, Any], call: Optional[Callable] = None):
    s = src(e)
    if s in env:
        return env[s]
    if isinstance(e, ast.Constant):
        return e.value
    if isinstance(e, ast.UnaryOp):
        v = ev(e.operand, env, call)
        if isinstance(e.op, ast.USub):
            return -v
        if isinstance(e.op, ast.UAdd):
            return v
        if isinstance(e.op, ast.Not):
            return not v
    if isinstance(e, ast.BinOp):
        a, b = ev(e.left, env, call), ev(e.right, env, call)
        if isinstance(e.op, ast.Add):
            return a + b
        if isinstance(e.op, ast.Sub):
            return a - b
        if isinstance(e.op, ast.Mult):
            return a * b
        if isinstance(e.op, ast.FloorDiv):
            return a // b
        if isinstance(e.op, ast.Mod):
            return a % b
        if isinstance(e.op, ast.Div):
            return Fraction(a) / Fraction(b)
    if isinstance(e, ast.BoolOp):
        if isinstance(e.op, ast.And):
            r = True
            for v in e.values:
                r = ev(v, env, call)
                if not r:
                    return r
            return r
        r = False
        for v in e.values:
            r = ev(v, env, call)
            if r:
                return r
        return r
    if isinstance(e, ast.IfExp):
        return ev(e.body if ev(e.test, env, call) else e.orelse, env, call)
    if isinstance(e, ast.Compare):
        left = ev(e.left, env, call)
        for op, c in zip(e.ops, e.comparators):
            right = ev(c, env, call)
            ok = {ast.Lt: lambda: left < right, ast.LtE: lambda: left <= right,
                  ast.Gt: lambda: left > right, ast.GtE: lambda: left >= right,
                  ast.Eq: lambda: left == right, ast.NotEq: lambda: left != right,
                  ast.Is: lambda: left == right, ast.IsNot: lambda: left != right,
                  ast.In: lambda: left in right, ast.NotIn: lambda: left not in right,
                  }.get(type(op))
            if ok is None:
                raise CannotEval(s)
            if not ok():
                return False
            left = right
        return True
    if isinstance(e, (ast.Tuple, ast.List)):
        return tuple(ev(x, env, call) for x in e.elts)
    if isinstance(e, ast.Call) and call is not None:
        r = call(e, env)
        if r is not NotImplemented:
            return r
    if isinstance(e, ast.Call) and isinstance(e.func, ast.Name) and \
            e.func.id in ('max', 'min', 'abs') and e.args and not e.keywords:
        vals = [ev(a, env, call) for a in e.args]
        if e.func.id == 'abs' and len(vals) == 1:
            return abs(vals[0])
        if len(vals) >= 2:
            return max(vals) if e.func.id == 'max' else min(vals)
    raise CannotEval(s)
