"""Fixed-arity unpacking of a collection whose length depends on the values (E15).

`lo, hi = sorted({f(c) for c in corners})` is only defined when the set has exactly two
elements; a set built from computed values collapses equal elements, so on degenerate inputs
(a one-row area, a zero displacement) the statement raises ValueError.  The rule reports every
tuple assignment whose right-hand side is -- through sorted / list / tuple / reversed and
single-assignment locals -- a set comprehension, a set()/frozenset() call or a set display of
computed elements, and whose left-hand side has a fixed number of targets.  A set display of
distinct literals has a fixed size and is not reported."""
from __future__ import annotations

import ast
from typing import Iterable, Optional

from .core import AnalysisError, src
from .guards import walk_function

_PEEL = ('sorted', 'list', 'tuple', 'reversed')


def _value_dependent_set(e: ast.AST, w, depth: int = 4) -> Optional[str]:
    if depth < 0:
        return None
    if isinstance(e, ast.Call) and isinstance(e.func, ast.Name) and e.func.id in _PEEL and e.args:
        return _value_dependent_set(e.args[0], w, depth - 1)
    if isinstance(e, ast.SetComp):
        return 'a set comprehension'
    if isinstance(e, ast.Call) and isinstance(e.func, ast.Name) and \
            e.func.id in ('set', 'frozenset') and e.args:
        return f'{e.func.id}(...)'
    if isinstance(e, ast.Set):
        lits = [x for x in e.elts if isinstance(x, ast.Constant)]
        if len(lits) == len(e.elts) and len({repr(x.value) for x in lits}) == len(lits):
            return None
        return 'a set display of computed elements'
    if isinstance(e, ast.Name) and w is not None:
        d = w.single_def(e.id)
        if d is not None and d[0] == 'value':
            return _value_dependent_set(d[1], w, depth - 1)
    return None


def find(fn_node: ast.FunctionDef):
    """(statement, number of targets, what the right-hand side is) for each offending unpack"""
    w = walk_function(fn_node)
    out = []
    for n in ast.walk(fn_node):
        if isinstance(n, ast.Assign) and len(n.targets) == 1 and \
                isinstance(n.targets[0], (ast.Tuple, ast.List)) and \
                not any(isinstance(t, ast.Starred) for t in n.targets[0].elts):
            what = _value_dependent_set(n.value, w)
            if what:
                out.append((n, len(n.targets[0].elts), what))
    return out


_POSITIVE = '''
def f(corners):
    ys = {c.y for c in corners}
    lo, hi = sorted(ys)
    a, b = sorted({1, 2})
    return lo, hi, a, b
'''


def unpack_rule(index, rep, rule: str, files: Iterable[str]) -> None:
    # the rule's expected count is zero: a positive example must match on every run
    pos = find(ast.parse(_POSITIVE).body[0])
    if len(pos) != 1 or pos[0][1] != 2:
        raise AnalysisError('E15 self-check: the positive example is not matched exactly once')
    n = 0
    for f in index.all_functions():
        if not any(f.relpath == p or f.relpath.startswith(p) for p in files):
            continue
        n += 1
        hits = find(f.raw_node if hasattr(f, 'raw_node') else f.node)
        for st, k, what in hits:
            rep.violation(rule, f.relpath, f.short, st.lineno, src(st)[:160],
                          f'{k} names are unpacked from {what}: equal values collapse, so a '
                          f'degenerate input (one row, one column, zero offset) raises '
                          f'ValueError instead of giving the result')
        if not hits:
            rep.holds(rule, f'{f.relpath}:{f.short}', 'no fixed-arity unpack of a value-dependent set')
    if n == 0:
        raise AnalysisError(f'{rule}: no function analysed in {list(files)}')
