"""E4 bounds rule: every subscript of a grid (or of a grid-shaped array) whose position may
lie outside the grid is dominated by `G.area.contains(p)`.

`try: G[p] except IndexError` is NOT a guard (negative indices wrap), nor is `Grid.get`.
"""
from __future__ import annotations

import ast
from typing import Dict, List, Optional, Set, Tuple

from .boolean import Evaluator, OutOfGrid, World
from .core import AnalysisError, src
from .dynmodel import FnModel
from .guards import Event, GuardWalk, f_and, show, strip_iter, walk_function
from .index import Func, RepoIndex

MODULES = [
    'gym_gridverse/envs/transition_functions.py',
    'gym_gridverse/envs/reward_functions.py',
    'gym_gridverse/envs/terminating_functions.py',
    'gym_gridverse/envs/visibility_functions.py',
    'gym_gridverse/envs/observation_functions.py',
]

SAFE, UNSAFE = 'in-grid', 'possibly-outside'


def _prefix(def_loops, use_loops) -> bool:
    """the loops enclosing a binding also enclose the use"""
    if len(def_loops) > len(use_loops):
        return False
    return all(a[1] is b[1] for a, b in zip(def_loops, use_loops))


def is_grid_expr(e: ast.AST, grid_names: Set[str]) -> bool:
    s = src(e)
    if s.endswith('.grid'):
        return True
    if isinstance(e, ast.Name) and e.id in grid_names:
        return True
    return False


def grid_names_of(f_node: ast.FunctionDef, w: GuardWalk) -> Set[str]:
    out = set()
    a = f_node.args
    for p in a.posonlyargs + a.args + a.kwonlyargs:
        ann = src(p.annotation) if p.annotation is not None else ''
        if ann == 'Grid' or p.arg in ('grid', 'observation_grid'):
            out.add(p.arg)
    for name, ds in w.defs.items():
        for d in ds:
            if d[0] == 'value':
                s = src(d[1])
                if '.subgrid(' in s or s.startswith('Grid(') or s.startswith('Grid.from_shape('):
                    out.add(name)
    return out


FAN_FUNCTIONS = ('cached_compute_rays_fancy', 'cached_compute_rays', 'compute_rays_fancy',
                 'compute_rays')


def is_fan_callee(module, w: GuardWalk, fe: ast.AST, depth: int = 3) -> bool:
    """the callee expression denotes one of the ray-fan functions of utils/raytracing.py: its
    name, a local bound to one, or an entry of a module-level table all of whose values are fan
    functions (`_ray_methods[ray_method]`)"""
    if depth < 0:
        return False
    if isinstance(fe, ast.Name):
        ds = w.defs.get(fe.id, [])
        if ds:
            return all(d[0] == 'value' and is_fan_callee(module, w, d[1], depth - 1) for d in ds)
        return fe.id in FAN_FUNCTIONS and fe.id not in w.params
    tab = None
    if isinstance(fe, ast.Subscript) and isinstance(fe.value, ast.Name):
        tab = fe.value.id
    if isinstance(fe, ast.Call) and isinstance(fe.func, ast.Attribute) and \
            fe.func.attr == 'get' and isinstance(fe.func.value, ast.Name) and \
            len(fe.args) == 2 and is_fan_callee(module, w, fe.args[1], depth - 1):
        tab = fe.func.value.id
    if tab is None or w.defs.get(tab) or tab in w.params:
        return False
    vals = module.assigns.get(tab, [])
    return len(vals) == 1 and isinstance(vals[0], ast.Dict) and bool(vals[0].values) and \
        all(isinstance(v, ast.Name) and v.id in FAN_FUNCTIONS for v in vals[0].values)


class PosClassifier:
    def __init__(self, f: Func, w: GuardWalk, grid_names: Set[str]):
        self.f, self.w, self.grid_names = f, w, grid_names

    def positions_iter(self, it: ast.AST, depth: int = 4) -> bool:
        """`it` iterates over in-grid positions"""
        if depth < 0:
            return False
        s = src(it)
        if isinstance(it, (ast.ListComp, ast.GeneratorExp)) and self.in_grid_list(it, depth - 1):
            return True
        if isinstance(it, ast.Call) and isinstance(it.func, ast.Attribute) \
                and it.func.attr == 'positions' and src(it.func.value).endswith('.area') \
                and is_grid_expr(it.func.value.value, self.grid_names):
            return True
        if isinstance(it, ast.Call) and src(it.func) == 'get_manhattan_boundary' and \
                getattr(self, 'index', None) is not None:
            # the boundary clipped by the helper itself to the area of this grid
            from .cellstream import StreamReader
            clip = StreamReader(self.index, self.f.module, self.w)._boundary_clip_param()
            kw = {k.arg: k.value for k in it.keywords}
            if clip and clip in kw and src(kw[clip]).endswith('.area') and \
                    is_grid_expr(kw[clip].value, self.grid_names):
                return True
        if isinstance(it, ast.Name):
            ds = self.w.defs.get(it.id, [])
            vals = [d for d in ds if d[0] == 'value']
            if ds and len(vals) == len(ds):
                return all(self.in_grid_list(d[1], depth - 1) for d in vals)
            # iterating an element of a list of rays
            el = [d for d in ds if d[0] == 'elem']
            if ds and len(el) == len(ds):
                return all(self.rays_expr(d[1]) for d in el)
        return False

    def rays_expr(self, e: ast.AST) -> bool:
        if isinstance(e, ast.Name):
            ds = self.w.defs.get(e.id, [])
            return bool(ds) and all(d[0] == 'value' and self.rays_expr(d[1]) for d in ds)
        if isinstance(e, ast.Call) and len(e.args) == 2 and not e.keywords and \
                is_fan_callee(self.f.module, self.w, e.func):
            a = e.args[1]
            return src(a).endswith('.area') and is_grid_expr(a.value, self.grid_names)
        return False

    def stream_in_grid(self, e: ast.AST) -> bool:
        """second reading through the stream normal form (cellstream.py): every position of a
        grid, however the scan is spelled, or neighbours filtered by `area.contains`"""
        from .cellstream import StreamReader
        if getattr(self, '_reader', None) is None:
            self._reader = StreamReader(getattr(self, 'index', None), self.f.module, self.w)
        try:
            st = self._reader.read(e)
        except Exception:       # noqa: BLE001 - the reader is only a second opinion here
            return False
        if st is None or not st.grid:
            return False
        try:
            g = ast.parse(st.grid, mode='eval').body
        except SyntaxError:
            return False
        if not is_grid_expr(g, self.grid_names):
            return False
        if st.kind == 'cells':
            return True
        return any(src(c) == f'{st.grid}.area.contains(P)' for c in st.filters)

    def in_grid_list(self, e: ast.AST, depth: int) -> bool:
        """a list/generator expression all of whose elements are in-grid positions"""
        if self.stream_in_grid(e):
            return True
        if isinstance(e, (ast.ListComp, ast.GeneratorExp)) and len(e.generators) == 1:
            g = e.generators[0]
            if isinstance(g.target, ast.Name) and src(e.elt) == g.target.id:
                if self.positions_iter(g.iter, depth):
                    return True
                # elements filtered by contains
                for c in g.ifs:
                    for n in ast.walk(c):
                        if isinstance(n, ast.Call) and isinstance(n.func, ast.Attribute) and \
                                n.func.attr == 'contains' and len(n.args) == 1 and \
                                src(n.args[0]) == g.target.id and \
                                src(n.func.value).endswith('.area') and \
                                self._positive_conjunct(c, n):
                            return True
        return False

    def _positive_conjunct(self, cond: ast.AST, call: ast.Call) -> bool:
        """`call` is a top-level conjunct of cond"""
        if cond is call:
            return True
        if isinstance(cond, ast.BoolOp) and isinstance(cond.op, ast.And):
            return any(self._positive_conjunct(v, call) for v in cond.values)
        return False

    def extent_dim(self, e: ast.AST, depth: int = 4) -> str:
        """'height' / 'width' when `e` denotes that extent of a grid shape or area:
        `<..>.shape.height`, `<..>.area.width`, a component of `<..>.shape.as_tuple`, or a
        local bound to one of these (also by tuple unpacking)"""
        if depth < 0:
            return ''
        if isinstance(e, ast.Attribute) and e.attr in ('height', 'width') and \
                isinstance(e.value, ast.Attribute) and e.value.attr in ('shape', 'area'):
            return e.attr
        if isinstance(e, ast.Subscript) and isinstance(e.slice, ast.Constant) and \
                e.slice.value in (0, 1):
            return self._extent_item(e.value, e.slice.value, depth - 1)
        if isinstance(e, ast.Name):
            d = self.w.single_def(e.id)
            if d is None:
                return ''
            if d[0] == 'value':
                return self.extent_dim(d[1], depth - 1)
            if d[0] == 'unpack':
                val, i = d[1]
                return self._extent_item(val, i, depth - 1) if isinstance(i, int) else ''
        return ''

    def _extent_item(self, val: ast.AST, i: int, depth: int) -> str:
        if isinstance(val, ast.Name):
            d = self.w.single_def(val.id)
            if d is None or d[0] != 'value':
                return ''
            val = d[1]
        if isinstance(val, ast.Attribute) and val.attr == 'as_tuple' and \
                isinstance(val.value, ast.Attribute) and val.value.attr == 'shape':
            return ('height', 'width')[i]
        if isinstance(val, (ast.Tuple, ast.List)) and len(val.elts) == 2:
            return self.extent_dim(val.elts[i], depth)
        return ''

    def classify(self, p: ast.AST, loops, depth: int = 5) -> Tuple[str, str]:
        if depth < 0:
            return UNSAFE, 'too deep'
        s = src(p)
        if isinstance(p, ast.Attribute) and p.attr == 'position' and \
                src(p.value).endswith('agent'):
            return SAFE, 'agent position of a member state'
        if isinstance(p, ast.Tuple) and len(p.elts) == 2:
            ok = []
            for el, dim in zip(p.elts, ('height', 'width')):
                good = False
                if isinstance(el, ast.Name):
                    for t, it in loops:
                        if src(t) == el.id and isinstance(it, ast.Call) and \
                                src(it.func) == 'range' and len(it.args) == 1 and \
                                self.extent_dim(it.args[0]) == dim:
                            good = True
                        # the coordinates of the grid's own area
                        if src(t) == el.id and isinstance(it, ast.Call) and \
                                isinstance(it.func, ast.Attribute) and not it.args and \
                                it.func.attr == ('y_coordinates' if dim == 'height'
                                                 else 'x_coordinates') and \
                                src(it.func.value).endswith('.area') and \
                                is_grid_expr(it.func.value.value, self.grid_names):
                            good = True
                ok.append(good)
            if all(ok):
                return SAFE, 'ranges over the grid shape'
            # indices of the non-zero entries of an array of the grid's shape: the result of a
            # visibility function called on this very grid (VisibilityFunction protocol: one
            # boolean per cell), read through np.argwhere / np.nonzero / np.where
            if any(isinstance(el, ast.Call) and src(el.func) == 'int' and len(el.args) == 1
                   and isinstance(el.args[0], ast.Name) for el in p.elts):
                # int(y) of an index drawn from np.argwhere: the same index
                p = ast.Tuple([el.args[0] if isinstance(el, ast.Call) and src(el.func) == 'int'
                               and len(el.args) == 1 else el for el in p.elts], ast.Load())
            if all(isinstance(el, ast.Name) for el in p.elts):
                for t, it in loops:
                    if not (isinstance(t, ast.Tuple) and [src(x) for x in t.elts] ==
                            [el.id for el in p.elts]):
                        continue
                    arrs_ = list(getattr(self, 'array_names', ())) + \
                        [n_ for n_, ds in self.w.defs.items() for d_ in ds
                         if d_[0] == 'value' and isinstance(d_[1], ast.Call)
                         and src(d_[1].func) == 'visibility_function']
                    text = src(self.w.expand(it, stop=[a_ for a_ in arrs_ if a_]))
                    for wrap_ in ('np.asarray(', 'np.array(', 'np.asanyarray('):
                        text = text.replace(wrap_, '(')
                    text = text.replace(', dtype=bool)', ')').replace('.astype(bool)', '')
                    for fn_ in ('np.argwhere(', 'np.nonzero(', 'np.where('):
                        if fn_ in text:
                            inner = text[text.index(fn_) + len(fn_):]
                            for an in list(getattr(self, 'array_names', ())) + \
                                    [n_ for n_, ds in self.w.defs.items() for d_ in ds
                                     if d_[0] == 'value' and isinstance(d_[1], ast.Call)
                                     and src(d_[1].func) == 'visibility_function'
                                     and d_[1].args
                                     and is_grid_expr(d_[1].args[0], self.grid_names)]:
                                if an and (inner.startswith(an) or f'({an})' in inner
                                           or f'~{an}' in inner):
                                    return SAFE, 'indices of an array of the grid shape'
            # (pos.y, pos.x) of a position
            ys = [src(e) for e in p.elts]
            if ys[0].endswith('.y') and ys[1].endswith('.x') and ys[0][:-2] == ys[1][:-2]:
                return self.classify(p.elts[0].value, loops, depth - 1)
            return UNSAFE, 'tuple of unknown coordinates'
        if isinstance(p, ast.Attribute) and p.attr == 'yx':
            return self.classify(p.value, loops, depth - 1)
        if isinstance(p, ast.Name):
            ds = self.w.defs.get(p.id, [])
            if not ds:
                return UNSAFE, 'position parameter'
            verdicts = []
            reach = [d for d in ds if not (d[0] in ('elem', 'elem-unpack')
                                           and not _prefix(d[4], loops))]
            if not reach:
                return UNSAFE, 'no reaching definition'
            for d in reach:
                kind, payload = d[0], d[1]
                if kind == 'elem':
                    verdicts.append(self.positions_iter(payload))
                elif kind == 'value':
                    v = payload
                    if isinstance(v, ast.Subscript) and isinstance(v.value, ast.Name) and \
                            self.positions_iter(v.value):
                        verdicts.append(True)
                    elif isinstance(v, ast.Call) and src(v.func).endswith('one') and v.args \
                            and self.in_grid_list(v.args[0], 3):
                        verdicts.append(True)
                    elif isinstance(v, ast.Call) and src(v.func) == 'choice' and \
                            len(v.args) == 2 and not v.keywords and \
                            isinstance(v.args[1], ast.Name) and \
                            self.positions_iter(v.args[1]):
                        # rng.py's choice(rng, L): an element of the in-grid list L
                        verdicts.append(True)
                    else:
                        verdicts.append(self.classify(v, loops, depth - 1)[0] == SAFE)
                else:
                    verdicts.append(False)
            if all(verdicts):
                return SAFE, 'drawn from in-grid positions'
            return UNSAFE, 'local not known to be in-grid'
        if isinstance(p, ast.Subscript) and isinstance(p.value, ast.Name) and \
                self.positions_iter(p.value):
            return SAFE, 'element of an in-grid list'
        return UNSAFE, 'computed position'


def _is_position_index(sl: ast.AST) -> bool:
    """`p.y, p.x` or `p.yx`: the coordinates of one position object"""
    if isinstance(sl, ast.Attribute) and sl.attr == 'yx':
        return True
    if isinstance(sl, ast.Tuple) and len(sl.elts) == 2:
        ys = [src(x) for x in sl.elts]
        return ys[0].endswith('.y') and ys[1].endswith('.x') and ys[0][:-2] == ys[1][:-2]
    return False


def _bounds_to_contains(node: ast.FunctionDef) -> ast.FunctionDef:
    """`0 <= a < H and 0 <= b < W` with H, W the extents of one grid G (directly, or locals
    bound to them) is `G.area.contains((a, b))`: the integer spelling of the in-grid test is
    rewritten (on a copy) so that the domination check sees one predicate"""
    import copy
    w0 = walk_function(node)

    def extent(e: ast.AST, dim: str):
        t = src(w0.expand(e))
        for suf in (f'.shape.{dim}', f'.area.{dim}'):
            if t.endswith(suf):
                return t[:-len(suf)]
        if dim == 'height' and t.startswith('len(') and t.endswith('.objects)'):
            return t[4:-len('.objects)')]
        if dim == 'width' and t.startswith('len(') and t.endswith('.objects[0])'):
            return t[4:-len('.objects[0])')]
        return None

    def half(c: ast.AST, dim: str):
        if isinstance(c, ast.Compare) and len(c.ops) == 2 and \
                isinstance(c.ops[0], ast.LtE) and isinstance(c.ops[1], ast.Lt) and \
                isinstance(c.left, ast.Constant) and c.left.value == 0:
            g = extent(c.comparators[1], dim)
            if g is not None:
                return g, c.comparators[0]
        return None
    changed = [False]

    class T(ast.NodeTransformer):
        def visit_BoolOp(self, n: ast.BoolOp):
            self.generic_visit(n)
            if not isinstance(n.op, ast.And):
                return n
            vals = list(n.values)
            for i, a in enumerate(vals):
                ha = half(a, 'height')
                if ha is None:
                    continue
                for j, b in enumerate(vals):
                    hb = half(b, 'width') if j != i else None
                    if hb is None or hb[0] != ha[0]:
                        continue
                    call = ast.parse(f'{ha[0]}.area.contains(({src(ha[1])}, {src(hb[1])}))',
                                     mode='eval').body
                    rest = [v for k, v in enumerate(vals) if k not in (i, j)]
                    changed[0] = True
                    out = [call] + rest
                    return out[0] if len(out) == 1 else ast.BoolOp(ast.And(), out)
            return n
    out = T().visit(copy.deepcopy(node))
    return ast.fix_missing_locations(out) if changed[0] else node


def check_function(index: RepoIndex, rep, rule: str, f: Func, ev: Evaluator,
                   qual: Optional[str] = None) -> int:
    """returns the number of sinks analysed in f"""
    from .view import component_node
    node = f.node
    if qual is None and f.cls is None:
        node, _ = component_node(index, f)
    node = _bounds_to_contains(node)
    w = walk_function(node)
    gn = grid_names_of(node, w)
    pc = PosClassifier(f, w, gn)
    pc.index = index
    fname = qual or f.short
    sinks = 0
    m = None
    array_names = set()
    for name, ds in w.defs.items():
        for d in ds:
            if d[0] == 'value' and isinstance(d[1], ast.Call) and \
                    src(d[1].func) in ('np.zeros', 'np.ones', 'np.full', 'np.empty'):
                array_names.add(name)
    a = f.node.args
    for p in a.posonlyargs + a.args:
        if p.arg in ('visibility',):
            array_names.add(p.arg)
    for e in w.events:
        targets: List[Tuple[ast.AST, ast.AST, str]] = []   # (base, position expr, what)
        if e.kind in ('load', 'store', 'augstore') and isinstance(
                e.node if e.kind == 'load' else e.target, ast.Subscript):
            sub = e.node if e.kind == 'load' else e.target
            if is_grid_expr(sub.value, gn):
                targets.append((sub.value, sub.slice, 'grid cell'))
            elif isinstance(sub.value, ast.Name) and sub.value.id in array_names and \
                    _is_position_index(sub.slice):
                targets.append((sub.value, sub.slice, 'grid-shaped array'))
        elif e.kind == 'call' and isinstance(e.node.func, ast.Attribute) and \
                e.node.func.attr in ('swap',) and is_grid_expr(e.node.func.value, gn):
            for a_ in e.node.args:
                targets.append((e.node.func.value, a_, 'swap argument'))
        elif e.kind == 'call' and isinstance(e.node.func, ast.Attribute) and \
                e.node.func.attr == 'get' and is_grid_expr(e.node.func.value, gn) and e.node.args:
            rep.violation(rule, f.relpath, fname, e.line, src(e.node),
                          'Grid.get relies on IndexError, which negative indices do not raise; '
                          'use area.contains')
            sinks += 1
            continue
        for base, pexpr, what in targets:
            sinks += 1
            verdict, why = pc.classify(pexpr, e.loops)
            site = f'{f.relpath}:{fname}:{e.line}'
            if verdict == SAFE:
                rep.holds(rule, site, f'{src(base)}[{src(pexpr)}] {why}')
                continue
            # needs a dominating contains guard on the same position
            if m is None:
                m = FnModel(index, f, [], ev) if (qual is None and f.cls is None) else \
                    _PlainModel(index, f, ev)
            pos_canon = m.walk.expand(pexpr)
            if isinstance(pos_canon, ast.Tuple) and len(pos_canon.elts) == 2:
                ys = [src(x) for x in pos_canon.elts]
                if ys[0].endswith('.y') and ys[1].endswith('.x') and ys[0][:-2] == ys[1][:-2]:
                    pos_canon = pos_canon.elts[0].value
            pkey = src(pos_canon)
            guard = m.formula(e.guard)
            ok, detail = dominated(ev, guard, pkey)
            idx_idiom = any('IndexError' in t for t in e.in_try)
            reason = (f'{what} `{src(base)}[{src(pexpr)}]` ({why}) is not dominated by '
                      f'`<grid>.area.contains({pkey})`; guard here: `{show(guard)}`')
            if idx_idiom:
                reason += ' -- try/except IndexError is one-sided: indices in [-height, -1] wrap'
            rep.check(ok, rule, f.relpath, fname, e.line,
                      src(e.stmt) if e.stmt is not None else src(e.node), reason,
                      f'{src(base)}[{src(pexpr)}] guarded by contains')
    return sinks


class _PlainModel(FnModel):
    """FnModel without helper inlining (nested functions, methods)"""

    INLINE = False

    def __init__(self, index, func, ev):
        super().__init__(index, func, [], ev)


def dominated(ev: Evaluator, guard, pkey: str) -> Tuple[bool, str]:
    """in every world where the guard holds, inside(pkey) is True"""
    def probe(w: World):
        try:
            ev.holds(guard, w)
        except OutOfGrid:
            pass
    saved = set(ev.always_inside)
    try:
        worlds = ev.worlds(probe, limit=200000)
    finally:
        ev.always_inside = saved
    for w in worlds:
        try:
            h = ev.holds(guard, w)
        except OutOfGrid:
            h = False
        if h and w.vals.get(('inside', pkey)) is not True:
            return False, 'guard satisfiable with the position outside'
    return True, ''


def run_bounds(index: RepoIndex, rep, rule: str, modules=None) -> int:
    ev = Evaluator(index, always_inside=())
    total = 0
    from .inline import inlined_function
    for rel in modules or MODULES:
        mod = index.module(rel)
        # helpers that are analysed in the context of their callers (inlined there)
        inlined = set()
        for f in mod.functions.values():
            inlined |= set(inlined_function(index, f)[1])
        value_refs = set()
        for n in ast.walk(mod.tree):
            if isinstance(n, ast.Call):
                for a in list(n.args) + [k.value for k in n.keywords]:
                    if isinstance(a, ast.Name):
                        value_refs.add(a.id)
        for f in mod.functions.values():
            if f.name in inlined and f.name not in value_refs:
                rep.note(f'{rel}:{f.name} analysed inlined into its callers')
                continue
            total += check_function(index, rep, rule, f, ev)
            w = walk_function(f.node)
            for name, node in w.local_funcs.items():
                nf = Func(name, mod, node, None)
                total += check_function(index, rep, rule, nf, ev, qual=f'{f.name}.{name}')
    return total
