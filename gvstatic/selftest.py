"""Thorough-tier self-test: seeded faults (each must be reported by the named rule) and
behaviour-preserving controls (each must leave the verdict `held`) applied to scratch copies
of the *current* tree.  A variant whose anchor text no longer exists is skipped.  The result
is recorded in the evidence (`selftest`); a surviving fault or an alarmed control prints a
`SELFTEST-WARN` line and does not change the exit code: on an edited tree the corpus is a
statement about the checker, not about the property."""
from __future__ import annotations

import json
import multiprocessing
import os
import shutil
import tempfile
from typing import Any, Dict, List, Optional, Tuple

from .corpus import CORPUS

COPY = ('gym_gridverse', 'yaml', 'examples', 'scripts')


def _copy_tree(repo: str) -> str:
    d = tempfile.mkdtemp(prefix='gvselftest-')
    for sub in COPY:
        shutil.copytree(os.path.join(repo, sub), os.path.join(d, sub),
                        ignore=shutil.ignore_patterns('__pycache__', '*.pyc'))
    shutil.copy(os.path.join(repo, 'setup.py'), d)
    return d


def _make_patched(repo: str, patch: str) -> Optional[str]:
    import subprocess
    d = _copy_tree(repo)
    r = subprocess.run(['git', 'apply', '--unsafe-paths', f'--directory={d}', patch], cwd=d,
                       capture_output=True, text=True)
    if r.returncode != 0:
        r = subprocess.run(['patch', '-p1', '-s', '-i', patch], cwd=d, capture_output=True,
                           text=True)
        if r.returncode != 0:
            shutil.rmtree(d, ignore_errors=True)
            return None
    return d


def patch_variants() -> List[Dict[str, Any]]:
    """seeded changes kept under /verif/seeded (faults) and /verif/controls (controls)"""
    here = os.path.dirname(os.path.dirname(os.path.abspath(__file__)))
    out: List[Dict[str, Any]] = []
    for kind, sub in (('fault', 'seeded'), ('control', 'controls')):
        base = os.path.join(here, sub)
        if not os.path.isdir(base):
            continue
        for name in sorted(os.listdir(base)):
            mp = os.path.join(base, name, 'meta.json')
            pp = os.path.join(base, name, 'patch.diff')
            if not (os.path.exists(mp) and os.path.exists(pp)):
                continue
            meta = json.load(open(mp))
            if kind == 'fault':
                props = sorted(k for k, v in meta.get('detected_by', {}).items() if v)
                for p in props:
                    out.append({'name': f'{sub}/{name}', 'kind': 'fault', 'props': [p],
                                'rules': meta['detected_by'][p], 'patch': pp, 'edits': []})
            else:
                out.append({'name': f'{sub}/{name}', 'kind': 'control',
                            'props': meta.get('props', []), 'patch': pp, 'edits': []})
    return out


def _make_variant(repo: str, edits: List[Tuple[str, str, str]]) -> Optional[str]:
    """copy the analysed part of the tree and apply textual edits; None if an anchor is gone"""
    for rel, old, new in edits:
        p = os.path.join(repo, rel)
        if not os.path.exists(p) or open(p, encoding='utf-8').read().count(old) != 1:
            return None
    d = tempfile.mkdtemp(prefix='gvselftest-')
    for sub in COPY:
        shutil.copytree(os.path.join(repo, sub), os.path.join(d, sub),
                        ignore=shutil.ignore_patterns('__pycache__', '*.pyc'))
    shutil.copy(os.path.join(repo, 'setup.py'), d)
    for rel, old, new in edits:
        p = os.path.join(d, rel)
        s = open(p, encoding='utf-8').read()
        open(p, 'w', encoding='utf-8').write(s.replace(old, new))
    return d


def _run_variant(args) -> Dict[str, Any]:
    repo, v = args
    from .main import analyse
    import ast
    d = _make_patched(repo, v['patch']) if v.get('patch') else _make_variant(repo, v['edits'])
    if d is None:
        return {'name': v['name'], 'status': 'skipped (anchor text not found)'}
    try:
        for rel, _, _ in v['edits']:
            if rel.endswith('.py'):
                try:
                    ast.parse(open(os.path.join(d, rel)).read())
                except SyntaxError as e:
                    return {'name': v['name'], 'status': f'skipped (variant does not parse: {e})'}
        out = {'name': v['name'], 'kind': v['kind'], 'results': {}}
        ok = True
        for pid in v['props']:
            code, rep, msg = analyse(pid, d)
            rules = sorted({f.rule for f in rep.findings})
            out['results'][pid] = {'exit': code, 'rules': rules, 'msg': msg[:120]}
            if v['kind'] == 'fault':
                want = v.get('rules')
                hit = code == 1 and (not want or any(r in rules for r in want))
                ok = ok and hit
            else:
                ok = ok and code == 0
        out['status'] = 'ok' if ok else ('MISSED' if v['kind'] == 'fault' else 'FALSE-ALARM')
        return out
    finally:
        shutil.rmtree(d, ignore_errors=True)


def run(pid: str, repo: str, report=None, jobs: int = 16) -> Dict[str, Any]:
    variants = [v for v in CORPUS + patch_variants() if pid in v['props']]
    # a variant is checked only against the property being run
    work = [(repo, dict(v, props=[pid])) for v in variants]
    if not work:
        return {}
    with multiprocessing.Pool(min(jobs, len(work)), maxtasksperchild=8) as pool:
        results = pool.map(_run_variant, work)
    faults = [r for r in results if r.get('kind') == 'fault']
    controls = [r for r in results if r.get('kind') == 'control']
    summary = {
        'variants': len(results),
        'skipped': [r['name'] for r in results if r['status'].startswith('skipped')],
        'faults': len(faults),
        'faults_detected': sum(1 for r in faults if r['status'] == 'ok'),
        'faults_missed': [r['name'] for r in faults if r['status'] != 'ok'],
        'controls': len(controls),
        'controls_silent': sum(1 for r in controls if r['status'] == 'ok'),
        'controls_alarmed': [r['name'] for r in controls if r['status'] != 'ok'],
        'details': results,
    }
    for n in summary['faults_missed']:
        print(f'SELFTEST-WARN property={pid} seeded fault not reported: {n}')
    for n in summary['controls_alarmed']:
        print(f'SELFTEST-WARN property={pid} behaviour-preserving control raised an alarm: {n}')
    print(f'selftest {pid}: {summary["faults_detected"]}/{summary["faults"]} faults detected, '
          f'{summary["controls_silent"]}/{summary["controls"]} controls silent, '
          f'{len(summary["skipped"])} skipped')
    if report is not None:
        report.extra_coverage['selftest'] = summary
    return summary


if __name__ == '__main__':
    import sys
    repo = os.environ.get('VERIF_REPO', '/repo')
    pids = sys.argv[1:] or sorted({p for v in CORPUS + patch_variants() for p in v['props']})
    for pid in pids:
        run(pid, repo)
