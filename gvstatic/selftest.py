"""thorough-tier self-test corpus (filled in later)"""


def run(pid: str, repo: str) -> None:
    return None
