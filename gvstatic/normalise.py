"""Semantics-preserving normalisation of accumulation loops into comprehensions.

        X = []                              X = [E' for T in IT if C']
        for T in IT:                 ==>
            n = V            (locals, substituted into the later expressions)
            if C0: continue  (negated into the filter)
            if C: X.append(E)    /  X.append(E)  /  X += [E]  /  X.add(E) for X = set()

Conditions (otherwise the loop is left as written): X is initialised empty right before
the loop by a statement of the same block and is not mentioned in between; the loop has no
`else`, `break` or `return`; every statement of the body is one of the forms above (after
the body has been normalised itself, so nested accumulation loops become nested
comprehensions); loop targets and body locals are not read after the loop; a local whose
value contains a call is substituted at most once.  The rules then see one canonical form
for "the list of E over IT where C", however the source spells it."""
from __future__ import annotations

import ast
import copy
from typing import Dict, List, Optional, Set, Tuple


def _names(node: ast.AST, ctx=None) -> Set[str]:
    return {n.id for n in ast.walk(node) if isinstance(n, ast.Name)
            and (ctx is None or isinstance(n.ctx, ctx))}


def _targets(t: ast.AST) -> Set[str]:
    return {n.id for n in ast.walk(t) if isinstance(n, ast.Name)}


class _Subst(ast.NodeTransformer):
    def __init__(self, mp: Dict[str, ast.AST]):
        self.mp = mp
        self.count: Dict[str, int] = {}

    def visit_Name(self, n: ast.Name):
        if isinstance(n.ctx, ast.Load) and n.id in self.mp:
            self.count[n.id] = self.count.get(n.id, 0) + 1
            return copy.deepcopy(self.mp[n.id])
        return n


def _empty_init(s: ast.stmt) -> Optional[Tuple[str, str]]:
    """(name, kind) for `X = []` / `X: T = []` / `X = list()` / `X = set()`"""
    if isinstance(s, ast.Assign) and len(s.targets) == 1 and isinstance(s.targets[0], ast.Name):
        name, v = s.targets[0].id, s.value
    elif isinstance(s, ast.AnnAssign) and isinstance(s.target, ast.Name) and s.value is not None:
        name, v = s.target.id, s.value
    else:
        return None
    if isinstance(v, ast.Dict) and not v.keys:
        return name, 'dict'
    if isinstance(v, ast.List) and not v.elts:
        return name, 'list'
    if isinstance(v, ast.Call) and isinstance(v.func, ast.Name) and not v.args and \
            not v.keywords and v.func.id in ('list', 'set', 'dict'):
        return name, v.func.id
    return None


def _append_of(s: ast.stmt, x: str, kind: str) -> Optional[ast.AST]:
    if kind == 'dict':
        # X[K] = V  -> the pair (K, V)
        if isinstance(s, ast.Assign) and len(s.targets) == 1 and \
                isinstance(s.targets[0], ast.Subscript) and \
                isinstance(s.targets[0].value, ast.Name) and s.targets[0].value.id == x and \
                not isinstance(s.targets[0].slice, ast.Slice):
            return ast.Tuple([s.targets[0].slice, s.value], ast.Load())
        return None
    if isinstance(s, ast.Expr) and isinstance(s.value, ast.Call) and \
            isinstance(s.value.func, ast.Attribute) and \
            isinstance(s.value.func.value, ast.Name) and s.value.func.value.id == x and \
            len(s.value.args) == 1 and not s.value.keywords and \
            not isinstance(s.value.args[0], ast.Starred):
        if s.value.func.attr == ('append' if kind == 'list' else 'add'):
            return s.value.args[0]
    if kind == 'list' and isinstance(s, ast.AugAssign) and isinstance(s.op, ast.Add) and \
            isinstance(s.target, ast.Name) and s.target.id == x and \
            isinstance(s.value, ast.List) and len(s.value.elts) == 1 and \
            not isinstance(s.value.elts[0], ast.Starred):
        return s.value.elts[0]
    return None


_VALUE_CALLS = {'Position', 'Area', 'Shape', 'len', 'isinstance', 'abs', 'min', 'max', 'int',
                'float', 'bool', 'tuple', 'type', 'round'}


def _value_call(c: ast.Call) -> bool:
    """a call whose result is a plain value (frozen dataclass of the library, builtin
    scalar): evaluating it twice is the same as evaluating it once"""
    return isinstance(c.func, ast.Name) and c.func.id in _VALUE_CALLS and not c.keywords


def _reduce_body(body: List[ast.stmt], x: str, kind: str):
    """(element, [conditions], locals) or None"""
    mp: Dict[str, ast.AST] = {}
    conds: List[ast.AST] = []
    used_calls: Dict[str, int] = {}

    def sub(e: ast.AST) -> Optional[ast.AST]:
        st = _Subst(mp)
        out = st.visit(copy.deepcopy(e))
        for n, c in st.count.items():
            used_calls[n] = used_calls.get(n, 0) + c
        return out

    early: List[Tuple[ast.AST, ast.AST]] = []     # `if C: X.append(A); continue` steps
    # `if C: <locals>; <more>` as the last statement continues the same sequence under C
    body = list(body)
    while body and isinstance(body[-1], ast.If) and not body[-1].orelse and \
            len(body[-1].body) > 1 and x not in _names(body[-1].test) and \
            not any(isinstance(n, ast.Continue) for n in ast.walk(body[-1])):
        tail = body[-1]
        marker = ast.copy_location(ast.Expr(ast.Call(ast.Name('__COND__', ast.Load()),
                                                     [tail.test], [])), tail)
        body = body[:-1] + [marker] + list(tail.body)
    for i, s in enumerate(body):
        last = i == len(body) - 1
        if isinstance(s, ast.Expr) and isinstance(s.value, ast.Call) and \
                isinstance(s.value.func, ast.Name) and s.value.func.id == '__COND__':
            if early:
                return None
            conds.append(sub(s.value.args[0]))
            continue
        if isinstance(s, ast.Expr) and isinstance(s.value, ast.Constant):
            continue
        if isinstance(s, ast.If) and not s.orelse and len(s.body) == 2 and not last and \
                isinstance(s.body[1], ast.Continue) and x not in _names(s.test):
            a_ = _append_of(s.body[0], x, kind)
            if a_ is None or x in _names(a_) or conds:
                return None
            early.append((sub(s.test), sub(a_)))
            continue
        if isinstance(s, ast.Pass):
            continue
        if isinstance(s, ast.Assign) and not last and len(s.targets) == 1 and \
                isinstance(s.targets[0], ast.Tuple) and isinstance(s.value, ast.Tuple) and \
                len(s.targets[0].elts) == len(s.value.elts) and \
                all(isinstance(t, ast.Name) for t in s.targets[0].elts):
            # a, b = (e1, e2): both right-hand sides are read before either name is bound
            names_ = [t.id for t in s.targets[0].elts]
            if x in _names(s.value) or any(n_ == x or n_ in mp for n_ in names_) or \
                    len(set(names_)) != len(names_):
                return None
            vals_ = [sub(v) for v in s.value.elts]
            for n_, v_ in zip(names_, vals_):
                mp[n_] = v_
            continue
        if isinstance(s, (ast.Assign, ast.AnnAssign)) and not last:
            tg = s.targets[0] if isinstance(s, ast.Assign) and len(s.targets) == 1 else \
                (s.target if isinstance(s, ast.AnnAssign) else None)
            if not isinstance(tg, ast.Name) or s.value is None or tg.id == x or tg.id in mp:
                return None
            if x in _names(s.value):
                return None
            mp[tg.id] = sub(s.value)
            continue
        if isinstance(s, ast.If) and len(s.body) == 1 and len(s.orelse) == 1 and not last \
                and all(isinstance(b, ast.Assign) and len(b.targets) == 1 and
                        isinstance(b.targets[0], ast.Name) for b in (s.body[0], s.orelse[0])) \
                and s.body[0].targets[0].id == s.orelse[0].targets[0].id:
            # if C: n = A  else: n = B   ==>   n = A if C else B
            n_ = s.body[0].targets[0].id
            if n_ == x or n_ in mp or x in _names(s):
                return None
            mp[n_] = ast.IfExp(sub(s.test), sub(s.body[0].value), sub(s.orelse[0].value))
            continue
        if isinstance(s, ast.If) and not s.orelse and len(s.body) == 1 and \
                isinstance(s.body[0], ast.Continue) and not last:
            if x in _names(s.test):
                return None
            conds.append(ast.UnaryOp(ast.Not(), sub(s.test)))
            continue
        if last:
            inner = s
            while isinstance(inner, ast.If) and not inner.orelse and len(inner.body) == 1:
                if x in _names(inner.test):
                    return None
                conds.append(sub(inner.test))
                inner = inner.body[0]

            def elem_of(st: ast.stmt) -> Optional[ast.AST]:
                """`X.append(A)` -> A;  `if C: X.append(A) else: X.append(B)` -> A if C else B"""
                a = _append_of(st, x, kind)
                if a is not None:
                    return a
                if isinstance(st, ast.If) and len(st.body) == 1 and len(st.orelse) == 1 \
                        and x not in _names(st.test):
                    p, q = elem_of(st.body[0]), elem_of(st.orelse[0])
                    if p is not None and q is not None:
                        return ast.copy_location(ast.IfExp(st.test, p, q), st)
                return None
            e = elem_of(inner)
            if e is None or x in _names(e):
                return None
            elt = sub(e)
            if early and conds:
                return None       # an element for every iteration, or a filter: not both
            for c_, a_ in reversed(early):
                elt = ast.IfExp(c_, a_, elt)
            for n, c in used_calls.items():
                if c > 1 and any(isinstance(k, ast.Call) and not _value_call(k)
                                 for k in ast.walk(mp[n])):
                    return None
            return elt, conds, set(mp)
        return None
    return None


def _simplify_not(e: ast.AST) -> ast.AST:
    if isinstance(e, ast.UnaryOp) and isinstance(e.op, ast.Not) and \
            isinstance(e.operand, ast.UnaryOp) and isinstance(e.operand.op, ast.Not):
        return e.operand.operand
    return e


class _Norm:
    def __init__(self, fn: ast.AST):
        self.fn = fn
        self.changed = False
        self._extra_inside = None

    def block(self, stmts: List[ast.stmt]) -> List[ast.stmt]:
        stmts = list(stmts)
        for s in stmts:
            if isinstance(s, ast.ClassDef):
                continue
            for field in ('body', 'orelse', 'finalbody'):
                blk = getattr(s, field, None)
                if isinstance(blk, list) and blk and isinstance(blk[0], ast.stmt):
                    setattr(s, field, self.block(blk))
            if isinstance(s, ast.Try):
                for h in s.handlers:
                    h.body = self.block(h.body)
        out: List[ast.stmt] = []
        i = 0
        while i < len(stmts):
            s = stmts[i]
            init = _empty_init(s)
            if init is not None:
                j = i + 1
                x, kind = init
                while j < len(stmts) and not isinstance(stmts[j], (ast.For, ast.If)) and \
                        x not in _names(stmts[j]) and \
                        isinstance(stmts[j], (ast.Assign, ast.AnnAssign, ast.Expr)):
                    j += 1
                if j < len(stmts) and isinstance(stmts[j], ast.If) and \
                        len(stmts[j].body) == 1 and len(stmts[j].orelse) == 1 and \
                        isinstance(stmts[j].body[0], ast.For) and \
                        isinstance(stmts[j].orelse[0], ast.For) and \
                        x not in _names(stmts[j].test):
                    # X = []; if C: <loop filling X> else: <loop filling X>
                    br = stmts[j]
                    c1 = self.loop(br.body[0], x, kind)
                    c2 = self.loop(br.orelse[0], x, kind)
                    if c1 is not None and c2 is not None and \
                            x not in _names(br.body[0].iter) | _names(br.orelse[0].iter):
                        comp = ast.copy_location(ast.IfExp(br.test, c1, c2), br)
                        new = ast.copy_location(
                            ast.Assign([ast.Name(x, ast.Store())], comp), br)
                        ast.fix_missing_locations(new)
                        out.extend(stmts[i + 1:j])
                        out.append(new)
                        self.changed = True
                        i = j + 1
                        continue
                if j < len(stmts) and isinstance(stmts[j], ast.For):
                    fis = self.fission(stmts, i, j)
                    if fis is not None:
                        out.extend(fis)
                        self.changed = True
                        i = j + 1
                        continue
                if j < len(stmts) and isinstance(stmts[j], ast.For):
                    part = self.partition(stmts, i, j, x, kind)
                    if part is not None:
                        out.extend(part)
                        self.changed = True
                        i = j + 1
                        continue
                if j < len(stmts) and isinstance(stmts[j], ast.For):
                    loop = stmts[j]
                    comp = self.loop(loop, x, kind)
                    if comp is not None and x not in _names(loop.iter):
                        new = ast.copy_location(
                            ast.Assign([ast.Name(x, ast.Store())], comp), loop)
                        if isinstance(s, ast.AnnAssign):
                            new = ast.copy_location(
                                ast.AnnAssign(ast.Name(x, ast.Store()), s.annotation, comp, 1),
                                loop)
                        ast.fix_missing_locations(new)
                        out.extend(stmts[i + 1:j])
                        out.append(new)
                        self.changed = True
                        i = j + 1
                        continue
            out.append(s)
            i += 1
        return out

    def fission(self, stmts, i: int, j: int):
        """X = []; Y = []; for T in IT: X.append(A); (if C: Y.append(B))   -- every statement
        of the body feeds at most one of the accumulators, the others are shared locals --
        ==>  X = [A for T in IT]; Y = [B for T in IT if C]  (loop fission)"""
        loop = stmts[j]
        accs = [(k, _empty_init(stmts[k])) for k in range(i, j)]
        accs = [(k, o) for k, o in accs if o is not None]
        if len(accs) < 2 or loop.orelse:
            return None
        names = [o[0] for _, o in accs]
        if len(set(names)) != len(names):
            return None
        idx = {k for k, _ in accs}
        for m in range(i, j):
            if m not in idx and set(names) & _names(stmts[m]):
                return None
        if set(names) & _names(loop.iter):
            return None
        groups = {n: [] for n in names}
        shared = []
        for pos, st in enumerate(loop.body):
            hit = [n for n in names if n in _names(st)]
            if len(hit) > 1:
                return None
            if hit:
                groups[hit[0]].append(pos)
            else:
                shared.append(pos)
        if any(not g for g in groups.values()):
            return None
        new = []
        save = self._extra_inside
        self._extra_inside = loop
        try:
            for k, (name, kind) in accs:
                body = [copy.deepcopy(loop.body[p]) for p in sorted(shared + groups[name])]
                lp = ast.copy_location(ast.For(copy.deepcopy(loop.target),
                                               copy.deepcopy(loop.iter), body, []), loop)
                ast.fix_missing_locations(lp)
                comp = self.loop(lp, name, kind)
                if comp is None:
                    return None
                init = stmts[k]
                a = ast.Assign([ast.Name(name, ast.Store())], comp)
                if isinstance(init, ast.AnnAssign):
                    a = ast.AnnAssign(ast.Name(name, ast.Store()), init.annotation, comp, 1)
                new.append(ast.fix_missing_locations(ast.copy_location(a, loop)))
        finally:
            self._extra_inside = save
        rest = [stmts[m] for m in range(i + 1, j) if m not in idx]
        return rest + new

    def partition(self, stmts, i: int, j: int, x: str, kind: str):
        """X = []; Y = []; for T in IT: (if C: X.append(A) else: Y.append(B))
        ==>  X = [A for T in IT if C]; Y = [B for T in IT if not C]"""
        loop = stmts[j]
        if loop.orelse or not loop.body or not isinstance(loop.body[-1], ast.If) or \
                not loop.body[-1].orelse:
            return None
        br = loop.body[-1]
        others = [(k, _empty_init(stmts[k])) for k in range(i + 1, j)]
        others = [(k, o) for k, o in others if o is not None and o[1] == kind]
        if len(others) != 1:
            return None
        k, (y, _) = others[0]
        if any(x in _names(stmts[m]) or y in _names(stmts[m]) for m in range(i + 1, j) if m != k):
            return None
        if x in _names(loop.iter) or y in _names(loop.iter):
            return None
        for first, second in ((x, y), (y, x)):
            bx = loop.body[:-1] + [ast.If(br.test, br.body, [])]
            by = loop.body[:-1] + [ast.If(ast.UnaryOp(ast.Not(), br.test), br.orelse, [])]
            l1 = ast.For(loop.target, loop.iter, bx, [])
            l2 = ast.For(loop.target, loop.iter, by, [])
            ast.copy_location(l1, loop), ast.copy_location(l2, loop)
            save = self._extra_inside
            self._extra_inside = loop
            try:
                c1, c2 = self.loop(l1, first, kind), self.loop(l2, second, kind)
            finally:
                self._extra_inside = save
            if c1 is not None and c2 is not None:
                new = []
                for name, comp, init in ((first, c1, stmts[i] if first == x else stmts[k]),
                                         (second, c2, stmts[k] if first == x else stmts[i])):
                    a = ast.Assign([ast.Name(name, ast.Store())], comp)
                    if isinstance(init, ast.AnnAssign):
                        a = ast.AnnAssign(ast.Name(name, ast.Store()), init.annotation, comp, 1)
                    new.append(ast.fix_missing_locations(ast.copy_location(a, loop)))
                rest = [stmts[m] for m in range(i + 1, j) if m != k]
                return rest + new
        return None

    def _loads_outside(self, loop: ast.AST) -> Set[str]:
        inside = {id(n) for n in ast.walk(loop)}
        if getattr(self, '_extra_inside', None) is not None:
            inside |= {id(n) for n in ast.walk(self._extra_inside)}
        # a read inside the body of another loop that binds the same name as its own
        # target sees that loop's binding, not ours
        shadowed: Set[int] = set()
        for other in ast.walk(self.fn):
            if isinstance(other, ast.For) and other is not loop:
                tn = _targets(other.target)
                for st in other.body:
                    for n in ast.walk(st):
                        if isinstance(n, ast.Name) and n.id in tn:
                            shadowed.add(id(n))
            if isinstance(other, ast.For) and other is not loop:
                # a name assigned by a plain top-level statement of another loop's body is
                # re-bound in every iteration before the later statements of that body read it
                bound_here: Set[str] = set()
                for st in other.body:
                    if bound_here:
                        value_side = st.value if isinstance(st, (ast.Assign, ast.AnnAssign)) \
                            and getattr(st, 'value', None) is not None else st
                        for n in ast.walk(value_side):
                            if isinstance(n, ast.Name) and n.id in bound_here and \
                                    isinstance(n.ctx, ast.Load):
                                shadowed.add(id(n))
                    if isinstance(st, ast.Assign) and len(st.targets) == 1:
                        # the right-hand side is evaluated before the names are bound
                        bound_here |= _targets(st.targets[0])
            if isinstance(other, (ast.ListComp, ast.SetComp, ast.GeneratorExp, ast.DictComp)):
                tn = set()
                for g in other.generators:
                    tn |= _targets(g.target)
                first_iter = {id(n) for n in ast.walk(other.generators[0].iter)}
                for n in ast.walk(other):
                    if isinstance(n, ast.Name) and n.id in tn and id(n) not in first_iter:
                        shadowed.add(id(n))
        return {n.id for n in ast.walk(self.fn) if isinstance(n, ast.Name)
                and isinstance(n.ctx, ast.Load) and id(n) not in inside
                and id(n) not in shadowed}

    def loop(self, loop: ast.For, x: str, kind: str):
        if loop.orelse or not isinstance(loop, ast.For):
            return None
        for n in ast.walk(loop):
            if isinstance(n, (ast.Break, ast.Return, ast.Yield, ast.YieldFrom)):
                return None
        red = _reduce_body(loop.body, x, kind)
        if red is None:
            return self._nested(loop, x, kind)
        elt, conds, locs = red
        # loop targets and body locals die with the loop (flow-insensitive: never read outside)
        if (_targets(loop.target) | locs) & self._loads_outside(loop):
            return None
        conds = [nnf(_simplify_not(c)) for c in conds]
        if len(conds) > 1:
            flat: List[ast.AST] = []
            for c in conds:
                flat.extend(c.values if isinstance(c, ast.BoolOp) and isinstance(c.op, ast.And)
                            else [c])
            conds = [ast.BoolOp(ast.And(), flat)]
        gen = ast.comprehension(copy.deepcopy(loop.target), copy.deepcopy(loop.iter), conds, 0)
        if kind == 'dict':
            if not (isinstance(elt, ast.Tuple) and len(elt.elts) == 2):
                return None
            node = ast.DictComp(elt.elts[0], elt.elts[1], [gen])
        else:
            node = ast.ListComp(elt, [gen]) if kind == 'list' else ast.SetComp(elt, [gen])
        return ast.copy_location(node, loop)


def _reduce_prefix(body: List[ast.stmt], x: str):
    """(locals, conditions) of the statements before an inner loop: plain / parallel local
    assignments and `if C: continue` filters; None for anything else"""
    mp: Dict[str, ast.AST] = {}
    conds: List[ast.AST] = []
    counts: Dict[str, int] = {}

    def sub(e: ast.AST) -> ast.AST:
        st = _Subst(mp)
        out = st.visit(copy.deepcopy(e))
        for n, c in st.count.items():
            counts[n] = counts.get(n, 0) + c
        return out
    for s in body:
        if isinstance(s, ast.Expr) and isinstance(s.value, ast.Constant):
            continue
        if isinstance(s, ast.Assign) and len(s.targets) == 1:
            t = s.targets[0]
            if x in _names(s.value):
                return None
            if isinstance(t, ast.Name) and t.id != x and t.id not in mp:
                mp[t.id] = sub(s.value)
                continue
            if isinstance(t, ast.Tuple) and isinstance(s.value, ast.Tuple) and \
                    len(t.elts) == len(s.value.elts) and \
                    all(isinstance(e_, ast.Name) and e_.id != x and e_.id not in mp
                        for e_ in t.elts) and len({e_.id for e_ in t.elts}) == len(t.elts):
                vals = [sub(v) for v in s.value.elts]
                for e_, v in zip(t.elts, vals):
                    mp[e_.id] = v
                continue
            return None
        if isinstance(s, ast.If) and not s.orelse and len(s.body) == 1 and \
                isinstance(s.body[0], ast.Continue) and x not in _names(s.test):
            conds.append(ast.UnaryOp(ast.Not(), sub(s.test)))
            continue
        return None
    return mp, conds, counts


def _nested(self, loop: ast.For, x: str, kind: str):
    """for A in IA: [locals / continue-filters]; for B in IB: ... X.append(E)
    ==>  [E for A in IA if filters for B in IB if ...] with the locals substituted"""
    if kind not in ('list', 'set') or not loop.body or not isinstance(loop.body[-1], ast.For):
        return None
    pre = _reduce_prefix(loop.body[:-1], x)
    if pre is None:
        return None
    mp, conds, counts = pre
    inner_loop = loop.body[-1]
    if x in _names(inner_loop.iter):
        return None
    inner = self.loop(inner_loop, x, kind)
    if inner is None:
        return None
    st = _Subst(mp)
    inner2 = st.visit(copy.deepcopy(inner))
    for n, c in st.count.items():
        counts[n] = counts.get(n, 0) + c
    # a local holding a call is evaluated once per outer iteration in the loop, once per
    # use in the comprehension: substitute only values without calls, or used once -- except
    # plain subscripts / attribute reads, which are pure here
    for n, c in counts.items():
        if c > 1 and any(isinstance(k, ast.Call) and not _value_call(k)
                         for k in ast.walk(mp[n])):
            return None
    if (_targets(loop.target) | set(mp)) & self._loads_outside(loop):
        return None
    # names bound by the inner generators must not be captured by substituted values
    bound_inner = set()
    for g in inner2.generators:
        bound_inner |= _targets(g.target)
    free_vals = set()
    for v in mp.values():
        free_vals |= _names(v)
    if bound_inner & (free_vals | _targets(loop.target)):
        return None
    conds = [nnf(_simplify_not(c)) for c in conds]
    if len(conds) > 1:
        conds = [ast.BoolOp(ast.And(), conds)]
    g0 = ast.comprehension(copy.deepcopy(loop.target), copy.deepcopy(loop.iter), conds, 0)
    node = type(inner2)(inner2.elt, [g0] + list(inner2.generators))
    return ast.copy_location(node, loop)


_Norm._nested = _nested


def _unalias_appends(fn: ast.FunctionDef) -> None:
    """`k = A if c else B; k.append(v)` (k a local used nowhere else)  ==>
    `if c: A.append(v) else: B.append(v)`: the accumulator is chosen by alias; the two-list
    partition form that the loop normaliser knows says the same thing"""
    uses: Dict[str, int] = {}
    for n in ast.walk(fn):
        if isinstance(n, ast.Name):
            uses[n.id] = uses.get(n.id, 0) + 1
    for parent in ast.walk(fn):
        for field in ('body', 'orelse'):
            blk = getattr(parent, field, None)
            if not (isinstance(blk, list) and blk and isinstance(blk[0], ast.stmt)):
                continue
            i = 0
            while i + 1 < len(blk):
                a, b = blk[i], blk[i + 1]
                if isinstance(a, ast.Assign) and len(a.targets) == 1 and \
                        isinstance(a.targets[0], ast.Name) and isinstance(a.value, ast.IfExp) and \
                        isinstance(a.value.body, ast.Name) and \
                        isinstance(a.value.orelse, ast.Name) and \
                        isinstance(b, ast.Expr) and isinstance(b.value, ast.Call) and \
                        isinstance(b.value.func, ast.Attribute) and \
                        b.value.func.attr in ('append', 'add') and \
                        isinstance(b.value.func.value, ast.Name) and \
                        b.value.func.value.id == a.targets[0].id and \
                        uses.get(a.targets[0].id, 0) == 2 and \
                        a.targets[0].id not in _names(ast.Module(body=[ast.Expr(x) for x in
                                                               b.value.args], type_ignores=[])):
                    def mk(acc: ast.Name) -> ast.stmt:
                        c = copy.deepcopy(b.value)
                        c.func.value = ast.Name(acc.id, ast.Load())
                        return ast.copy_location(ast.Expr(c), b)
                    blk[i:i + 2] = [ast.copy_location(
                        ast.If(a.value.test, [mk(a.value.body)], [mk(a.value.orelse)]), a)]
                    ast.fix_missing_locations(blk[i])
                i += 1


def normalise_function(fn: ast.FunctionDef) -> ast.FunctionDef:
    """the function with accumulation loops rewritten and straight-line re-assignments renamed
    apart (the node itself when nothing qualifies)"""
    fn = ssa_straightline(fn)
    if not any(isinstance(n, ast.For) for n in ast.walk(fn)):
        return fn
    new = copy.deepcopy(fn)
    _unalias_appends(new)
    nm = _Norm(new)
    new.body = nm.block(new.body)
    if not nm.changed:
        return fn
    ast.fix_missing_locations(new)
    return new


# ---------------------------------------------------------------------------
def _count_stores(fn: ast.AST) -> Dict[str, int]:
    out: Dict[str, int] = {}
    for n in ast.walk(fn):
        if isinstance(n, ast.Name) and isinstance(n.ctx, (ast.Store, ast.Del)):
            out[n.id] = out.get(n.id, 0) + 1
        elif isinstance(n, ast.arg):
            out[n.arg] = out.get(n.arg, 0) + 1
    return out


def _chain_root(v: ast.AST) -> Optional[ast.Name]:
    while isinstance(v, ast.Attribute):
        v = v.value
    return v if isinstance(v, ast.Name) else None


def _blocks(fn: ast.AST):
    for parent in ast.walk(fn):
        for field in ('body', 'orelse', 'finalbody'):
            blk = getattr(parent, field, None)
            if isinstance(blk, list) and blk and isinstance(blk[0], ast.stmt):
                yield blk


def simplify_locals(fn: ast.FunctionDef) -> ast.FunctionDef:
    """A copy of the function in which naming conveniences are undone: parallel assignments
    are split, single-assignment locals that merely name a constant / enum member, an
    attribute chain of another stable name (`grid = state.grid`), or -- when used once -- a
    freshly constructed object or an index drawn for one list (`i = rng.choice(len(L))` ...
    `L[i]`  ==>  `choice(rng, L)`) are substituted at their uses."""
    fn = copy.deepcopy(fn)
    params = {a.arg for a in fn.args.posonlyargs + fn.args.args + fn.args.kwonlyargs}
    # (a) parallel assignments
    for blk in list(_blocks(fn)):
        i = 0
        while i < len(blk):
            s = blk[i]
            if isinstance(s, ast.Assign) and len(s.targets) == 1 and \
                    isinstance(s.targets[0], ast.Tuple) and isinstance(s.value, ast.Tuple) and \
                    len(s.targets[0].elts) == len(s.value.elts) and \
                    all(isinstance(t, ast.Name) for t in s.targets[0].elts):
                tn = {t.id for t in s.targets[0].elts}
                if not (tn & {n for v in s.value.elts for n in _names(v)}):
                    new = [ast.copy_location(ast.Assign([t], v), s)
                           for t, v in zip(s.targets[0].elts, s.value.elts)]
                    blk[i:i + 1] = new
                    i += len(new)
                    continue
            i += 1
    for _ in range(60):
        stores = _count_stores(fn)
        attr_stores = {ast.unparse(n) for n in ast.walk(fn)
                       if isinstance(n, ast.Attribute) and isinstance(n.ctx, (ast.Store, ast.Del))}
        loads: Dict[str, List[ast.Name]] = {}
        for n in ast.walk(fn):
            if isinstance(n, ast.Name) and isinstance(n.ctx, ast.Load):
                loads.setdefault(n.id, []).append(n)
        done = False
        for blk in _blocks(fn):
            for i, s in enumerate(blk):
                if isinstance(s, ast.AnnAssign) and s.value is not None and \
                        isinstance(s.target, ast.Name):
                    x, v = s.target.id, s.value
                elif isinstance(s, ast.Assign) and len(s.targets) == 1 and \
                        isinstance(s.targets[0], ast.Name):
                    x, v = s.targets[0].id, s.value
                else:
                    continue
                if stores.get(x) != 1 or x in params:
                    continue
                uses = loads.get(x, [])
                subst = None
                root = _chain_root(v)
                if isinstance(v, ast.Constant):
                    subst = 'all'
                elif isinstance(v, ast.Attribute) and root is not None:
                    text = ast.unparse(v)
                    if root.id[:1].isupper() and stores.get(root.id, 0) == 0:
                        subst = 'all'            # enum member / class attribute
                    elif stores.get(root.id, 0) <= 1 and not any(
                            t == text or text.startswith(t + '.') for t in attr_stores):
                        subst = 'all'            # alias of a component of a stable object
                elif isinstance(v, ast.Call) and len(uses) == 1 and isinstance(v.func, (ast.Name, ast.Attribute)):
                    fname = ast.unparse(v.func)
                    stable = all(stores.get(n, 0) <= 1 for n in _names(v))
                    if stable and (fname.split('.')[-1][:1].isupper() or fname in ('list', 'tuple')) \
                            and 'rng' not in _names(v):
                        subst = 'all'            # one-use fresh object
                    elif fname.endswith('.choice') and len(v.args) == 1 and not v.keywords and \
                            isinstance(v.args[0], ast.Call) and \
                            ast.unparse(v.args[0].func) == 'len' and len(v.args[0].args) == 1:
                        subst = 'choice'
                if subst is None and len(uses) == 1 and _pure_scalar(v) and \
                        all(stores.get(n, 0) <= 1 for n in _names(v)):
                    subst = 'all'                # one-use name of a pure scalar expression
                if subst is None:
                    continue
                if subst == 'choice':
                    use = uses[0]
                    L = ast.unparse(v.args[0].args[0])
                    host = None
                    for n in ast.walk(fn):
                        if isinstance(n, ast.Subscript) and n.slice is use and \
                                ast.unparse(n.value) == L:
                            host = n
                    # the use follows in the same block with no draw in between
                    j = next((k for k in range(i + 1, len(blk))
                              if any(m is use for m in ast.walk(blk[k]))), None)
                    if host is None or j is None or any(
                            'rng' in _names(blk[k]) for k in range(i + 1, j)):
                        continue
                    gen = v.func.value
                    call = ast.Call(ast.Name('choice', ast.Load()),
                                    [copy.deepcopy(gen), copy.deepcopy(v.args[0].args[0])], [])
                    for n in ast.walk(fn):
                        for field, val in ast.iter_fields(n):
                            if val is host:
                                setattr(n, field, call)
                            elif isinstance(val, list):
                                for q, y in enumerate(val):
                                    if y is host:
                                        val[q] = call
                else:
                    _subst_loads(fn, x, v)
                if len(blk) == 1:
                    blk[0] = ast.copy_location(ast.Pass(), s)
                else:
                    del blk[i]
                done = True
                break
            if done:
                break
        if not done:
            break
    ast.fix_missing_locations(fn)
    return fn


_PURE_CALLS = {'len', 'isinstance', 'min', 'max', 'abs', 'bool', 'int'}


def _pure_scalar(v: ast.AST) -> bool:
    """comparisons / boolean / arithmetic combinations of names, attributes, constants and
    constructor calls: no element reads, no draws, nothing that a later write could change"""
    if not isinstance(v, (ast.Compare, ast.BoolOp, ast.UnaryOp, ast.BinOp)):
        return False
    for n in ast.walk(v):
        if isinstance(n, (ast.Subscript, ast.Lambda, ast.Await, ast.Yield, ast.NamedExpr,
                          ast.ListComp, ast.SetComp, ast.DictComp, ast.GeneratorExp)):
            return False
        if isinstance(n, ast.Call):
            f = ast.unparse(n.func)
            if not (f.split('.')[-1][:1].isupper() or f in _PURE_CALLS):
                return False
        if isinstance(n, ast.Name) and n.id == 'rng':
            return False
    return True


def _subst_loads(fn: ast.AST, name: str, value: ast.AST) -> None:
    class S(ast.NodeTransformer):
        def visit_Name(self, n: ast.Name):
            if isinstance(n.ctx, ast.Load) and n.id == name:
                return copy.deepcopy(value)
            return n
    S().visit(fn)


_NEG = {ast.Lt: ast.GtE, ast.GtE: ast.Lt, ast.Gt: ast.LtE, ast.LtE: ast.Gt, ast.Eq: ast.NotEq,
        ast.NotEq: ast.Eq, ast.Is: ast.IsNot, ast.IsNot: ast.Is, ast.In: ast.NotIn,
        ast.NotIn: ast.In}


def nnf(e: ast.AST, neg: bool = False) -> ast.AST:
    """negation normal form of a condition: `not` pushed through and/or and into single
    comparisons (valid for the total orders and equalities compared here)"""
    if isinstance(e, ast.UnaryOp) and isinstance(e.op, ast.Not):
        return nnf(e.operand, not neg)
    if isinstance(e, ast.BoolOp):
        op = e.op
        if neg:
            op = ast.Or() if isinstance(e.op, ast.And) else ast.And()
        vals: List[ast.AST] = []
        for v in e.values:
            x = nnf(v, neg)
            if isinstance(x, ast.BoolOp) and type(x.op) is type(op):
                vals.extend(x.values)
            else:
                vals.append(x)
        return ast.copy_location(ast.BoolOp(op, vals), e)
    if not neg:
        return e
    if isinstance(e, ast.Compare) and len(e.ops) == 1 and type(e.ops[0]) in _NEG:
        return ast.copy_location(
            ast.Compare(e.left, [_NEG[type(e.ops[0])]()], e.comparators), e)
    return ast.copy_location(ast.UnaryOp(ast.Not(), e), e)


def ssa_straightline(fn: ast.FunctionDef) -> ast.FunctionDef:
    """Locals that are re-assigned only by plain top-level statements of the function body
    (`x = a; x = f(x)`) are renamed apart: every version but the last gets a suffix, and each
    use is renamed to the version that reaches it.  After this a single-assignment reading
    of the function is exact for these names."""
    params = {a.arg for a in fn.args.posonlyargs + fn.args.args + fn.args.kwonlyargs}
    for extra in (fn.args.vararg, fn.args.kwarg):
        if extra is not None:
            params.add(extra.arg)
    top_stores: Dict[str, int] = {}
    for s in fn.body:
        if isinstance(s, ast.Assign) and len(s.targets) == 1 and isinstance(s.targets[0], ast.Name):
            top_stores[s.targets[0].id] = top_stores.get(s.targets[0].id, 0) + 1
        elif isinstance(s, ast.AnnAssign) and isinstance(s.target, ast.Name) and \
                s.value is not None:
            top_stores[s.target.id] = top_stores.get(s.target.id, 0) + 1
    all_stores = _count_stores(fn)
    for n_ in ast.walk(fn):       # a bare annotation `x: T` declares, it does not assign
        if isinstance(n_, ast.AnnAssign) and n_.value is None and isinstance(n_.target, ast.Name):
            all_stores[n_.target.id] = all_stores.get(n_.target.id, 1) - 1
    cands = {n for n, k in top_stores.items()
             if k >= 2 and all_stores.get(n) == k and n not in params}
    for n in ast.walk(fn):
        if isinstance(n, (ast.Global, ast.Nonlocal)):
            cands -= set(n.names)
        # nested functions capture by name: leave such names alone
        if isinstance(n, (ast.FunctionDef, ast.Lambda)) and n is not fn:
            cands -= _names(n)
    if not cands:
        return fn
    fn = copy.deepcopy(fn)
    total = {n: top_stores[n] for n in cands}
    version = {n: -1 for n in cands}      # -1: not yet assigned

    def vname(n: str, v: int) -> str:
        return n if v == total[n] - 1 else f'{n}__{v}'

    def rename_loads(node: ast.AST) -> None:
        for x in ast.walk(node):
            if isinstance(x, ast.Name) and isinstance(x.ctx, ast.Load) and x.id in cands \
                    and version[x.id] >= 0:
                x.id = vname(x.id, version[x.id])
    for s in fn.body:
        tgt = None
        if isinstance(s, ast.Assign) and len(s.targets) == 1 and \
                isinstance(s.targets[0], ast.Name) and s.targets[0].id in cands:
            tgt = s.targets[0]
            rename_loads(s.value)
        elif isinstance(s, ast.AnnAssign) and isinstance(s.target, ast.Name) and \
                s.value is not None and s.target.id in cands:
            tgt = s.target
            rename_loads(s.value)
        else:
            rename_loads(s)
        if tgt is not None:
            base = tgt.id
            version[base] += 1
            tgt.id = vname(base, version[base])
    return fn


def ssa_params(fn: ast.FunctionDef, skip=('rng', 'self')) -> ast.FunctionDef:
    """Parameters that are re-bound by plain top-level statements of the body
    (`p = f(p)`, `p, q = g(p, q)`) and nowhere else: every re-binding gets a fresh name
    `p__r<k>` and later reads are renamed to the version that reaches them, so the name `p`
    always denotes the caller's argument.  (Rules compare returned expressions with parameter
    names; a re-bound parameter must not pass for the argument.)"""
    params = [a.arg for a in fn.args.posonlyargs + fn.args.args + fn.args.kwonlyargs]
    params = [p for p in params if p not in skip]
    top: Dict[str, int] = {}
    for s in fn.body:
        tg = []
        if isinstance(s, ast.Assign) and len(s.targets) == 1:
            t = s.targets[0]
            tg = [t] if isinstance(t, ast.Name) else \
                (list(t.elts) if isinstance(t, ast.Tuple) and
                 all(isinstance(x, ast.Name) for x in t.elts) else [])
        elif isinstance(s, ast.AnnAssign) and isinstance(s.target, ast.Name) and \
                s.value is not None:
            tg = [s.target]
        for t in tg:
            if t.id in params:
                top[t.id] = top.get(t.id, 0) + 1
    all_stores = _count_stores(fn)
    # _count_stores counts the parameter's own binding as one store
    cands = {p for p, k in top.items() if all_stores.get(p) == k + 1}
    for n in ast.walk(fn):
        if isinstance(n, (ast.Global, ast.Nonlocal)):
            cands -= set(n.names)
        if isinstance(n, (ast.FunctionDef, ast.Lambda)) and n is not fn:
            cands -= _names(n)
    if not cands:
        return fn
    fn = copy.deepcopy(fn)
    version = {p: 0 for p in cands}

    def vname(p: str) -> str:
        return p if version[p] == 0 else f'{p}__r{version[p]}'

    def rename_loads(node: ast.AST) -> None:
        for x in ast.walk(node):
            if isinstance(x, ast.Name) and isinstance(x.ctx, ast.Load) and x.id in cands:
                x.id = vname(x.id)
    for s in fn.body:
        tg = []
        if isinstance(s, ast.Assign) and len(s.targets) == 1:
            t = s.targets[0]
            tg = [t] if isinstance(t, ast.Name) else \
                (list(t.elts) if isinstance(t, ast.Tuple) and
                 all(isinstance(x, ast.Name) for x in t.elts) else [])
            rename_loads(s.value)
        elif isinstance(s, ast.AnnAssign) and isinstance(s.target, ast.Name) and \
                s.value is not None:
            tg = [s.target]
            rename_loads(s.value)
        else:
            rename_loads(s)
        hit = [t for t in tg if t.id in cands]
        if tg and not hit:
            continue
        for t in hit:
            version[t.id] += 1
            t.id = vname(t.id)
    return fn


def break_to_flag(loop: ast.For, flag: str) -> Optional[List[ast.stmt]]:
    """`for x in it: A; if c: break; B`  ==>  `flag = True; for x in it: if flag: A; flag = flag
    and not c; if flag: B` -- the statements that replace the loop, or None when the loop does
    not have this shape.  Side conditions: one `break`, as the whole body of a top-level `if`
    without `else` in the loop body; no `continue`; no loop `else`; the iterable is a plain
    name (iterating the rest of it has no effect).  The executions are the same up to the
    (effect-free) iteration over the remaining elements."""
    if loop.orelse or not isinstance(loop.iter, ast.Name):
        return None
    breaks = [n for n in ast.walk(loop) if isinstance(n, ast.Break)]
    conts = [n for n in ast.walk(loop) if isinstance(n, ast.Continue)]
    if len(breaks) != 1 or conts:
        return None
    at = [i for i, s in enumerate(loop.body)
          if isinstance(s, ast.If) and not s.orelse and len(s.body) == 1 and s.body[0] is breaks[0]]
    if len(at) != 1:
        return None
    i = at[0]
    if flag in _names(loop):
        return None
    F = lambda: ast.Name(flag, ast.Load())
    upd = ast.Assign([ast.Name(flag, ast.Store())],
                     ast.BoolOp(ast.And(), [F(), ast.UnaryOp(ast.Not(), loop.body[i].test)]))
    inner: List[ast.stmt] = list(loop.body[:i]) + [upd]
    if loop.body[i + 1:]:
        inner.append(ast.If(F(), list(loop.body[i + 1:]), []))
    new_loop = ast.For(loop.target, loop.iter, [ast.If(F(), inner, [])], [], None)
    init = ast.Assign([ast.Name(flag, ast.Store())], ast.Constant(True))
    out = [init, new_loop]
    for s in out:
        ast.copy_location(s, loop)
        ast.fix_missing_locations(s)
    return out


def eliminate_local_memo(fn: ast.FunctionDef):
    """A dictionary local to one call that only memoises a computation --

        if K not in M: M[K] = E          v = M.get(K)
        ... M[K] ...                     if v is None: v = M[K] = E
                                         ... v ...

    -- is removed: the uses read `E` directly.  Returns (rewritten copy, [(M, K, E)]) or None
    when no local has this shape.  The rewrite preserves behaviour only if K determines E; that
    is NOT checked here: the caller must check it for every (K, E) returned (a key that leaves
    out something E depends on makes two different inputs share one result)."""
    fn = copy.deepcopy(fn)
    memos = []

    def blocks(node):
        for parent in ast.walk(node):
            for field in ('body', 'orelse', 'finalbody'):
                blk = getattr(parent, field, None)
                if isinstance(blk, list) and blk and isinstance(blk[0], ast.stmt):
                    yield blk

    inits = []
    for blk in blocks(fn):
        for s in blk:
            tgt, val = None, None
            if isinstance(s, ast.Assign) and len(s.targets) == 1:
                tgt, val = s.targets[0], s.value
            elif isinstance(s, ast.AnnAssign) and s.value is not None:
                tgt, val = s.target, s.value
            if isinstance(tgt, ast.Name) and (
                    (isinstance(val, ast.Dict) and not val.keys) or
                    (isinstance(val, ast.Call) and ast.unparse(val.func) == 'dict'
                     and not val.args and not val.keywords)):
                inits.append((blk, s, tgt.id))
    for blk0, init, M in inits:
        uses = [n for n in ast.walk(fn) if isinstance(n, ast.Name) and n.id == M]
        if sum(1 for n in uses if isinstance(n.ctx, ast.Store)) != 1:
            continue
        accounted = set()
        plan = []          # (block, index, kind, K text, E, var)
        for blk in blocks(fn):
            for i, s in enumerate(blk):
                # (a) if K not in M: M[K] = E
                if isinstance(s, ast.If) and not s.orelse and len(s.body) == 1 and \
                        isinstance(s.test, ast.Compare) and len(s.test.ops) == 1 and \
                        isinstance(s.test.ops[0], ast.NotIn) and \
                        isinstance(s.test.comparators[0], ast.Name) and \
                        s.test.comparators[0].id == M and isinstance(s.body[0], ast.Assign) and \
                        len(s.body[0].targets) == 1 and \
                        isinstance(s.body[0].targets[0], ast.Subscript) and \
                        ast.unparse(s.body[0].targets[0].value) == M and \
                        ast.unparse(s.body[0].targets[0].slice) == ast.unparse(s.test.left):
                    plan.append((blk, i, 'a', ast.unparse(s.test.left), s.body[0].value, None))
                    accounted.add(id(s.test.comparators[0]))
                    accounted.add(id(s.body[0].targets[0].value))
                # (c) v = M.get(K); if v is None: v = M[K] = E
                if isinstance(s, ast.Assign) and len(s.targets) == 1 and \
                        isinstance(s.targets[0], ast.Name) and isinstance(s.value, ast.Call) and \
                        isinstance(s.value.func, ast.Attribute) and s.value.func.attr == 'get' and \
                        ast.unparse(s.value.func.value) == M and len(s.value.args) == 1 and \
                        not s.value.keywords and i + 1 < len(blk):
                    v = s.targets[0].id
                    K = ast.unparse(s.value.args[0])
                    t = blk[i + 1]
                    if isinstance(t, ast.If) and not t.orelse and len(t.body) == 1 and \
                            ast.unparse(t.test) == f'{v} is None' and \
                            isinstance(t.body[0], ast.Assign):
                        tg = [ast.unparse(x) for x in t.body[0].targets]
                        if sorted(tg) == sorted([v, f'{M}[{K}]']):
                            plan.append((blk, i, 'c', K, t.body[0].value, v))
                            accounted.add(id(s.value.func.value))
                            for x in t.body[0].targets:
                                if isinstance(x, ast.Subscript):
                                    accounted.add(id(x.value))
        if not plan:
            continue
        keys = {p[3] for p in plan}
        vals = {ast.unparse(p[4]) for p in plan}
        if len(keys) != 1 or len(vals) != 1:
            continue
        K, E = plan[0][3], plan[0][4]
        # remaining uses: loads M[K]
        loads = []
        ok = True
        for n in ast.walk(fn):
            if isinstance(n, ast.Subscript) and isinstance(n.value, ast.Name) and \
                    n.value.id == M and id(n.value) not in accounted:
                if isinstance(n.ctx, ast.Load) and ast.unparse(n.slice) == K:
                    loads.append(n)
                    accounted.add(id(n.value))
                else:
                    ok = False
        init_name = [n for n in ast.walk(init) if isinstance(n, ast.Name) and n.id == M]
        accounted.update(id(n) for n in init_name)
        if not ok or any(id(n) not in accounted for n in uses):
            continue
        # the key and the operands of E must not be re-bound between the fill and the reads:
        # they are locals of one loop iteration in every shape accepted above (same block)
        for blk, i, kind, _, _, v in sorted(plan, key=lambda p: -p[1]):
            if kind == 'a':
                del blk[i]
            else:
                blk[i:i + 2] = [ast.copy_location(
                    ast.Assign([ast.Name(v, ast.Store())], copy.deepcopy(E)), blk[i])]

        class R(ast.NodeTransformer):
            def visit_Subscript(self, n: ast.Subscript):
                if any(n is l for l in loads):
                    return copy.deepcopy(E)
                return self.generic_visit(n)
        fn = R().visit(fn)
        for blk in blocks(fn):
            if init in blk:
                blk.remove(init)
                if not blk:
                    blk.append(ast.Pass())
        memos.append((M, K, copy.deepcopy(E)))
        ast.fix_missing_locations(fn)
    return (fn, memos) if memos else None


# ---------------------------------------------------------------------------
# A list built by statements at one level -> the display it denotes
def fold_list_building(fn: ast.FunctionDef) -> ast.FunctionDef:
    """`x = [..]; x.extend(E1); x.append(e2); x += E3` at the top level of the body, with `x`
    named nowhere else before its last in-place update, becomes `x = [.., *E1, e2, *E3]` (on a
    copy).  Any other use of the name leaves the function as it is: a reader of the result
    (guards.GuardWalk expansion) would otherwise see only the initial `[]`."""
    body = fn.body
    cands = {}
    for i, s in enumerate(body):
        t = None
        if isinstance(s, ast.Assign) and len(s.targets) == 1 and isinstance(s.targets[0], ast.Name):
            t, v = s.targets[0].id, s.value
        elif isinstance(s, ast.AnnAssign) and isinstance(s.target, ast.Name) and s.value is not None:
            t, v = s.target.id, s.value
        if t is not None and isinstance(v, ast.List) and t not in cands:
            cands[t] = i
    if not cands:
        return fn
    out = copy.deepcopy(fn)
    changed = False
    for x, i0 in cands.items():
        parts = list(out.body[i0].value.elts)
        drop = []
        for j in range(i0 + 1, len(out.body)):
            s = out.body[j]
            piece = None
            if isinstance(s, ast.Expr) and isinstance(s.value, ast.Call) and \
                    isinstance(s.value.func, ast.Attribute) and \
                    isinstance(s.value.func.value, ast.Name) and s.value.func.value.id == x and \
                    s.value.func.attr in ('extend', 'append') and len(s.value.args) == 1 and \
                    not s.value.keywords:
                a = s.value.args[0]
                piece = ast.Starred(a, ast.Load()) if s.value.func.attr == 'extend' else a
            elif isinstance(s, ast.AugAssign) and isinstance(s.op, ast.Add) and \
                    isinstance(s.target, ast.Name) and s.target.id == x:
                a = s.value
                piece = ast.Starred(a, ast.Load())
            if piece is None:
                break
            if x in _names(a):
                break
            parts.append(piece)
            drop.append(j)
        if not drop:
            continue
        # no other statement between the initialisation and the last update may name x
        last = drop[-1]
        if any(x in _names(out.body[j]) for j in range(i0 + 1, last) if j not in drop):
            continue
        out.body[i0].value = ast.List(parts, ast.Load())
        out.body = [s for j, s in enumerate(out.body) if j not in drop]
        changed = True
        break           # indices moved; one folded list per function is what the repo needs
    return ast.fix_missing_locations(out) if changed else fn


# ---------------------------------------------------------------------------
# The duck-typing idiom for "a Position or a (y, x) pair"
def duck_pair_versions(fn: ast.FunctionDef):
    """`try: <read p.y / p.x / p.yx> except AttributeError: <unpack p>` at the top level of a
    function: returns (fn for Positions, fn for pairs) -- copies with the try replaced by its
    body / by its handler -- or None when the function has no such statement.  `cast(T, p)`
    re-bindings of the parameter are dropped (typing.cast returns its argument)."""
    idx = [i for i, s in enumerate(fn.body) if isinstance(s, ast.Try) and not s.finalbody
           and not s.orelse and len(s.handlers) == 1 and s.handlers[0].type is not None
           and 'AttributeError' in ast.unparse(s.handlers[0].type)]
    if len(idx) != 1:
        return None
    i = idx[0]

    def uncast(stmts):
        out = []
        for s in stmts:
            if isinstance(s, ast.Assign) and len(s.targets) == 1 and \
                    isinstance(s.value, ast.Call) and \
                    ast.unparse(s.value.func) in ('cast', 'typing.cast') and \
                    len(s.value.args) == 2 and \
                    ast.unparse(s.targets[0]) == ast.unparse(s.value.args[1]):
                continue
            out.append(s)
        return out
    a, b = copy.deepcopy(fn), copy.deepcopy(fn)
    a.body[i:i + 1] = uncast(a.body[i].body)
    b.body[i:i + 1] = uncast(b.body[i].handlers[0].body)
    return ast.fix_missing_locations(a), ast.fix_missing_locations(b)


# ---------------------------------------------------------------------------
# `x = None if <nothing to choose> else V; if x is not None: BODY`
def eliminate_none_sentinel(fn: ast.FunctionDef) -> ast.FunctionDef:
    """A local that is None exactly when there was nothing to pick, tested once right after:

        x = None if C else V            x = V if C else None
        if x is not None: BODY          if x is not None: BODY

    is `if not C: x = V; BODY` / `if C: x = V; BODY` -- provided V itself is never None (a
    subscript, a call of a constructor-like value: here a Subscript or Call), x is read nowhere
    outside BODY and is not re-bound.  The same thing as the try / except ValueError idiom
    around `rng.choice(len(..))`, with the emptiness test written out."""
    changed = False
    new = copy.deepcopy(fn)

    def uses(name: str, node: ast.AST) -> int:
        return sum(1 for n in ast.walk(node) if isinstance(n, ast.Name) and n.id == name)
    total: Dict[str, int] = {}
    # occurrences inside a comprehension that binds the same name are another variable
    own: Set[int] = set()
    for c in ast.walk(new):
        if isinstance(c, (ast.ListComp, ast.SetComp, ast.GeneratorExp, ast.DictComp)):
            bound = set()
            for g in c.generators:
                bound |= _targets(g.target)
            for n in ast.walk(c):
                if isinstance(n, ast.Name) and n.id in bound:
                    own.add(id(n))
    for n in ast.walk(new):
        if isinstance(n, ast.Name) and id(n) not in own:
            total[n.id] = total.get(n.id, 0) + 1
    for parent in ast.walk(new):
        for field in ('body', 'orelse'):
            blk = getattr(parent, field, None)
            if not (isinstance(blk, list) and blk and isinstance(blk[0], ast.stmt)):
                continue
            i = 0
            while i + 1 < len(blk):
                a, b = blk[i], blk[i + 1]
                ok = isinstance(a, ast.Assign) and len(a.targets) == 1 and \
                    isinstance(a.targets[0], ast.Name) and isinstance(a.value, ast.IfExp) and \
                    isinstance(b, ast.If) and not b.orelse
                if ok:
                    x = a.targets[0].id
                    none_first = isinstance(a.value.body, ast.Constant) and \
                        a.value.body.value is None
                    none_last = isinstance(a.value.orelse, ast.Constant) and \
                        a.value.orelse.value is None
                    v = a.value.orelse if none_first else a.value.body
                    t = b.test
                    is_test = isinstance(t, ast.Compare) and len(t.ops) == 1 and \
                        isinstance(t.ops[0], ast.IsNot) and isinstance(t.left, ast.Name) and \
                        t.left.id == x and isinstance(t.comparators[0], ast.Constant) and \
                        t.comparators[0].value is None
                    inside = 1 + uses(x, b)          # the store + every use in the If
                    ok = (none_first != none_last) and is_test and \
                        isinstance(v, (ast.Subscript, ast.Call)) and \
                        total.get(x, 0) == inside and x not in _names(a.value)
                    if ok:
                        cond = ast.UnaryOp(ast.Not(), a.value.test) if none_first \
                            else a.value.test
                        setx = ast.copy_location(
                            ast.Assign([ast.Name(x, ast.Store())], v), a)
                        blk[i:i + 2] = [ast.copy_location(
                            ast.If(cond, [setx] + b.body, []), b)]
                        ast.fix_missing_locations(blk[i])
                        changed = True
                        continue
                i += 1
    # early exit: `x = V if C else None; if x is None: return` is `if not C: return; x = V`
    for parent in ast.walk(new):
        for field in ('body', 'orelse'):
            blk = getattr(parent, field, None)
            if not (isinstance(blk, list) and blk and isinstance(blk[0], ast.stmt)):
                continue
            i = 0
            while i + 1 < len(blk):
                a, b = blk[i], blk[i + 1]
                if isinstance(a, ast.Assign) and len(a.targets) == 1 and \
                        isinstance(a.targets[0], ast.Name) and isinstance(a.value, ast.IfExp) and \
                        isinstance(b, ast.If) and not b.orelse and b.body and \
                        isinstance(b.body[-1], (ast.Return, ast.Continue, ast.Raise)):
                    x = a.targets[0].id
                    nf = isinstance(a.value.body, ast.Constant) and a.value.body.value is None
                    nl = isinstance(a.value.orelse, ast.Constant) and \
                        a.value.orelse.value is None
                    v = a.value.orelse if nf else a.value.body
                    t = b.test
                    is_none = isinstance(t, ast.Compare) and len(t.ops) == 1 and \
                        isinstance(t.ops[0], ast.Is) and isinstance(t.left, ast.Name) and \
                        t.left.id == x and isinstance(t.comparators[0], ast.Constant) and \
                        t.comparators[0].value is None
                    if nf != nl and is_none and x not in _names(a.value) and \
                            isinstance(v, (ast.Subscript, ast.Call, ast.Name, ast.Attribute)) \
                            and not any(x in _names(s_) for s_ in b.body):
                        cond = a.value.test if nf else ast.UnaryOp(ast.Not(), a.value.test)
                        guard = ast.copy_location(ast.If(cond, b.body, []), b)
                        setx = ast.copy_location(
                            ast.Assign([ast.Name(x, ast.Store())], v), a)
                        blk[i:i + 2] = [guard, setx]
                        ast.fix_missing_locations(guard)
                        ast.fix_missing_locations(setx)
                        changed = True
                        i += 2
                        continue
                i += 1
    # value position: `x = V if c else None` ... `E if x is None else x` (E a fresh constant
    # object: `Floor()`): x is `V if c else E` from the start, and the use is x
    def fresh(e) -> bool:
        return isinstance(e, ast.Call) and isinstance(e.func, ast.Name) and \
            e.func.id[:1].isupper() and not e.args and not e.keywords
    for parent in ast.walk(new):
        for field in ('body', 'orelse'):
            blk = getattr(parent, field, None)
            if not (isinstance(blk, list) and blk and isinstance(blk[0], ast.stmt)):
                continue
            for i, a in enumerate(blk):
                if not (isinstance(a, ast.Assign) and len(a.targets) == 1 and
                        isinstance(a.targets[0], ast.Name) and isinstance(a.value, ast.IfExp)):
                    continue
                x = a.targets[0].id
                nf = isinstance(a.value.body, ast.Constant) and a.value.body.value is None
                nl = isinstance(a.value.orelse, ast.Constant) and a.value.orelse.value is None
                if nf == nl or total.get(x, 0) != 3:
                    continue
                v = a.value.orelse if nf else a.value.body
                if not isinstance(v, (ast.Name, ast.Attribute, ast.Subscript, ast.Call)):
                    continue
                use = None
                for later in blk[i + 1:]:
                    for n in ast.walk(later):
                        if isinstance(n, ast.IfExp) and isinstance(n.test, ast.Compare) and \
                                len(n.test.ops) == 1 and isinstance(n.test.left, ast.Name) and \
                                n.test.left.id == x and \
                                isinstance(n.test.comparators[0], ast.Constant) and \
                                n.test.comparators[0].value is None:
                            isnone = isinstance(n.test.ops[0], ast.Is)
                            alt, same = (n.body, n.orelse) if isnone else (n.orelse, n.body)
                            if isinstance(same, ast.Name) and same.id == x and fresh(alt) and \
                                    isinstance(n.test.ops[0], (ast.Is, ast.IsNot)):
                                use = (n, alt)
                if use is None:
                    continue
                n, alt = use
                a.value = ast.IfExp(a.value.test, alt if nf else v, v if nf else alt)
                # the use becomes the name
                for later in blk[i + 1:]:
                    for p_ in ast.walk(later):
                        for fld, val in ast.iter_fields(p_):
                            if val is n:
                                setattr(p_, fld, ast.Name(x, ast.Load()))
                            elif isinstance(val, list):
                                for k_, it in enumerate(val):
                                    if it is n:
                                        val[k_] = ast.Name(x, ast.Load())
                ast.fix_missing_locations(new)
                changed = True
    # type tests: `isinstance(x, K)` says `x is not None` too (an Optional lookup helper read
    # where it is called, then tested for the class the caller wants)
    def is_x(e, x):
        return isinstance(e, ast.Name) and e.id == x

    def not_none_atom(t, x) -> Optional[bool]:
        """True: `x is not None` (to be dropped); False: isinstance(x, K) (kept); else None"""
        if isinstance(t, ast.Compare) and len(t.ops) == 1 and isinstance(t.ops[0], ast.IsNot) \
                and is_x(t.left, x) and isinstance(t.comparators[0], ast.Constant) and \
                t.comparators[0].value is None:
            return True
        if isinstance(t, ast.Call) and isinstance(t.func, ast.Name) and \
                t.func.id == 'isinstance' and len(t.args) == 2 and is_x(t.args[0], x) and \
                'NoneType' not in ast.unparse(t.args[1]) and \
                'type(None)' not in ast.unparse(t.args[1]) and \
                ast.unparse(t.args[1]) != 'object':
            return False
        return None

    def none_atom(t, x) -> Optional[bool]:
        if isinstance(t, ast.Compare) and len(t.ops) == 1 and isinstance(t.ops[0], ast.Is) \
                and is_x(t.left, x) and isinstance(t.comparators[0], ast.Constant) and \
                t.comparators[0].value is None:
            return True
        if isinstance(t, ast.UnaryOp) and isinstance(t.op, ast.Not) and \
                not_none_atom(t.operand, x) is False:
            return False
        return None

    def split(t, x, conj: bool):
        """the test without its `x is [not] None` part, when some top-level conjunct
        (disjunct) decides that x is not None (is None): (found, rest or None)"""
        atom = not_none_atom if conj else none_atom
        parts = t.values if isinstance(t, ast.BoolOp) and isinstance(
            t.op, ast.And if conj else ast.Or) else [t]
        if not parts or atom(parts[0], x) is None:
            return False, t            # the deciding part comes first (evaluation order)
        rest = [q for q in parts if atom(q, x) is not True]
        if not rest:
            return True, None
        return True, rest[0] if len(rest) == 1 else ast.BoolOp(
            ast.And() if conj else ast.Or(), rest)
    for parent in ast.walk(new):
        for field in ('body', 'orelse'):
            blk = getattr(parent, field, None)
            if not (isinstance(blk, list) and blk and isinstance(blk[0], ast.stmt)):
                continue
            i = 0
            while i + 1 < len(blk):
                a, b = blk[i], blk[i + 1]
                i += 1
                if not (isinstance(a, ast.Assign) and len(a.targets) == 1 and
                        isinstance(a.targets[0], ast.Name) and isinstance(a.value, ast.IfExp)
                        and isinstance(b, ast.If) and not b.orelse):
                    continue
                x = a.targets[0].id
                nf = isinstance(a.value.body, ast.Constant) and a.value.body.value is None
                nl = isinstance(a.value.orelse, ast.Constant) and a.value.orelse.value is None
                v = a.value.orelse if nf else a.value.body
                if nf == nl or x in _names(a.value) or \
                        not isinstance(v, (ast.Subscript, ast.Call)):
                    continue
                stores_x = sum(1 for n in ast.walk(new) if isinstance(n, ast.Name)
                               and n.id == x and isinstance(n.ctx, ast.Store))
                if stores_x != 1:
                    continue
                some = ast.UnaryOp(ast.Not(), a.value.test) if nf else a.value.test
                if nf and isinstance(a.value.test, ast.UnaryOp) and \
                        isinstance(a.value.test.op, ast.Not):
                    some = a.value.test.operand
                none = a.value.test if nf else ast.UnaryOp(ast.Not(), a.value.test)
                setx = ast.copy_location(ast.Assign([ast.Name(x, ast.Store())], v), a)
                found, rest = split(b.test, x, True)
                if found and total.get(x, 0) == 1 + uses(x, b):
                    inner = b.body if rest is None else \
                        [ast.copy_location(ast.If(rest, b.body, []), b)]
                    blk[i - 1:i + 1] = [ast.copy_location(
                        ast.If(copy.deepcopy(some), [setx] + inner, []), b)]
                    ast.fix_missing_locations(blk[i - 1])
                    changed = True
                    continue
                found, rest = split(b.test, x, False)
                if found and b.body and \
                        isinstance(b.body[-1], (ast.Return, ast.Continue, ast.Raise)) and \
                        not any(x in _names(s_) for s_ in b.body):
                    out = [ast.copy_location(ast.If(copy.deepcopy(none),
                                                    copy.deepcopy(b.body), []), b), setx]
                    if rest is not None:
                        out.append(ast.copy_location(ast.If(rest, b.body, []), b))
                    blk[i - 1:i + 1] = out
                    for o_ in out:
                        ast.fix_missing_locations(o_)
                    changed = True
                    i += len(out) - 1
    return new if changed else fn
