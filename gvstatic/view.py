"""The normalised view of a function that the class-level rules read: accumulation loops are
comprehensions (index time), module helpers and private methods called on `self` are inlined
at statement level, pure one-expression helpers at expression level, alias chains are
propagated away and keyword spellings of positional arguments are canonical.  A rule that
reads guarded events of the view sees the same thing whether or not the author extracted a
helper, named an intermediate value or spelled an argument by keyword."""
from __future__ import annotations

import ast
from typing import Dict, Optional, Tuple

from .guards import GuardWalk, walk_function
from .index import Func, RepoIndex
from .inline import canon_calls, inline_pure_exprs, inlined_function

_CACHE: Dict[tuple, Tuple[ast.FunctionDef, GuardWalk, list]] = {}
# methods of the library's classes that rules and atom recognisers read by name
VOCABULARY = ('contains', 'positions', 'front', 'swap', 'subgrid', 'object_types', 'type_index',
              'num_states', 'is_move', 'is_turn', 'from_orientation', 'from_shape', 'as_radians',
              'y_coordinates', 'x_coordinates', 'validate', 'register', 'from_name',
              'as_position', 'functional_step', 'functional_reset', 'functional_observation',
              'convert', 'set_seed')


def view(index: RepoIndex, func: Func, cross: Tuple[str, ...] = (),
         keep: Tuple[str, ...] = ()) -> Tuple[ast.FunctionDef, GuardWalk, list]:
    """(normalised node, its guard walk, names of the helpers inlined); `cross` names
    imported repository functions to inline as well, `keep` names helpers a rule wants to
    see as calls"""
    cross = tuple(cross) + tuple(n for n in new_imported_helpers(index, func) if n not in cross
                                 and n not in keep)
    key = (id(index), id(func.node), tuple(cross), tuple(keep))
    hit = _CACHE.get(key)
    if hit is not None:
        return hit
    node, inlined = inlined_function(index, func, exclude=set(keep), methods=True,
                                     cross=set(cross))
    node = canon_calls(index, func.module, node)
    node = splice_star_args(node)
    node = unpack_known_tuples(node)
    node = scalar_replace_records(index, node)
    ex = inline_pure_exprs(index, func.module, func.cls, node, keep=tuple(keep))
    if ast.dump(ex) != ast.dump(node):
        node = ex
    # one-expression methods the pinned tree did not have (`agent.pov_area(area)`) are the
    # expression they stand for
    from .inline import inline_methods_by_name
    ex = inline_methods_by_name(index, node, exclude=tuple(VOCABULARY) + tuple(keep),
                                new_only=True)
    if ast.dump(ex) != ast.dump(node):
        node = ast.fix_missing_locations(ex)
    node = scalar_replace_records(index, unpack_known_tuples(node))
    node = project_agent_fields(index, node)
    node = distribute_isinstance(node)
    out = (node, walk_function(node), inlined)
    _CACHE[key] = out
    return out


def distribute_isinstance(fn: ast.FunctionDef) -> ast.FunctionDef:
    """`isinstance(None if C else X, T)` (an Optional-returning lookup helper read where it is
    called) is `not C and isinstance(X, T)`: the type test goes into the alternatives,
    `isinstance(None, T)` is False for the classes of the package, and an alternative that
    is a constant truth value turns the conditional into a conjunction / disjunction"""
    import copy

    def dist(c: ast.Call) -> ast.AST:
        a = c.args[0]
        if isinstance(a, ast.IfExp):
            def branch(x):
                n = copy.copy(c)
                n.args = [x] + list(c.args[1:])
                return dist(n)
            l, r = branch(a.body), branch(a.orelse)
            neg = ast.UnaryOp(ast.Not(), copy.deepcopy(a.test))
            if isinstance(l, ast.Constant) and l.value is False:
                return r if isinstance(r, ast.Constant) and r.value is False else \
                    ast.BoolOp(ast.And(), [neg, r])
            if isinstance(r, ast.Constant) and r.value is False:
                return ast.BoolOp(ast.And(), [copy.deepcopy(a.test), l])
            return ast.IfExp(copy.deepcopy(a.test), l, r)
        if isinstance(a, ast.Constant) and a.value is None and \
                'NoneType' not in ast.unparse(c.args[1]) and \
                'type(None)' not in ast.unparse(c.args[1]) and \
                'object' not in ast.unparse(c.args[1]).split('.')[-1:]:
            return ast.Constant(False)
        return c

    class T(ast.NodeTransformer):
        changed = False

        def visit_Call(self, c: ast.Call):
            c = self.generic_visit(c)
            if isinstance(c.func, ast.Name) and c.func.id == 'isinstance' and \
                    len(c.args) == 2 and not c.keywords and isinstance(c.args[0], ast.IfExp):
                out = dist(c)
                if out is not c:
                    self.changed = True
                    return ast.copy_location(out, c)
            return c
    if not any(isinstance(n, ast.Call) and isinstance(n.func, ast.Name)
               and n.func.id == 'isinstance' and n.args and isinstance(n.args[0], ast.IfExp)
               for n in ast.walk(fn)):
        return fn
    t = T()
    new = t.visit(copy.deepcopy(fn))
    return ast.fix_missing_locations(new) if t.changed else fn


def splice_star_args(fn: ast.FunctionDef) -> ast.FunctionDef:
    """`t = (a, b, c); f(*t)` with `t` a local bound once to a tuple / list display and never
    updated in place is `f(a, b, c)`: the rules read the arguments"""
    import copy
    stores: dict = {}
    touched = set()
    for n in ast.walk(fn):
        if isinstance(n, ast.Name) and isinstance(n.ctx, (ast.Store, ast.Del)):
            stores[n.id] = stores.get(n.id, 0) + 1
        if isinstance(n, ast.Attribute) and isinstance(n.value, ast.Name) and \
                isinstance(n.ctx, ast.Load) and n.attr in ('append', 'extend', 'insert', 'pop',
                                                           'remove', 'sort', 'reverse', 'clear'):
            touched.add(n.value.id)
        if isinstance(n, ast.Subscript) and isinstance(n.value, ast.Name) and \
                isinstance(n.ctx, (ast.Store, ast.Del)):
            touched.add(n.value.id)
        if isinstance(n, ast.AugAssign) and isinstance(n.target, ast.Name):
            touched.add(n.target.id)
    displays = {}
    for n in ast.walk(fn):
        if isinstance(n, ast.Assign) and len(n.targets) == 1 and \
                isinstance(n.targets[0], ast.Name) and isinstance(n.value, (ast.Tuple, ast.List)) \
                and stores.get(n.targets[0].id) == 1 and n.targets[0].id not in touched and \
                not any(isinstance(x, ast.Starred) for x in n.value.elts):
            displays[n.targets[0].id] = n.value
    params = {a.arg for a in fn.args.posonlyargs + fn.args.args + fn.args.kwonlyargs}
    sites = [n for n in ast.walk(fn) if isinstance(n, ast.Call) and any(
        isinstance(a, ast.Starred) and isinstance(a.value, ast.Name)
        and a.value.id in displays and a.value.id not in params for a in n.args)]
    if not sites:
        return fn
    # the elements must still mean the same at the call: they are names / attributes of names
    # that are themselves bound once (or parameters never re-bound)
    def stable(e) -> bool:
        return all(stores.get(x.id, 0) <= 1 for x in ast.walk(e) if isinstance(x, ast.Name))
    new = copy.deepcopy(fn)
    displays2 = {}
    for n in ast.walk(new):
        if isinstance(n, ast.Assign) and len(n.targets) == 1 and \
                isinstance(n.targets[0], ast.Name) and n.targets[0].id in displays:
            displays2[n.targets[0].id] = n.value
    for n in ast.walk(new):
        if isinstance(n, ast.Call):
            out = []
            for a in n.args:
                if isinstance(a, ast.Starred) and isinstance(a.value, ast.Name) and \
                        a.value.id in displays2 and a.value.id not in params and \
                        all(stable(x) for x in displays2[a.value.id].elts):
                    out.extend(copy.deepcopy(x) for x in displays2[a.value.id].elts)
                else:
                    out.append(a)
            n.args = out
    return ast.fix_missing_locations(new)


def _store_counts(fn: ast.FunctionDef) -> dict:
    stores: dict = {}
    for n in ast.walk(fn):
        if isinstance(n, ast.Name) and isinstance(n.ctx, (ast.Store, ast.Del)):
            stores[n.id] = stores.get(n.id, 0) + 1
    return stores


def unpack_known_tuples(fn: ast.FunctionDef) -> ast.FunctionDef:
    """`t = (a, b); x, y = t` with `t` bound once to a display of names bound at most once is
    `x = a; y = b` (a helper that returned a pair, read through)"""
    import copy
    stores = _store_counts(fn)
    displays = {}
    for n in ast.walk(fn):
        if isinstance(n, ast.Assign) and len(n.targets) == 1 and \
                isinstance(n.targets[0], ast.Name) and isinstance(n.value, ast.Tuple) and \
                stores.get(n.targets[0].id) == 1 and \
                all(isinstance(x, ast.Name) and stores.get(x.id, 0) <= 1 for x in n.value.elts):
            displays[n.targets[0].id] = n.value
    hits = [n for n in ast.walk(fn) if isinstance(n, ast.Assign) and len(n.targets) == 1
            and isinstance(n.targets[0], ast.Tuple) and isinstance(n.value, ast.Name)
            and n.value.id in displays
            and len(n.targets[0].elts) == len(displays[n.value.id].elts)
            and all(isinstance(t, ast.Name) for t in n.targets[0].elts)]

    def direct(st) -> bool:
        # `x, y = (A, B)`: a display unpacked on the spot, no target read by a value
        if not (isinstance(st, ast.Assign) and len(st.targets) == 1
                and isinstance(st.targets[0], ast.Tuple) and isinstance(st.value, ast.Tuple)
                and len(st.targets[0].elts) == len(st.value.elts)
                and all(isinstance(t, ast.Name) for t in st.targets[0].elts)
                and not any(isinstance(v, ast.Starred) for v in st.value.elts)):
            return False
        tn = {t.id for t in st.targets[0].elts}
        return not any(isinstance(x, ast.Name) and x.id in tn
                       for v in st.value.elts for x in ast.walk(v))
    if not hits and not any(direct(n) for n in ast.walk(fn)):
        return fn
    new = copy.deepcopy(fn)
    for parent in ast.walk(new):
        for field in ('body', 'orelse', 'finalbody'):
            blk = getattr(parent, field, None)
            if not (isinstance(blk, list) and blk and isinstance(blk[0], ast.stmt)):
                continue
            out = []
            for st in blk:
                if isinstance(st, ast.Assign) and len(st.targets) == 1 and \
                        isinstance(st.targets[0], ast.Tuple) and isinstance(st.value, ast.Name) \
                        and st.value.id in displays and \
                        len(st.targets[0].elts) == len(displays[st.value.id].elts) and \
                        all(isinstance(t, ast.Name) for t in st.targets[0].elts):
                    for t, v in zip(st.targets[0].elts, displays[st.value.id].elts):
                        out.append(ast.copy_location(
                            ast.Assign([ast.Name(t.id, ast.Store())],
                                       ast.Name(v.id, ast.Load())), st))
                elif direct(st):
                    for t, v in zip(st.targets[0].elts, st.value.elts):
                        out.append(ast.copy_location(
                            ast.Assign([ast.Name(t.id, ast.Store())], v), st))
                else:
                    out.append(st)
            setattr(parent, field, out)
    return ast.fix_missing_locations(new)


def scalar_replace_records(index: RepoIndex, fn: ast.FunctionDef) -> ast.FunctionDef:
    """`o = Observation(g, a)` (a plain dataclass record of the package, arguments names bound
    at most once), `o` bound once: `o.grid` is `g`, `o.agent` is `a`, and a bare `o` is the
    constructor call again -- the record is only a pair of names for the rules"""
    import copy
    stores = _store_counts(fn)
    recs = {}
    for n in ast.walk(fn):
        if isinstance(n, ast.Assign) and len(n.targets) == 1 and \
                isinstance(n.targets[0], ast.Name) and stores.get(n.targets[0].id) == 1 and \
                isinstance(n.value, ast.Call) and isinstance(n.value.func, ast.Name) and \
                n.value.func.id in ('Observation', 'State'):
            c = index.find_class(n.value.func.id)
            if c is None or '__init__' in c.methods or '__post_init__' in c.methods:
                continue
            fields_ = [s_.target.id for s_ in c.node.body
                       if isinstance(s_, ast.AnnAssign) and isinstance(s_.target, ast.Name)]
            if len(n.value.args) > len(fields_) or \
                    any(isinstance(a, ast.Starred) for a in n.value.args) or \
                    any(k.arg is None for k in n.value.keywords):
                continue
            mp = dict(zip(fields_, n.value.args))
            mp.update({k.arg: k.value for k in n.value.keywords})
            if set(mp) == set(fields_) and all(
                    isinstance(v, ast.Name) and stores.get(v.id, 0) <= 1 for v in mp.values()):
                recs[n.targets[0].id] = (mp, n.value)
    params = {a.arg for a in fn.args.posonlyargs + fn.args.args + fn.args.kwonlyargs}
    recs = {k: v for k, v in recs.items() if k not in params}
    if not recs:
        return fn

    class R(ast.NodeTransformer):
        def visit_Attribute(self, n):
            if isinstance(n.value, ast.Name) and n.value.id in recs and \
                    n.attr in recs[n.value.id][0]:
                v = recs[n.value.id][0][n.attr]
                return ast.copy_location(ast.Name(v.id, n.ctx if isinstance(
                    n.ctx, ast.Load) else ast.Load()), n)
            self.generic_visit(n)
            return n

        def visit_Name(self, n):
            if isinstance(n.ctx, ast.Load) and n.id in recs:
                return ast.copy_location(copy.deepcopy(recs[n.id][1]), n)
            return n
    new = copy.deepcopy(fn)
    new = R().visit(new)
    return ast.fix_missing_locations(new)


def project_agent_fields(index: RepoIndex, fn: ast.FunctionDef) -> ast.FunctionDef:
    """`a = Agent(p, o, g)` bound once: `a.position` is `p`, `a.orientation` is `o`,
    `a.grid_object` is `g` (when Agent's constructor still takes them in that order and its
    properties read the transform it builds from them)"""
    import copy
    try:
        ac = index.cls('gym_gridverse/agent.py', 'Agent')
    except Exception:       # noqa: BLE001
        return fn
    init = ac.methods.get('__init__')
    if init is None:
        return fn
    names = [a.arg for a in init.node.args.args[1:]]
    if names[:2] != ['position', 'orientation']:
        return fn
    for pn in ('position', 'orientation'):
        m = ac.methods.get(pn)
        if m is None or not m.is_property():
            return fn
    stores = _store_counts(fn)
    params = {a.arg for a in fn.args.posonlyargs + fn.args.args + fn.args.kwonlyargs}
    ags = {}
    once = {n.targets[0].id: n.value for n in ast.walk(fn)
            if isinstance(n, ast.Assign) and len(n.targets) == 1
            and isinstance(n.targets[0], ast.Name) and stores.get(n.targets[0].id) == 1
            and n.targets[0].id not in params}
    for n in ast.walk(fn):
        if isinstance(n, ast.Assign) and len(n.targets) == 1 and \
                isinstance(n.targets[0], ast.Name) and n.targets[0].id in once and \
                isinstance(n.value, ast.Name):
            # `x = y` with y itself bound once to the constructor call
            v_ = n.value
            for _ in range(4):
                if isinstance(v_, ast.Name) and v_.id in once:
                    v_ = once[v_.id]
            if isinstance(v_, ast.Call) and isinstance(v_.func, ast.Name) and \
                    v_.func.id == 'Agent':
                n = ast.Assign(n.targets, v_)
        if isinstance(n, ast.Assign) and len(n.targets) == 1 and \
                isinstance(n.targets[0], ast.Name) and stores.get(n.targets[0].id) == 1 and \
                n.targets[0].id not in params and isinstance(n.value, ast.Call) and \
                isinstance(n.value.func, ast.Name) and n.value.func.id == 'Agent' and \
                not any(isinstance(a, ast.Starred) for a in n.value.args) and \
                not any(k.arg is None for k in n.value.keywords):
            mp = dict(zip(names, n.value.args))
            mp.update({k.arg: k.value for k in n.value.keywords})
            if all(stores.get(x.id, 0) <= 1 or x.id in params for v in mp.values()
                   for x in ast.walk(v) if isinstance(x, ast.Name)):
                ags[n.targets[0].id] = mp
    if not ags:
        return fn
    # the agent object must not be updated between its construction and the reads
    for n in ast.walk(fn):
        if isinstance(n, (ast.Assign, ast.AugAssign)):
            for t in (n.targets if isinstance(n, ast.Assign) else [n.target]):
                if isinstance(t, ast.Attribute) and isinstance(t.value, ast.Name) and \
                        t.value.id in ags:
                    ags.pop(t.value.id, None)

    class R(ast.NodeTransformer):
        def visit_Attribute(self, n):
            if isinstance(n.value, ast.Name) and n.value.id in ags and \
                    isinstance(n.ctx, ast.Load) and n.attr in ags[n.value.id]:
                return ast.copy_location(copy.deepcopy(ags[n.value.id][n.attr]), n)
            self.generic_visit(n)
            return n
    new = R().visit(copy.deepcopy(fn))
    return ast.fix_missing_locations(new)


def new_imported_helpers(index: RepoIndex, func: Func) -> Tuple[str, ...]:
    """names called in `func` that resolve to module-level functions of *another* module of
    the package which the pinned tree did not have: helpers a maintainer extracted into a
    shared module; they are read through like module-local helpers"""
    from .pinned_names import FUNCTIONS
    out = []
    for n in ast.walk(func.node):
        if isinstance(n, ast.Call) and isinstance(n.func, ast.Name) and \
                n.func.id not in FUNCTIONS and n.func.id not in func.module.functions and \
                n.func.id not in out:
            r = index.resolve_name(func.module, n.func.id)
            if isinstance(r, Func) and r.cls is None and \
                    r.module.relpath.startswith('gym_gridverse/'):
                out.append(n.func.id)
    return tuple(out)


def component_node(index: RepoIndex, func: Func) -> Tuple[ast.FunctionDef, list]:
    """normal form of a component function (transition / reward / ... / their helpers):
    module helpers inlined, keyword spellings canonical, pure one-expression helpers (and
    rng.choice's wrapper `choice(rng, L)` = `L[rng.choice(len(L))]`) expanded"""
    key = (id(index), id(func.node), 'component')
    hit = _CACHE.get(key)
    if hit is not None:
        return hit[0], hit[2]
    node, inlined = inlined_function(index, func)
    node = canon_calls(index, func.module, node)
    ex = inline_pure_exprs(index, func.module, func.cls, node, cross=('choice',))
    if ast.dump(ex) != ast.dump(node):
        node = ex
    # pure methods a maintainer added to the library's classes (`door.is_unlocked_by(key)`,
    # `grid.positions_of(T)`) are read as the expression they stand for; the methods the rules
    # know by name stay calls
    from .inline import inline_methods_by_name
    ex = inline_methods_by_name(index, node, exclude=VOCABULARY)
    if ast.dump(ex) != ast.dump(node):
        node = ex
    from .normalise import eliminate_none_sentinel
    node = distribute_isinstance(eliminate_none_sentinel(node))
    _CACHE[key] = (node, None, inlined)
    return node, inlined


_DEEP_FORMS = ('pickle.loads(pickle.dumps({x}))', 'copy.deepcopy({x})', 'deepcopy({x})',
               'pickle.loads(pickle.dumps({x}, protocol=pickle.HIGHEST_PROTOCOL))',
               'pickle.loads(pickle.dumps({x}, pickle.HIGHEST_PROTOCOL))')


def deep_copy_of(index: RepoIndex, module, expr: ast.AST, var: str, depth: int = 4) -> bool:
    """does `expr` denote, on every evaluation, a deep copy of the object named `var`?  A
    pickle round trip / copy.deepcopy of it, a conditional whose alternatives both are, a
    repository function of `var` whose returned expression is a deep copy of its first
    parameter, or a method called on `var` such that every method of that name in the package
    returns a deep copy of its receiver."""
    from .core import src
    from .inline import _methods_named, pure_body_expr
    if depth <= 0 or expr is None:
        return False
    if isinstance(expr, ast.IfExp):
        return deep_copy_of(index, module, expr.body, var, depth) and \
            deep_copy_of(index, module, expr.orelse, var, depth)
    if not isinstance(expr, ast.Call):
        return False
    if src(expr) in {f.format(x=var) for f in _DEEP_FORMS}:
        return True
    if any(isinstance(a, ast.Starred) for a in expr.args) or \
            any(k.arg is None for k in expr.keywords):
        return False
    if isinstance(expr.func, ast.Attribute) and src(expr.func.value) == var and \
            not expr.args and not expr.keywords:
        cands = _methods_named(index, expr.func.attr)
        if not cands:
            return False
        for m in cands:
            ps = list(m.node.args.posonlyargs) + list(m.node.args.args)
            e = pure_body_expr(m.node) if len(ps) == 1 and not m.node.decorator_list else None
            if e is None or not deep_copy_of(index, m.module, e, ps[0].arg, depth - 1):
                return False
        return True
    r = index.resolve_callee(module, expr.func)
    if isinstance(r, Func) and r.cls is None and len(expr.args) == 1 and not expr.keywords \
            and src(expr.args[0]) == var and not r.node.decorator_list:
        ps = r.positional()
        if len(ps) >= 1 and all(d is not None for p_, d in r.param_defaults().items()
                                if p_ != ps[0].arg):
            e = pure_body_expr(r.node)
            return e is not None and deep_copy_of(index, r.module, e, ps[0].arg, depth - 1)
    return False


def step_wiring(index: RepoIndex) -> dict:
    """facts about GridWorld.functional_step in normal form (transition_with_copy inlined):
    the in-place transition calls, the local they mutate and its definition, the returned
    triple and the order of the reward / termination evaluations"""
    from .core import src
    fs = index.func('gym_gridverse/envs/gridworld.py', 'GridWorld.functional_step')
    node, w, inlined = view(index, fs, cross=('transition_with_copy',))
    sp, ap = [a.arg for a in fs.node.args.args[1:3]]
    tcalls = [e for e in w.events if e.kind == 'call'
              and src(e.node.func) == 'self._transition_function']
    out = {'func': fs, 'walk': w, 'state': sp, 'action': ap, 'tcalls': tcalls,
           'copy': None, 'copy_def': None, 'copy_deep': False, 'inlined': inlined}
    if len(tcalls) == 1 and tcalls[0].node.args and isinstance(tcalls[0].node.args[0], ast.Name):
        c = tcalls[0].node.args[0].id
        out['copy'] = c
        ds = [d for d in w.defs.get(c, []) if d[0] == 'value']
        if len(ds) == 1 and len(w.defs.get(c, [])) == 1 and c != sp:
            out['copy_def'] = src(w.expand(ds[0][1]))
            out['copy_deep'] = deep_copy_of(index, fs.module, w.expand(ds[0][1]), sp) or \
                deep_copy_of(index, index.module('gym_gridverse/envs/transition_functions.py'),
                             w.expand(ds[0][1]), sp)
    return out


def value_text(index: RepoIndex, func: Func) -> Optional[str]:
    """source text of what a small function returns, in normal form: locals expanded, a chain
    of `if c: return a` steps as a conditional expression, helpers and methods the pinned tree
    did not have read through (pinned names stay as calls: they are the vocabulary the rules
    are written in).  None when the body is not a pure expression."""
    from .core import src
    from .inline import inline_methods_by_name, inline_pure_exprs, pure_body_expr
    from .pinned_names import FUNCTIONS, METHODS
    e = pure_body_expr(func.node)
    if e is None:
        return None
    e = inline_pure_exprs(index, func.module, func.cls, e, keep=tuple(FUNCTIONS | METHODS))
    e = inline_methods_by_name(index, e, new_only=True)
    return src(e)
