"""The normalised view of a function that the class-level rules read: accumulation loops are
comprehensions (index time), module helpers and private methods called on `self` are inlined
at statement level, pure one-expression helpers at expression level, alias chains are
propagated away and keyword spellings of positional arguments are canonical.  A rule that
reads guarded events of the view sees the same thing whether or not the author extracted a
helper, named an intermediate value or spelled an argument by keyword."""
from __future__ import annotations

import ast
from typing import Dict, Tuple

from .guards import GuardWalk, walk_function
from .index import Func, RepoIndex
from .inline import canon_calls, inline_pure_exprs, inlined_function

_CACHE: Dict[tuple, Tuple[ast.FunctionDef, GuardWalk, list]] = {}
# methods of the library's classes that rules and atom recognisers read by name
VOCABULARY = ('contains', 'positions', 'front', 'swap', 'subgrid', 'object_types', 'type_index',
              'num_states', 'is_move', 'from_orientation', 'from_shape', 'as_radians',
              'y_coordinates', 'x_coordinates', 'validate', 'register', 'from_name',
              'as_position', 'functional_step', 'functional_reset', 'functional_observation',
              'convert', 'set_seed')


def view(index: RepoIndex, func: Func, cross: Tuple[str, ...] = (),
         keep: Tuple[str, ...] = ()) -> Tuple[ast.FunctionDef, GuardWalk, list]:
    """(normalised node, its guard walk, names of the helpers inlined); `cross` names
    imported repository functions to inline as well, `keep` names helpers a rule wants to
    see as calls"""
    key = (id(index), id(func.node), tuple(cross), tuple(keep))
    hit = _CACHE.get(key)
    if hit is not None:
        return hit
    node, inlined = inlined_function(index, func, exclude=set(keep), methods=True,
                                     cross=set(cross))
    node = canon_calls(index, func.module, node)
    ex = inline_pure_exprs(index, func.module, func.cls, node, keep=tuple(keep))
    if ast.dump(ex) != ast.dump(node):
        node = ex
    out = (node, walk_function(node), inlined)
    _CACHE[key] = out
    return out


def component_node(index: RepoIndex, func: Func) -> Tuple[ast.FunctionDef, list]:
    """normal form of a component function (transition / reward / ... / their helpers):
    module helpers inlined, keyword spellings canonical, pure one-expression helpers (and
    rng.choice's wrapper `choice(rng, L)` = `L[rng.choice(len(L))]`) expanded"""
    key = (id(index), id(func.node), 'component')
    hit = _CACHE.get(key)
    if hit is not None:
        return hit[0], hit[2]
    node, inlined = inlined_function(index, func)
    node = canon_calls(index, func.module, node)
    ex = inline_pure_exprs(index, func.module, func.cls, node, cross=('choice',))
    if ast.dump(ex) != ast.dump(node):
        node = ex
    # pure methods a maintainer added to the library's classes (`door.is_unlocked_by(key)`,
    # `grid.positions_of(T)`) are read as the expression they stand for; the methods the rules
    # know by name stay calls
    from .inline import inline_methods_by_name
    ex = inline_methods_by_name(index, node, exclude=VOCABULARY)
    if ast.dump(ex) != ast.dump(node):
        node = ex
    _CACHE[key] = (node, None, inlined)
    return node, inlined


def step_wiring(index: RepoIndex) -> dict:
    """facts about GridWorld.functional_step in normal form (transition_with_copy inlined):
    the in-place transition calls, the local they mutate and its definition, the returned
    triple and the order of the reward / termination evaluations"""
    from .core import src
    fs = index.func('gym_gridverse/envs/gridworld.py', 'GridWorld.functional_step')
    node, w, inlined = view(index, fs, cross=('transition_with_copy',))
    sp, ap = [a.arg for a in fs.node.args.args[1:3]]
    tcalls = [e for e in w.events if e.kind == 'call'
              and src(e.node.func) == 'self._transition_function']
    out = {'func': fs, 'walk': w, 'state': sp, 'action': ap, 'tcalls': tcalls,
           'copy': None, 'copy_def': None, 'inlined': inlined}
    if len(tcalls) == 1 and tcalls[0].node.args and isinstance(tcalls[0].node.args[0], ast.Name):
        c = tcalls[0].node.args[0].id
        out['copy'] = c
        ds = [d for d in w.defs.get(c, []) if d[0] == 'value']
        if len(ds) == 1 and len(w.defs.get(c, [])) == 1 and c != sp:
            out['copy_def'] = src(w.expand(ds[0][1]))
    return out
