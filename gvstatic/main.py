"""Entry point: python3 -m gvstatic.main <ID> [--tier quick|thorough] [--replay path] [--repo dir]"""
from __future__ import annotations

import argparse
import importlib
import json
import os
import sys
import traceback

from .core import AnalysisError, Report, finish
from .index import RepoIndex


def _reset_caches() -> None:
    """the per-tree memo tables (source texts, views, axis analyses) belong to one index: a
    process that analyses many trees in turn (self-test workers) drops them between trees"""
    from . import axes, core, inline, posenum, view
    for tbl in (axes._CACHE, core._SRC_CACHE, inline._NAMED, posenum._GEO, view._CACHE):
        tbl.clear()


def analyse(pid: str, repo: str, tier: str = 'quick'):
    """run the rules of one property on a tree; returns (code, report, message).  Writes
    nothing: used by the self-test on scratch variants."""
    mod = importlib.import_module(f'gvstatic.rules.{pid.lower()}')
    report = Report(pid, tier, repo)
    _reset_caches()
    try:
        index = RepoIndex(repo, report)
        mod.run(index, report)
        if not report.findings:
            report.enforce_floors()
        return (1 if report.findings else 0), report, ''
    except AnalysisError as e:
        if report.findings:
            return 1, report, f'stopped early: {e}'
        return 2, report, str(e)
    except Exception as e:
        return 2, report, f'checker crashed: {type(e).__name__}: {e}'


def run_property(pid: str, tier: str, repo: str) -> int:
    try:
        mod = importlib.import_module(f'gvstatic.rules.{pid.lower()}')
    except ModuleNotFoundError:
        print(f'ANALYSIS-ERROR property={pid} no checker module')
        return 2
    report = Report(pid, tier, repo)
    try:
        index = RepoIndex(repo, report)
        mod.run(index, report)
        if tier == 'thorough' and hasattr(mod, 'run_thorough'):
            mod.run_thorough(index, report)
        if tier == 'thorough':
            from . import normtest, selftest
            nf = normtest.run()
            report.extra_coverage['normal_form_selftest'] = nf
            if nf['failures']:
                raise AnalysisError('a rewrite of the normal-form layer is not '
                                    f'semantics-preserving: {nf["failures"][:2]}')
            selftest.run(pid, repo, report)
        code = finish(report, mod.EXPLANATION, getattr(mod, 'TRUSTED', []))
        return code
    except AnalysisError as e:
        if report.findings:
            # violations established before the analysis broke off stand on their own
            report.note(f'analysis stopped early: {e}')
            print(f'  (analysis stopped early after the violations below: {e})')
            report.rules = {k: dict(v, floor=0) for k, v in report.rules.items()}
            return finish(report, mod.EXPLANATION, getattr(mod, 'TRUSTED', []))
        print(f'ANALYSIS-ERROR property={pid} {e}')
        return 2
    except Exception as e:  # a crash of the checker is not a verdict
        traceback.print_exc()
        print(f'ANALYSIS-ERROR property={pid} checker crashed: {type(e).__name__}: {e}')
        return 2


def main(argv=None) -> int:
    ap = argparse.ArgumentParser()
    ap.add_argument('property')
    ap.add_argument('--tier', default=os.environ.get('VERIF_TIER') or 'quick',
                    choices=['quick', 'thorough'])
    ap.add_argument('--replay')
    ap.add_argument('--repo', default=os.environ.get('VERIF_REPO') or '/repo')
    a = ap.parse_args(argv)
    if a.replay:
        d = json.load(open(a.replay))
        print(f'replaying {d["rule"]} at {d["file"]}:{d["function"]} -- re-running the '
              f'whole check of {d["property"]} on {a.repo}')
        code = run_property(d['property'], a.tier, a.repo)
        return code
    return run_property(a.property.upper(), a.tier, a.repo)


if __name__ == '__main__':
    sys.exit(main())
