"""Core of the static checker: reports, findings, evidence, exit codes.

Exit codes of a check run
  0  every rule instance of the property held
  1  at least one rule instance is broken (one `VIOLATION property=.. replay=..` line each)
  2  the analysis itself could not be carried out (`ANALYSIS-ERROR ...`)
"""
from __future__ import annotations

import ast
import hashlib
import json
import os
import re
import sys
import time
from dataclasses import dataclass, field
from typing import Any, Dict, List, Optional

VERIF_DIR = os.path.dirname(os.path.dirname(os.path.abspath(__file__)))


class AnalysisError(Exception):
    """The analysis cannot be carried out (vanished anchor, construct outside the
    understood grammar, instance count below the floor).  Never a verdict."""


_SRC_CACHE: Dict[int, Any] = {}


def src(node: ast.AST) -> str:
    """ast.unparse, memoised per node object (nodes are treated as immutable once built)"""
    k = id(node)
    hit = _SRC_CACHE.get(k)
    if hit is not None and hit[0] is node:
        return hit[1]
    text = ast.unparse(node)
    _SRC_CACHE[k] = (node, text)
    return text


def norm_construct(text: str) -> str:
    """normalised statement text used to key findings (no line numbers)"""
    return re.sub(r'\s+', ' ', text).strip()[:300]


@dataclass
class Finding:
    property_id: str
    rule: str
    file: str
    function: str
    line: int
    construct: str
    reason: str
    extra: Dict[str, Any] = field(default_factory=dict)

    @property
    def key(self) -> str:
        return f'{self.rule}|{self.file}|{self.function}|{norm_construct(self.construct)}'

    def as_dict(self) -> Dict[str, Any]:
        d = {
            'property': self.property_id,
            'rule': self.rule,
            'file': self.file,
            'function': self.function,
            'line': self.line,
            'construct': self.construct,
            'reason': self.reason,
            'key': self.key,
        }
        if self.extra:
            d['extra'] = self.extra
        return d


class Report:
    """Collects rule instances and findings for one property run."""

    def __init__(self, property_id: str, tier: str, repo: str):
        self.property_id = property_id
        self.tier = tier
        self.repo = repo
        self.t0 = time.time()
        self.instances: List[Dict[str, Any]] = []
        self.findings: List[Finding] = []
        self.rules: Dict[str, Dict[str, Any]] = {}
        self.notes: List[str] = []
        self.assumptions: List[str] = []
        self.files: Dict[str, str] = {}
        self.extra_coverage: Dict[str, Any] = {}

    # -- rule bookkeeping ------------------------------------------------
    def rule(self, rule_id: str, text: str, floor: int = 1,
             undecided_allowed: Optional[int] = None) -> None:
        """`undecided_allowed`: how many instances the rule may leave undecided -- the number
        confirmed by reading on the pinned tree.  More than that is not a pass: the rule no
        longer decides the code it was confirmed on (exit 2)"""
        self.rules.setdefault(
            rule_id,
            {'text': text, 'floor': floor, 'instances': 0, 'holds': 0,
             'violated': 0, 'undecided': 0, 'undecided_allowed': undecided_allowed},
        )

    def _inst(self, rule_id: str, site: str, verdict: str, detail: str = '') -> None:
        if rule_id not in self.rules:
            self.rule(rule_id, rule_id)
        r = self.rules[rule_id]
        r['instances'] += 1
        r[verdict] += 1
        self.instances.append(
            {'rule': rule_id, 'site': site, 'verdict': verdict, 'detail': detail}
        )

    def holds(self, rule_id: str, site: str, detail: str = '') -> None:
        self._inst(rule_id, site, 'holds', detail)

    def undecided(self, rule_id: str, site: str, detail: str = '') -> None:
        self._inst(rule_id, site, 'undecided', detail)

    def violation(self, rule_id: str, file: str, function: str, line: int,
                  construct: str, reason: str, **extra) -> None:
        self._inst(rule_id, f'{file}:{function}:{line}', 'violated', reason)
        self.findings.append(
            Finding(self.property_id, rule_id, file, function, line, construct,
                    reason, extra)
        )

    def check(self, cond: bool, rule_id: str, file: str, function: str, line: int,
              construct: str, reason: str, detail: str = '') -> bool:
        """record `holds` if cond else a violation"""
        if cond:
            self.holds(rule_id, f'{file}:{function}:{line}', detail or construct)
        else:
            self.violation(rule_id, file, function, line, construct, reason)
        return cond

    def note(self, text: str) -> None:
        self.notes.append(text)

    def consulted(self, relpath: str, text: str) -> None:
        self.files[relpath] = hashlib.sha256(text.encode()).hexdigest()[:16]

    # -- finish ----------------------------------------------------------
    def enforce_floors(self) -> None:
        for rid, r in self.rules.items():
            cap = r.get('undecided_allowed')
            if cap is not None and r['undecided'] > cap and not r['violated']:
                und = [i for i in self.instances if i['rule'] == rid
                       and i['verdict'] == 'undecided']
                raise AnalysisError(
                    f'rule {rid} leaves {r["undecided"]} instance(s) undecided, {cap} on the '
                    f'tree it was confirmed on: e.g. {und[-1]["site"]}: {und[-1]["detail"][:120]}')
            if r['instances'] < r['floor']:
                raise AnalysisError(
                    f'rule {rid} matched {r["instances"]} instance(s), floor is '
                    f'{r["floor"]}: the rule no longer sees the code it was '
                    f'confirmed on'
                )


def load_known() -> Dict[str, Any]:
    path = os.path.join(VERIF_DIR, 'known_findings.json')
    try:
        with open(path) as f:
            return json.load(f)
    except FileNotFoundError:
        return {'known': [], 'fixed': []}


def finish(report: Report, explanation: str, trusted: List[str]) -> int:
    """write evidence, print findings, return the exit code"""
    if not report.findings:
        # a rule that reported a violation may have stopped early; floors guard only
        # against rules that silently match nothing
        report.enforce_floors()
    known = load_known().get('known', [])
    known_keys = {(k['property'], k['key']): k for k in known
                  if isinstance(k, dict)}

    vdir = os.path.join(VERIF_DIR, 'evidence', 'violations')
    new_findings: List[Finding] = []
    for f in report.findings:
        k = known_keys.get((f.property_id, f.key))
        if k is not None:
            print(f'KNOWN-FINDING: property={f.property_id} {k.get("what", f.reason)}')
        else:
            new_findings.append(f)

    for i, f in enumerate(new_findings):
        os.makedirs(vdir, exist_ok=True)
        digest = hashlib.sha256(f.key.encode()).hexdigest()[:10]
        path = os.path.join(vdir, f'{f.property_id}-{f.rule}-{digest}.json')
        with open(path, 'w') as fh:
            json.dump(f.as_dict(), fh, indent=1)
        print(f'  {f.rule} {f.file}:{f.line} in {f.function}: {f.reason}')
        print(f'    construct: {norm_construct(f.construct)[:160]}')
        print(f'VIOLATION property={f.property_id} replay={path}')

    n_inst = len(report.instances)
    distinct = len({(i['rule'], i['site'], i['detail']) for i in report.instances})
    discharged = sum(1 for i in report.instances if i['verdict'] == 'holds')
    samples = []
    seen_rules = set()
    for inst in report.instances:
        if inst['rule'] not in seen_rules:
            seen_rules.add(inst['rule'])
            samples.append(inst)
    samples = samples[:40]
    coverage = {
        'explanation': explanation,
        'evaluations': max(n_inst, 1),
        'distinct_nontrivial': max(distinct, 2) if n_inst >= 2 else distinct,
        'rule': ('one evaluation = one rule instance (a construct of /repo matched by a '
                 'rule and decided); distinct = different (rule, site, detail) triples; '
                 'every instance is non-trivial in that the rule inspected a concrete '
                 'construct of the current tree'),
        'obligations': n_inst,
        'discharged': discharged,
        'undecided': sum(1 for i in report.instances if i['verdict'] == 'undecided'),
        'violated': sum(1 for i in report.instances if i['verdict'] == 'violated'),
        'rules': report.rules,
        'samples': samples,
        'instances': report.instances if len(report.instances) <= 1500 else report.instances[:1500],
        'files_analysed': report.files,
        'notes': report.notes,
        'trusted_base': trusted,
        'exhaustive': True,
    }
    coverage.update(report.extra_coverage)
    ev = {
        'property_id': report.property_id,
        'tier': report.tier,
        'seed': int(os.environ.get('VERIF_SEED', '0') or 0),
        'level': 'other',
        'coverage': coverage,
        'assumptions': report.assumptions + trusted,
        'wall_s': round(time.time() - report.t0, 3),
        'violations': len(new_findings),
    }
    evdir = os.environ.get('VERIF_EVIDENCE_DIR') or os.path.join(VERIF_DIR, 'evidence')
    if not os.environ.get('VERIF_EVIDENCE_DIR') and \
            os.path.realpath(report.repo) != os.path.realpath('/repo'):
        # a run against a scratch copy (--repo <dir>) must not overwrite the evidence of /repo
        import tempfile
        evdir = os.path.join(tempfile.gettempdir(), 'gvstatic-evidence-scratch')
    os.makedirs(evdir, exist_ok=True)
    with open(os.path.join(evdir, f'{report.property_id}.json'), 'w') as fh:
        json.dump(ev, fh, indent=1, default=str)

    per_rule = ', '.join(
        f'{rid}:{r["holds"]}/{r["instances"]}' + (f'(?{r["undecided"]})' if r['undecided'] else '')
        for rid, r in sorted(report.rules.items())
    )
    print(f'{report.property_id} [{report.tier}] instances={n_inst} held={discharged} '
          f'violations={len(new_findings)} wall={ev["wall_s"]}s  {per_rule}')
    return 1 if new_findings else 0
