"""E5 effect summaries: which parameters a function may mutate (directly, through aliases,
or through callees), which module globals it writes; computed to a fixpoint over the
package call graph.  Calls through a parameter holding a component resolve to the whole
registry family of that role."""
from __future__ import annotations

import ast
from dataclasses import dataclass, field
from typing import Dict, Iterable, List, Optional, Set, Tuple

from .core import AnalysisError, src
from .guards import MUTATORS, Event, GuardWalk, walk_function
from .index import PKG, Cls, Func, Module, RepoIndex

PROTOCOL_ROLE = {
    'ResetFunction': 'reset', 'TransitionFunction': 'transition',
    'RewardFunction': 'reward', 'TerminatingFunction': 'terminating',
    'ObservationFunction': 'observation', 'VisibilityFunction': 'visibility',
}
ATTR_ROLE = {
    '_reset_function': 'reset', '_transition_function': 'transition',
    '_reward_function': 'reward', '_termination_function': 'terminating',
    '_observation_function': 'observation',
}

# externals known not to mutate their arguments (an unknown external is reported)
PURE_EXTERNAL_NAMES = {
    'isinstance', 'len', 'range', 'sorted', 'sum', 'any', 'all', 'max', 'min', 'abs', 'zip',
    'next', 'tuple', 'list', 'set', 'frozenset', 'dict', 'float', 'int', 'round', 'bool', 'str',
    'repr', 'type', 'hash', 'iter', 'enumerate', 'map', 'filter', 'reversed', 'print', 'id',
    'getattr', 'hasattr', 'callable', 'issubclass', 'super', 'cast', 'object', 'format',
    'ValueError', 'TypeError', 'RuntimeError', 'NotImplementedError', 'KeyError', 'IndexError',
    'AssertionError', 'StopIteration', 'AttributeError', 'partial', 'deque', 'lru_cache',
    'Schema', 'And', 'Or', 'Optional', 'divmod', 'pow', 'slice', 'vars', 'open', 'property',
}
PURE_EXTERNAL_MODULES = ('numpy', 'math', 'itertools', 'more_itertools', 'functools',
                         'collections', 'inspect', 'warnings', 'pickle', 'copy', 'typing',
                         'typing_extensions', 'importlib', 'enum', 'abc', 'dataclasses', 'yaml',
                         'schema', 'gym', 'pkg_resources', 'time', 'os', 'sys', 'argparse',
                         'json', 're')
# methods that never mutate their receiver, by name (str, tuple, ndarray readers ...)
PURE_METHODS = {
    'items', 'keys', 'values', 'get', 'index', 'count', 'copy', 'format', 'join', 'split',
    'startswith', 'endswith', 'strip', 'issubset', 'issuperset', 'union', 'intersection',
    'difference', 'max', 'min', 'sum', 'all', 'any', 'astype', 'reshape', 'flatten', 'tolist',
    'validate', 'lower', 'upper', 'replace', 'isdisjoint', 'mean', 'item', 'nonzero', 'ravel',
    'is_integer', 'bit_length', 'name', 'value', 'encode', 'decode', 'title',
}
# rng methods draw (they mutate the generator, which is their purpose) -- not a parameter
# mutation in the sense of the purity rules; recorded separately by the RNG rules
# calls whose result shares nothing with their argument
DEEP_COPIES = {'pickle.loads', 'pickle.dumps', 'copy.deepcopy', 'deepcopy', 'loads', 'dumps'}
# numpy constructors / reductions whose result is a new numeric array: it holds no caller object
NUMERIC_FRESH = {'np.zeros', 'np.ones', 'np.empty', 'np.full', 'np.arange', 'np.zeros_like',
                 'np.ones_like', 'np.empty_like', 'np.full_like', 'np.bincount', 'np.cumsum',
                 'np.repeat', 'np.linspace', 'np.eye', 'np.identity'}
# annotations of parameters whose values cannot be modified in place
IMMUTABLE_ANNOTATIONS = {'int', 'float', 'bool', 'str', 'bytes', 'complex'}
RNG_METHODS = {'choice', 'integers', 'random', 'shuffle', 'permutation', 'uniform', 'normal',
               'permuted', 'bytes', 'standard_normal', 'binomial', 'poisson', 'exponential'}


@dataclass
class Summary:
    mut_params: Set[str] = field(default_factory=set)      # names of params possibly mutated
    # param -> first-level attributes through which it is mutated ('*': the object itself, or
    # unknown); used to restrict the reach at call sites whose argument is a fresh record
    mut_fields: Dict[str, Set[str]] = field(default_factory=dict)
    # ... of which: mutated below the object itself (a store into something obtained from the
    # parameter by attribute / subscript reads): at a call site this reaches whatever the
    # argument holds, not only what it is
    mut_deep: Set[str] = field(default_factory=set)
    mut_sites: Dict[str, List[Tuple[int, str]]] = field(default_factory=dict)
    global_writes: Set[str] = field(default_factory=set)
    global_sites: List[Tuple[int, str]] = field(default_factory=list)
    unknown_calls: List[Tuple[int, str]] = field(default_factory=list)
    ret_alias: Set[str] = field(default_factory=set)       # params the result may alias
    # params whose reachable objects the (otherwise fresh) result may hold as elements or
    # fields: `Grid([[self.objects[y][x] ..]])` is a new grid of the same cell objects
    ret_contain: Set[str] = field(default_factory=set)


class Effects:
    def __init__(self, index: RepoIndex):
        self.index = index
        self.funcs: Dict[str, Func] = {}
        self.walks: Dict[str, GuardWalk] = {}
        self.nested: Dict[str, Dict[str, Func]] = {}
        self.summ: Dict[str, Summary] = {}
        for f in index.all_functions(PKG):
            self._add(f)
        self._fixpoint()

    def _add(self, f: Func) -> None:
        q = f.qualname
        if q in self.funcs:
            return
        self.funcs[q] = f
        w = walk_function(f.node)
        self.walks[q] = w
        self.summ[q] = Summary()
        for name, node in w.local_funcs.items():
            nf = Func(name, f.module, node, None)
            nq = f'{q}.<locals>.{name}'
            self.nested.setdefault(q, {})[name] = nf
            self.funcs[nq] = nf
            self.walks[nq] = walk_function(node)
            self.summ[nq] = Summary()
            nf._qual = nq  # type: ignore

    def qual(self, f: Func) -> str:
        return getattr(f, '_qual', None) or f.qualname

    # ------------------------------------------------------------ aliasing
    def contains(self, q: str, e: ast.AST, depth: int = 6) -> Set[str]:
        """params whose reachable objects the value of `e` may hold (see Summary.ret_contain)"""
        return self.roots(q, e, depth, mode='contain')

    def roots(self, q: str, e: ast.AST, depth: int = 6, at: int = 10 ** 9,
              contain: bool = True, mode: str = 'alias', hops0: bool = False,
              origin: Optional[ast.AST] = None) -> Set[str]:
        """parameters (by name) whose reachable objects the expression may denote, for a use
        at event order `at` (a parameter rebound unconditionally before the use no longer
        denotes the caller's object)"""
        f = self.funcs[q]
        w = self.walks[q]
        # a parameter declared as a number / string denotes nothing that can be modified
        scalar = {a.arg for a in f.params() if a.annotation is not None
                  and src(a.annotation) in IMMUTABLE_ANNOTATIONS}
        params = set(w.params) - scalar
        out: Set[str] = set()
        comp_env: Dict[str, ast.AST] = {}     # comprehension target -> iterated expression
        busy: Set[Tuple[str, int]] = set()

        def fresh_rows(v: ast.AST) -> bool:
            """`v` names a nested list built here whose rows are themselves new lists
            (`[[.. for x ..] for y ..]`, `[list(r) for r ..]`, `[[..] * n ..]`): one
            subscript gives a row that belongs to nobody else"""
            if not isinstance(v, ast.Name):
                return False
            ds = w.defs.get(v.id, [])
            if not ds or any(dd[0] != 'value' for dd in ds):
                return False

            def new_list(e: ast.AST) -> bool:
                return isinstance(e, (ast.List, ast.ListComp)) or (
                    isinstance(e, ast.Call) and src(e.func) == 'list' and len(e.args) == 1) or (
                    isinstance(e, ast.BinOp) and isinstance(e.op, (ast.Mult, ast.Add))
                    and (new_list(e.left) or new_list(e.right)))
            for dd in ds:
                e = dd[1]
                if isinstance(e, ast.ListComp):
                    if not new_list(e.elt):
                        return False
                elif isinstance(e, ast.List):
                    if not e.elts or not all(new_list(x) for x in e.elts):
                        return False
                else:
                    return False
            # the rows stay private: the name is never re-bound to something else and no
            # other list is appended to it
            for ev_ in w.events:
                if ev_.kind == 'call' and isinstance(ev_.node.func, ast.Attribute) and \
                        src(ev_.node.func.value) == v.id and \
                        ev_.node.func.attr in ('append', 'extend', 'insert', '__setitem__'):
                    return False
                if ev_.kind == 'store' and isinstance(ev_.target, ast.Subscript) and \
                        src(ev_.target.value) == v.id:
                    return False         # a whole row is replaced by something else
            return True

        def elem_of(it: ast.AST, d: int):
            """an element drawn from `it` may be (part of) what `it` is or holds"""
            rec(it, d)
            con(it, d)

        def con(x: ast.AST, d: int):
            """params whose objects the value of `x` may hold as elements / fields"""
            if d < 0 or not contain:
                return
            key = ('c', id(x))
            if key in busy:
                return
            busy.add(key)
            try:
                if isinstance(x, ast.Name):
                    if x.id in comp_env:
                        con(comp_env[x.id], d - 1)
                        return
                    for dd in w.defs.get(x.id, []):
                        kind, payload = dd[0], dd[1]
                        if kind == 'value':
                            con(payload, d - 1)
                        elif kind in ('unpack', 'elem-unpack'):
                            con(payload[0], d - 1)
                        elif kind == 'elem':
                            con(payload, d - 1)
                    return
                if isinstance(x, (ast.Attribute, ast.Subscript, ast.Starred)):
                    con(x.value, d)
                    return
                if isinstance(x, ast.BinOp):
                    for v in (x.left, x.right):
                        rec(v, d)
                        con(v, d)
                    return
                if isinstance(x, (ast.IfExp,)):
                    con(x.body, d)
                    con(x.orelse, d)
                    return
                if isinstance(x, ast.BoolOp):
                    for v in x.values:
                        con(v, d)
                    return
                if isinstance(x, (ast.Tuple, ast.List, ast.Set)):
                    for v in x.elts:
                        rec(v, d)
                        con(v, d)
                    return
                if isinstance(x, ast.Dict):
                    for v in x.values:
                        if v is not None:
                            rec(v, d)
                            con(v, d)
                    return
                if isinstance(x, (ast.ListComp, ast.SetComp, ast.GeneratorExp, ast.DictComp)):
                    saved = dict(comp_env)
                    for g in x.generators:
                        for t in ast.walk(g.target):
                            if isinstance(t, ast.Name):
                                comp_env[t.id] = g.iter
                    elts = [x.value] if isinstance(x, ast.DictComp) else [x.elt]
                    for v in elts:
                        rec(v, d)
                        con(v, d)
                    comp_env.clear()
                    comp_env.update(saved)
                    return
                if isinstance(x, ast.Call):
                    if origin is not None and x is origin:
                        out.add('<origin>')
                        return
                    fs = src(x.func)
                    if fs in DEEP_COPIES or fs in NUMERIC_FRESH:
                        return
                    args = list(x.args) + [k.value for k in x.keywords]
                    callee = self.resolve(q, x)
                    r = self.index.resolve_callee(f.module, x.func, f.cls)
                    if isinstance(r, Cls):
                        for a in args:           # a constructed object holds its arguments
                            rec(a, d - 1)
                            con(a, d - 1)
                        return
                    if callee:
                        for tgt in callee:
                            tq = self.qual(tgt)
                            ts = self.summ.get(tq)
                            if ts is None:
                                continue
                            binding = self.bind_args(tgt, x)
                            for pname, arg in binding.items():
                                if pname in ts.ret_contain:
                                    rec(arg, d - 1)
                                    con(arg, d - 1)
                                if pname in ts.ret_alias:
                                    con(arg, d - 1)
                        return
                    # externals (list, tuple, sorted, zip, np.array, ...): the result may
                    # hold the elements of its arguments; a method of an unknown receiver
                    # may hand out what the receiver holds
                    for a in args:
                        rec(a, d - 1)
                        con(a, d - 1)
                    if isinstance(x.func, ast.Attribute):
                        con(x.func.value, d - 1)
                    return
            finally:
                busy.discard(key)

        def rec(x: ast.AST, d: int):
            if d < 0:
                return
            if hops0 and not isinstance(x, (ast.Name, ast.IfExp, ast.BoolOp)):
                return
            if isinstance(x, ast.Name):
                if x.id in comp_env:
                    elem_of(comp_env[x.id], d - 1)
                    return
                if x.id in params and not w.defs.get(x.id):
                    out.add(x.id)
                    return
                if x.id in params:
                    rebound = [dd for dd in w.defs[x.id]
                               if dd[2] < at and dd[3] == ('true',) and not dd[4]
                               and dd[0] == 'value']
                    if not rebound:
                        out.add(x.id)
                    else:
                        rec(rebound[-1][1], d - 1)
                        return
                for dd in w.defs.get(x.id, []):
                    kind, payload = dd[0], dd[1]
                    if kind == 'value':
                        rec(payload, d - 1)
                    elif kind in ('unpack', 'elem-unpack'):
                        rec(payload[0], d - 1)
                    elif kind == 'elem':
                        rec(payload, d - 1)
                        con(payload, d - 1)
                    if kind in ('unpack', 'elem-unpack'):
                        con(payload[0], d - 1)
                return
            if isinstance(x, ast.Subscript) and fresh_rows(x.value):
                return                   # a row of a freshly built nested list: new storage
            if isinstance(x, (ast.Attribute, ast.Subscript, ast.Starred)):
                rec(x.value, d)
                con(x.value, d)          # a part of a fresh container of caller objects
                return
            if isinstance(x, ast.IfExp):
                rec(x.body, d)
                rec(x.orelse, d)
                return
            if isinstance(x, ast.BoolOp):
                for v in x.values:
                    rec(v, d)
                return
            if isinstance(x, (ast.Tuple, ast.List)):
                for v in x.elts:
                    rec(v, d)
                return
            if isinstance(x, ast.Call):
                if origin is not None and x is origin:
                    out.add('<origin>')
                    return
                callee = self.resolve(q, x)
                for tgt in callee:
                    tq = self.qual(tgt)
                    ra = self.summ[tq].ret_alias if tq in self.summ else set()
                    if ra:
                        binding = self.bind_args(tgt, x)
                        for pname, arg in binding.items():
                            if pname in ra:
                                rec(arg, d - 1)
                # method call returning a contained object, e.g. grid.get(...), dict.get
                if not callee and isinstance(x.func, ast.Attribute) and \
                        x.func.attr in ('get', 'pop', 'setdefault', '__getitem__'):
                    rec(x.func.value, d)
                return

        if mode == 'contain':
            con(e, depth)
        else:
            rec(e, depth)
        return out

    # ------------------------------------------------------------ resolve
    def resolve(self, q: str, call: ast.Call) -> List[Func]:
        """package functions the call may invoke ([] for externals / unknown)"""
        f = self.funcs[q]
        m = f.module
        fe = call.func
        # local nested function
        base_q = q.split('.<locals>.')[0]
        if isinstance(fe, ast.Name):
            nest = self.nested.get(base_q, {})
            if fe.id in nest:
                return [nest[fe.id]]
            # parameter holding a component
            role = self.param_role(q, fe.id)
            if role:
                return list(self.index.registries.get(role, {}).values())
        if isinstance(fe, ast.Attribute) and src(fe.value) == 'self' and fe.attr in ATTR_ROLE:
            return list(self.index.registries.get(ATTR_ROLE[fe.attr], {}).values())
        if isinstance(fe, ast.Subscript):
            # registry['name'](...)
            r = self.registry_member(m, fe)
            if r is not None:
                return [r]
        r = self.index.resolve_callee(m, fe, f.cls)
        if isinstance(r, Func):
            return [r]
        if isinstance(r, Cls):
            init = self.index.method(r, '__init__')
            return [init] if init is not None else []
        if isinstance(fe, ast.Name):
            # a local bound to a registry member / factory result
            w = self.walks[q]
            d = w.single_def(fe.id)
            if d is not None and d[0] == 'value' and isinstance(d[1], ast.Subscript):
                rm = self.registry_member(m, d[1])
                if rm is not None:
                    return [rm]
            # for transition_function in transition_functions / (f,) = transition_functions /
            # f = transition_functions[0]: every binding of the name draws from a parameter
            # holding components of one role
            roles = set()
            for d_ in w.defs.get(fe.id, []):
                it = None
                if d_[0] in ('elem', 'value'):
                    it = d_[1]
                elif d_[0] in ('unpack', 'elem-unpack'):
                    it = d_[1][0]
                if d_[0] == 'value' and isinstance(it, ast.Subscript):
                    it = it.value
                elif d_[0] == 'value':
                    it = None
                roles.add(self.param_role(q, it.id) if isinstance(it, ast.Name) else None)
            if len(roles) == 1 and None not in roles:
                return list(self.index.registries.get(roles.pop(), {}).values())
        if isinstance(fe, ast.Attribute) and not isinstance(r, tuple):
            # method by name on an unknown receiver: all package methods of that name
            cands = []
            for mod in self.index.modules.values():
                if not mod.relpath.startswith(PKG):
                    continue
                for c in mod.classes.values():
                    for cc in [c] + list(c.inner.values()):
                        if fe.attr in cc.methods:
                            cands.append(cc.methods[fe.attr])
            return cands
        return []

    def registry_member(self, m: Module, sub: ast.Subscript) -> Optional[Func]:
        s = src(sub.value)
        if s.endswith('_registry') and isinstance(sub.slice, ast.Constant):
            role = s.split('.')[-1].replace('_function_registry', '')
            return self.index.registries.get(role, {}).get(sub.slice.value)
        return None

    def param_role(self, q: str, name: str) -> Optional[str]:
        f = self.funcs[q]
        for a in f.params():
            if a.arg == name and a.annotation is not None:
                s = src(a.annotation)
                for proto, role in PROTOCOL_ROLE.items():
                    if proto in s:
                        return role
        return None

    def bind_args(self, callee: Func, call: ast.Call) -> Dict[str, ast.AST]:
        pos = [a.arg for a in callee.node.args.posonlyargs + callee.node.args.args]
        if callee.cls is not None and not callee.is_static() and pos:
            # bound call: receiver is param 0
            recv = call.func.value if isinstance(call.func, ast.Attribute) else None
            out: Dict[str, ast.AST] = {}
            if callee.name == '__init__' or recv is None:
                pos_rest = pos[1:]
            else:
                out[pos[0]] = recv
                pos_rest = pos[1:]
            for p, a in zip(pos_rest, call.args):
                out[p] = a
        else:
            out = {}
            for p, a in zip(pos, call.args):
                out[p] = a
        for k in call.keywords:
            if k.arg is not None:
                out[k.arg] = k.value
        return out

    # ------------------------------------------------------------ fixpoint
    def _direct(self, q: str) -> None:
        f = self.funcs[q]
        w = self.walks[q]
        s = self.summ[q]
        gl = set()
        for e in w.events:
            if e.kind == 'global':
                gl |= set(e.node.names)
        for e in w.events:
            if e.kind in ('store', 'attrstore', 'augstore', 'delete'):
                t = e.target
                base = t.value if isinstance(t, (ast.Attribute, ast.Subscript)) else t
                shallow = self.roots(q, base, at=e.order, hops0=True)
                # `p.F[..] = v` / `p.F.x = v`: the mutation goes through field F of p
                fb = base
                while isinstance(fb, ast.Subscript):
                    fb = fb.value
                via = '*'
                if isinstance(fb, ast.Attribute) and isinstance(fb.value, ast.Name) and \
                        fb.value.id in w.params and fb is not t:
                    # `p.F[k] = v` changes the object in F itself; `p.F[k].x = v` /
                    # `p.F.G[k] = v` something it holds ('F*')
                    via = fb.attr if base is fb else fb.attr + '*'
                elif isinstance(fb, ast.Attribute):
                    inner = fb
                    while isinstance(inner.value, (ast.Attribute, ast.Subscript)):
                        inner = inner.value
                    if isinstance(inner, ast.Attribute) and isinstance(inner.value, ast.Name) \
                            and inner.value.id in w.params:
                        fb = inner
                        via = inner.attr + '*'
                for r in self.roots(q, base, at=e.order):
                    if f.name == '__init__' and r == 'self':
                        continue
                    s.mut_fields.setdefault(r, set()).add(
                        via if isinstance(fb, ast.Attribute) and isinstance(fb.value, ast.Name)
                        and fb.value.id == r else '*')
                    s.mut_params.add(r)
                    if r not in shallow:
                        s.mut_deep.add(r)
                    s.mut_sites.setdefault(r, []).append((e.line, src(e.stmt)[:120]))
                root = base
                while isinstance(root, (ast.Attribute, ast.Subscript)):
                    root = root.value
                if isinstance(root, ast.Name) and root.id not in w.params \
                        and root.id not in w.defs and self._is_module_global(f.module, root.id):
                    s.global_writes.add(root.id)
                    s.global_sites.append((e.line, src(e.stmt)[:120]))
        # `param += [..]` on a list / set / dict / array parameter updates the caller's object in
        # place (list.__iadd__ extends): a mutation, not a rebinding
        CONTAINERISH = ('List', 'list', 'Set', 'set', 'Dict', 'dict', 'ndarray', 'Sequence',
                        'Collection', 'Iterable', 'Deque', 'deque')
        ann = {a.arg: (src(a.annotation) if a.annotation is not None else '')
               for a in f.params()}
        for name, ds in w.defs.items():
            if name not in w.params:
                continue
            for dd in ds:
                if dd[0] != 'aug':
                    continue
                stmt = dd[1]
                rhs = stmt.value if isinstance(stmt, ast.AugAssign) else None
                boxy = any(k in ann.get(name, '') for k in CONTAINERISH) or \
                    isinstance(rhs, (ast.List, ast.Set, ast.Dict, ast.ListComp, ast.SetComp))
                rebound = [d2 for d2 in ds if d2[0] == 'value' and d2[2] < dd[2]
                           and d2[3] == ('true',) and not d2[4]]
                if boxy and not rebound and ann.get(name, '') not in IMMUTABLE_ANNOTATIONS:
                    s.mut_params.add(name)
                    s.mut_sites.setdefault(name, []).append(
                        (getattr(stmt, 'lineno', f.node.lineno), src(stmt)[:120]))
        for name, ds in w.defs.items():
            if name in gl:
                s.global_writes.add(name)
                s.global_sites.append((f.node.lineno, f'global {name}'))
        # return aliasing
        for e in w.events:
            if e.kind == 'return' and e.value is not None:
                s.ret_alias |= self.roots(q, e.value)
                s.ret_contain |= self.contains(q, e.value)

    @staticmethod
    def _fresh_container(w: GuardWalk, recv: ast.AST) -> bool:
        """`recv` is a local name every definition of which builds a new list / set / dict /
        deque (a display, a comprehension, list(..) / set(..) / dict(..) / deque(..))"""
        if not isinstance(recv, ast.Name) or recv.id in w.params:
            return False
        ds = w.defs.get(recv.id, [])
        if not ds:
            return False
        for dd in ds:
            if dd[0] != 'value':
                return False
            v = dd[1]
            if isinstance(v, (ast.List, ast.Set, ast.Dict, ast.ListComp, ast.SetComp,
                              ast.DictComp)):
                continue
            if isinstance(v, ast.Call) and src(v.func).split('.')[-1] in (
                    'list', 'set', 'dict', 'deque', 'defaultdict', 'OrderedDict'):
                continue
            return False
        return True

    def _record_args(self, q: str, arg: ast.AST):
        """{field: argument} when `arg` is (a local bound once to) a constructor call of a
        package dataclass whose fields are its annotated class attributes, in order"""
        w = self.walks[q]
        v = arg
        if isinstance(v, ast.Name):
            d = w.sole_binding(v.id)
            v = d[1] if d is not None and d[0] == 'value' else None
        if not (isinstance(v, ast.Call) and isinstance(v.func, ast.Name)):
            return None
        c = self.index.find_class(v.func.id)
        if c is None or not any('dataclass' in src(d_) for d_ in c.node.decorator_list) or \
                '__init__' in c.methods or '__post_init__' in c.methods:
            return None
        fields_ = [s_.target.id for s_ in c.node.body
                   if isinstance(s_, ast.AnnAssign) and isinstance(s_.target, ast.Name)]
        if len(v.args) > len(fields_) or any(isinstance(a, ast.Starred) for a in v.args):
            return None
        out = dict(zip(fields_, v.args))
        for k in v.keywords:
            if k.arg is None:
                return None
            out[k.arg] = k.value
        return out

    def _is_module_global(self, m: Module, name: str) -> bool:
        return name in m.assigns

    def _calls(self, q: str) -> bool:
        f = self.funcs[q]
        w = self.walks[q]
        s = self.summ[q]
        changed = False
        # a lambda handed to a call (`checkraise(lambda: .., ..)`) may be run by the callee:
        # the calls in its body count as calls made here (parameters of the lambda excluded)
        sites = []
        for e in w.events:
            if e.kind != 'call':
                continue
            sites.append((e, e.node))
            for a in list(e.node.args) + [k.value for k in e.node.keywords]:
                if isinstance(a, ast.Lambda):
                    lp = {x.arg for x in a.args.posonlyargs + a.args.args + a.args.kwonlyargs}
                    for c in ast.walk(a.body):
                        if isinstance(c, ast.Call) and not (
                                {n.id for n in ast.walk(c) if isinstance(n, ast.Name)} & lp):
                            sites.append((e, c))
        for e, call in sites:
            fe = call.func
            targets = self.resolve(q, call)
            if targets:
                for t in targets:
                    tq = self.qual(t)
                    ts = self.summ.get(tq)
                    if ts is None:
                        continue
                    binding = self.bind_args(t, call)
                    for pname, arg in binding.items():
                        if pname in ts.mut_params:
                            reach = self.roots(q, arg, at=e.order)
                            top = self.roots(q, arg, at=e.order, hops0=True)
                            if pname in ts.mut_deep:
                                reach = reach | self.contains(q, arg)
                            # the argument is a record built here (`Observation(grid, agent)`)
                            # and the callee only goes through some of its fields: what can
                            # change is what those fields were given
                            flds = ts.mut_fields.get(pname, {'*'})
                            rec = self._record_args(q, arg)
                            if '*' not in flds and rec is not None and \
                                    all(f_.rstrip('*') in rec for f_ in flds):
                                reach = set()
                                for f_ in flds:
                                    a_ = rec[f_.rstrip('*')]
                                    reach |= self.roots(q, a_, at=e.order)
                                    if f_.endswith('*'):
                                        reach |= self.contains(q, a_)
                                top = set()
                            for r in reach:
                                if f.name == '__init__' and r == 'self':
                                    continue
                                if r not in s.mut_params:
                                    changed = True
                                s.mut_params.add(r)
                                if (pname in ts.mut_deep or r not in top) and \
                                        r not in s.mut_deep:
                                    s.mut_deep.add(r)
                                    changed = True
                                site = (e.line, f'{src(call)[:100]} (callee {t.short} mutates {pname})')
                                sites = s.mut_sites.setdefault(r, [])
                                if site not in sites:
                                    sites.append(site)
                    if ts.global_writes - s.global_writes:
                        s.global_writes |= ts.global_writes
                        s.global_sites.append((e.line, f'{src(call)[:100]} (callee {t.short})'))
                        changed = True
                    # return alias through callee handled in roots()
                continue
            # in-place operator functions: `operator.iconcat(a, b)` updates a;
            # `functools.reduce(operator.iconcat, xs)` updates xs[0] (no initialiser) -- an
            # element of the caller's collection -- or the initialiser
            INPLACE = {'iconcat', 'iadd', 'ior', 'iand', 'isub', 'imul', 'ixor', 'extend',
                       'update', '__iadd__', '__ior__'}
            fname = src(fe).split('.')[-1]
            victim = None
            if fname in INPLACE - {'extend', 'update'} and src(fe).split('.')[0] in (
                    'operator', 'op') and call.args:
                victim = call.args[0]
            if fname == 'reduce' and len(call.args) >= 2 and \
                    src(call.args[0]).split('.')[-1] in INPLACE:
                victim = call.args[2] if len(call.args) > 2 else call.args[1]
            if victim is not None and not self._fresh_container(w, victim):
                deep = fname == 'reduce' and len(call.args) == 2
                reach = self.roots(q, victim, at=e.order)
                if deep:
                    reach = reach | self.contains(q, victim)
                for r in reach:
                    if r not in s.mut_params:
                        changed = True
                    s.mut_params.add(r)
                    if deep and r not in s.mut_deep:
                        s.mut_deep.add(r)
                        changed = True
                    site = (e.line, f'{src(call)[:100]} (in-place operator)')
                    if site not in s.mut_sites.setdefault(r, []):
                        s.mut_sites[r].append(site)
                continue
            # unresolved: external function or method on unknown receiver
            if isinstance(fe, ast.Attribute):
                if fe.attr in MUTATORS and self._fresh_container(w, fe.value):
                    # `work = [position]; work.pop(); work.extend(..)`: the list built here is
                    # what changes, not the caller objects it holds
                    continue
                if fe.attr in MUTATORS:
                    for r in self.roots(q, fe.value, at=e.order):
                        if f.name == '__init__' and r == 'self':
                            continue
                        if r not in s.mut_params:
                            changed = True
                        s.mut_params.add(r)
                        site = (e.line, src(call)[:120])
                        if site not in s.mut_sites.setdefault(r, []):
                            s.mut_sites[r].append(site)
                    root = fe.value
                    while isinstance(root, (ast.Attribute, ast.Subscript)):
                        root = root.value
                    if isinstance(root, ast.Name) and root.id not in w.params \
                            and root.id not in w.defs and self._is_module_global(f.module, root.id):
                        if root.id not in s.global_writes:
                            changed = True
                        s.global_writes.add(root.id)
                        s.global_sites.append((e.line, src(call)[:120]))
        return changed

    def _fixpoint(self) -> None:
        for q in self.funcs:
            self._direct(q)
        for _ in range(30):
            changed = False
            for q in self.funcs:
                before = len(self.summ[q].ret_alias) + len(self.summ[q].ret_contain)
                if self._calls(q):
                    changed = True
                # refresh return aliasing (callee ret_alias may have grown)
                w = self.walks[q]
                for e in w.events:
                    if e.kind == 'return' and e.value is not None:
                        self.summ[q].ret_alias |= self.roots(q, e.value)
                        self.summ[q].ret_contain |= self.contains(q, e.value)
                if len(self.summ[q].ret_alias) + len(self.summ[q].ret_contain) != before:
                    changed = True
            if not changed:
                return
        raise AnalysisError('effect summaries did not reach a fixpoint in 30 rounds')

    # --------------------------------------------------------------- query
    def mutations_of(self, q: str, origin: ast.Call) -> List[str]:
        """statements of function `q` that may modify the object returned by the call
        `origin` (or something it holds): stores and in-place updates through any alias or
        element, mutator calls, and calls of package functions that modify the parameter it is
        passed as"""
        w = self.walks[q]
        out: List[str] = []

        def hit(e: ast.AST, deep: bool = True) -> bool:
            r = self.roots(q, e, origin=origin)
            if deep:
                r = r | self.roots(q, e, origin=origin, mode='contain')
            return '<origin>' in r
        for e in w.events:
            if e.kind in ('store', 'attrstore', 'augstore', 'delete'):
                t = e.target
                base = t.value if isinstance(t, (ast.Attribute, ast.Subscript)) else t
                if '<origin>' in self.roots(q, base, origin=origin):
                    out.append(src(e.stmt)[:100])
            elif e.kind == 'call':
                # (calls in the body of a lambda handed to this call count as made here)
                inner = [c for a in list(e.node.args) + [k.value for k in e.node.keywords]
                         if isinstance(a, ast.Lambda) for c in ast.walk(a.body)
                         if isinstance(c, ast.Call)]
                for call in [e.node] + inner:
                    fe = call.func
                    targets = self.resolve(q, call)
                    if targets:
                        for t in targets:
                            ts = self.summ.get(self.qual(t))
                            if ts is None:
                                continue
                            for pname, arg in self.bind_args(t, call).items():
                                if pname in ts.mut_params and hit(arg, pname in ts.mut_deep):
                                    out.append(f'{src(call)[:80]} (callee {t.short} modifies '
                                               f'{pname})')
                    elif isinstance(fe, ast.Attribute) and fe.attr in MUTATORS and \
                            '<origin>' in self.roots(q, fe.value, origin=origin):
                        out.append(src(call)[:100])
        for name, ds in w.defs.items():
            for d in ds:
                if d[0] == 'aug' and any(
                        dd[0] == 'value' and '<origin>' in self.roots(q, dd[1], origin=origin)
                        for dd in ds):
                    out.append(src(d[1])[:80] + '  (in-place update)')
        return sorted(set(out))

    def summary(self, f: Func) -> Summary:
        return self.summ[self.qual(f)]
