"""Inlining of calls to module-local helper functions, so that rules which read the guarded
effects of a component see through a refactoring that merely extracts a helper.

A statement of the form  `helper(args)` / `x = helper(args)` / `return helper(args)` (or a
subscript/attribute store whose value or index is such a call) is replaced by the helper's
body, with parameters bound to fresh locals and `return` turned into an assignment of a
result variable by the usual structured transformation (the remainder of a block is moved
into the `else` of an `if` whose body returns).  Helpers containing loops with `return`,
nested functions, `yield`, star-arguments or recursion are left alone."""
from __future__ import annotations

import ast
import copy
from typing import Dict, List, Optional, Set

from .core import src
from .index import Func, Module, RepoIndex


def unprefix(text: str) -> str:
    """drop the prefixes the helper inliner gives to a helper's locals"""
    import re
    return re.sub(r'_[A-Za-z_]+?\d+_(?=[A-Za-z_])', '', text)


class NotInlinable(Exception):
    pass


def src_is_self(e: ast.AST) -> bool:
    return isinstance(e, ast.Name) and e.id == 'self'


def _local_names(fn: ast.FunctionDef) -> Set[str]:
    out = {a.arg for a in fn.args.posonlyargs + fn.args.args + fn.args.kwonlyargs}
    for n in ast.walk(fn):
        if isinstance(n, ast.Name) and isinstance(n.ctx, ast.Store):
            out.add(n.id)
    return out


class _Rename(ast.NodeTransformer):
    def __init__(self, mp: Dict[str, str]):
        self.mp = mp

    def visit_Name(self, n: ast.Name):
        if n.id in self.mp:
            return ast.copy_location(ast.Name(self.mp[n.id], n.ctx), n)
        return n


def _falls_through(stmts: List[ast.stmt]) -> bool:
    for s in stmts:
        if isinstance(s, (ast.Return, ast.Raise)):
            return False
        if isinstance(s, ast.If) and not _falls_through(s.body) and s.orelse \
                and not _falls_through(s.orelse):
            return False
    return True


def _has_return(stmts) -> bool:
    return any(isinstance(n, ast.Return) for s in stmts for n in ast.walk(s))


def _structured(stmts: List[ast.stmt], result: str) -> List[ast.stmt]:
    """rewrite `return v` into `result = v`, moving the rest of a block into else-branches"""
    if not stmts:
        return []
    s, rest = stmts[0], stmts[1:]
    if isinstance(s, ast.Return):
        val = s.value if s.value is not None else ast.Constant(None)
        return [ast.copy_location(ast.Assign([ast.Name(result, ast.Store())], val), s)]
    if isinstance(s, ast.If) and (_has_return(s.body) or _has_return(s.orelse)):
        body = _structured(s.body + (rest if _falls_through(s.body) else []), result)
        orelse = _structured(s.orelse + (rest if _falls_through(s.orelse) else []), result)
        return [ast.copy_location(ast.If(s.test, body or [ast.Pass()], orelse), s)]
    if isinstance(s, (ast.For, ast.While, ast.With, ast.Try)) and _has_return([s]):
        raise NotInlinable('return inside a loop / try')
    return [s] + _structured(rest, result)


def _docless(body: List[ast.stmt]) -> List[ast.stmt]:
    if body and isinstance(body[0], ast.Expr) and isinstance(body[0].value, ast.Constant) \
            and isinstance(body[0].value.value, str):
        return body[1:]
    return body


def _alpha_lambdas(body: List[ast.stmt], pre: str) -> List[ast.stmt]:
    """rename the parameters of every lambda in `body` to fresh names (innermost first), so
    that renaming the locals of an inlined helper never captures or frees a lambda parameter"""
    k = [0]

    def rename(lam: ast.Lambda) -> None:
        la = lam.args
        mp = {}
        for a in la.posonlyargs + la.args + la.kwonlyargs:
            k[0] += 1
            mp[a.arg] = f'{pre}_{k[0]}_{a.arg}'
            a.arg = mp[a.arg]

        def sub(node: ast.AST, live: Dict[str, str]) -> None:
            if isinstance(node, ast.Lambda):
                inner = node.args
                shadow = {a.arg for a in inner.posonlyargs + inner.args + inner.kwonlyargs}
                for d in inner.defaults + [d for d in inner.kw_defaults if d is not None]:
                    sub(d, live)
                sub(node.body, {a: b for a, b in live.items() if a not in shadow})
                return
            if isinstance(node, ast.Name) and node.id in live:
                node.id = live[node.id]
            for c in ast.iter_child_nodes(node):
                sub(c, live)
        sub(lam.body, mp)

    lambdas = [n for s in body for n in ast.walk(s) if isinstance(n, ast.Lambda)]
    for lam in lambdas:          # ast.walk is breadth-first: outer lambdas are renamed first,
        rename(lam)              # inner ones afterwards see already-renamed free names
    return body


def opaque_decorators(fn: ast.FunctionDef, registered: bool = False) -> bool:
    """True when a decorator may change what the name denotes.  Transparent: functools
    memoisation of a function (`lru_cache`, `lru_cache(...)`, `cache`): the memoised function
    denotes its body as long as it is pure, which C03.R4 checks; and, on request, a bare
    `<x>_registry.register` (FunctionRegistry.register returns the function it is given).
    Registered components are the vocabulary of the rules, so by default they stay calls."""
    for d in fn.decorator_list:
        t = ast.unparse(d.func if isinstance(d, ast.Call) else d)
        if registered and not isinstance(d, ast.Call) and t.endswith('_registry.register'):
            continue
        if t in ('lru_cache', 'functools.lru_cache', 'cache', 'functools.cache'):
            continue
        return True
    return False


SHIPPED = {
    'from_visibility', 'fully_transparent', 'partially_occluded', 'raytracing',
    'stochastic_raytracing', 'empty', 'rooms', 'dynamic_obstacles', 'keydoor', 'crossing',
    'teleport', 'memory', 'memory_rooms', 'reduce', 'reduce_sum', 'reduce_any', 'reduce_all',
    'overlap', 'living_reward', 'reach_exit', 'bump_moving_obstacle', 'proportional_to_distance',
    'getting_closer', 'getting_closer_shortest_path', 'bump_into_wall', 'actuate_door',
    'pickndrop', 'reach_exit_memory', 'chain', 'move_agent', 'turn_agent', 'move_obstacles',
    'actuate_box'}
_BUILTIN_LIKE = {'get', 'copy', 'index', 'count', 'items', 'keys', 'values', 'append', 'pop',
                 'add', 'update', 'sort', 'reverse', 'join', 'split', 'format', 'issubset',
                 'union', 'extend', 'insert', 'remove', 'clear', 'any', 'all', 'max', 'min',
                 'sum', 'astype', 'reshape', 'tolist', 'choice', 'integers', 'random', 'swap',
                 'seed', 'reset', 'step', 'close', 'read', 'write', 'register'}
_NAMED: Dict[int, Dict[str, List[Func]]] = {}


def _methods_named(index: RepoIndex, name: str) -> List[Func]:
    tab = _NAMED.get(id(index))
    if tab is None:
        tab = _NAMED[id(index)] = {}
        for mod in index.modules.values():
            if not mod.relpath.startswith('gym_gridverse/'):
                continue
            for c in mod.classes.values():
                for cc in [c] + list(c.inner.values()):
                    for mn, m in cc.methods.items():
                        tab.setdefault(mn, []).append(m)
    return tab.get(name, [])


def _optional_result(fn: ast.FunctionDef) -> bool:
    if fn.returns is not None and ast.unparse(fn.returns).startswith('Optional['):
        return True
    return any(isinstance(n, ast.Return) and (
        n.value is None or (isinstance(n.value, ast.Constant) and n.value.value is None) or
        (isinstance(n.value, ast.IfExp) and any(
            isinstance(b, ast.Constant) and b.value is None
            for b in (n.value.body, n.value.orelse)))) for n in ast.walk(fn))


def _plain_receiver(e: ast.AST) -> bool:
    """a name other than self / cls, an attribute chain on one (`state.agent`), or a record
    built on the spot from such things (`Observation(grid, agent).masked(v)`)"""
    if isinstance(e, ast.Call) and isinstance(e.func, ast.Name) and e.func.id[:1].isupper() \
            and not e.keywords and e.args and all(_plain_receiver(a) for a in e.args):
        return True
    while isinstance(e, ast.Attribute):
        e = e.value
    return isinstance(e, ast.Name) and e.id not in ('self', 'cls')


class Inliner:
    def __init__(self, index: RepoIndex, func: Func, exclude: Optional[Set[str]] = None,
                 depth: int = 2, methods: bool = False, cross: Optional[Set[str]] = None):
        self.index = index
        self.func = func
        self.module = func.module
        self.exclude = exclude or set()
        self.depth = depth
        self.counter = 0
        self.inlined: List[str] = []
        self.methods = methods
        self.cross = cross or set()
        self.generated: Set[str] = set()
        self.results: Set[str] = set()
        self.optional_results: Set[str] = set()
        self.may_be_none: Set[str] = set()

    def helper(self, call: ast.Call) -> Optional[ast.FunctionDef]:
        if self.methods and isinstance(call.func, ast.Attribute) and \
                isinstance(call.func.value, ast.Name) and call.func.value.id == 'self' and \
                self.func.cls is not None:
            # a private method of the same class, called on self
            name = call.func.attr
            m = self.index.method(self.func.cls, name)
            if m is None or m.node.decorator_list or \
                    not (name.startswith('_') or name in self.cross) or \
                    name.startswith('__') or name == self.func.name or name in self.exclude:
                return None
            if any(sub.methods.get(name) is not None
                   for sub in self.index.subclasses(self.func.cls.name)):
                return None   # overridden somewhere: not a fixed body
            f = m
        elif isinstance(call.func, ast.Attribute) and \
                isinstance(call.func.value, ast.Name) and \
                self.module.imports.get(call.func.value.id, ('',))[0] == 'module' and \
                self.module.imports[call.func.value.id][1].startswith('gym_gridverse.'):
            # `terminating_fs.overlap(..)`: a component of another module of the package named
            # through the module: a delegation across roles is read through (the shipped names
            # are vocabulary only within their own module)
            name = call.func.attr
            mod_name = self.module.imports[call.func.value.id][1]
            tm = next((m_ for m_ in self.index.modules.values() if m_.name == mod_name), None)
            f = tm.functions.get(name) if tm is not None else None
            if f is None or name in self.exclude or opaque_decorators(f.node, registered=True):
                return None
        elif isinstance(call.func, ast.Attribute) and _plain_receiver(call.func.value):
            # `obj.m(..)` where exactly one class of the package defines a method `m` and that
            # method updates its receiver (a mutator moved into the class: `door.open()`);
            # pure one-expression methods are read at expression level instead
            name = call.func.attr
            if name.startswith('__') or name in self.exclude or name in _BUILTIN_LIKE:
                return None
            cands = _methods_named(self.index, name)
            if len(cands) != 1 or cands[0].node.decorator_list:
                return None
            f = cands[0]
            stores_self = any(
                isinstance(n, (ast.Assign, ast.AugAssign, ast.AnnAssign)) and any(
                    isinstance(t, ast.Attribute) and src_is_self(t.value)
                    for t in (n.targets if isinstance(n, ast.Assign) else [n.target]))
                for n in ast.walk(f.node))
            # a method the pinned tree did not have, with a body of several statements
            # (`state.pov(area)`, `observation.hide(mask)`): a step of the caller that was
            # moved into the class, read where it is called
            from .pinned_names import METHODS as _PM
            moved = name not in _PM and f.cls is not None and \
                len(_docless(f.node.body)) > 1 and \
                f.module.relpath.startswith('gym_gridverse/') and \
                (pure_body_expr(f.node) is None or _optional_result(f.node))
            # (a method that is one expression is read as one -- unless it answers None for
            # "nothing there": the statement-level reading splits the paths of its callers)
            if not stores_self and not moved:
                return None
            if not isinstance(call.func.value, ast.Name) and not moved:
                return None
            if self.index.module(f.module.relpath) is not self.module and \
                    not f.module.relpath.startswith('gym_gridverse/'):
                return None
        elif not isinstance(call.func, ast.Name):
            return None
        else:
            name = call.func.id
            if name == self.func.name or name in self.exclude:
                return None
            f = self.module.functions.get(name)
            if f is None and name in self.cross:
                r = self.index.resolve_name(self.module, name)
                f = r if isinstance(r, Func) and r.cls is None else None
            # a registered component is vocabulary when it is one of the shipped ones; a
            # component added later that shipped ones delegate to is read through
            if f is None or opaque_decorators(f.node, registered=name not in SHIPPED):
                return None
            if f.node.decorator_list and name in _pinned_functions() and name not in self.cross:
                return None      # a memoised function of the pinned tree (dijkstra) is vocabulary
            if name == 'factory':
                return None
        fn = f.node
        if fn.args.vararg or fn.args.kwarg:
            return None
        if any(isinstance(a, ast.Starred) for a in call.args) or \
                any(k.arg is None for k in call.keywords):
            return None
        for n in ast.walk(fn):
            if isinstance(n, (ast.Yield, ast.YieldFrom, ast.Global, ast.Nonlocal)):
                return None
            if isinstance(n, ast.Lambda):
                # a lambda is carried along unless its parameters clash with a local that
                # the inliner renames
                la = n.args
                if la.vararg or la.kwarg:
                    return None
            if isinstance(n, (ast.FunctionDef, ast.AsyncFunctionDef)) and n is not fn:
                return None
            if isinstance(n, ast.Call) and isinstance(n.func, ast.Name) and n.func.id == name:
                return None   # recursion
            if isinstance(n, ast.Call) and isinstance(n.func, ast.Attribute) and \
                    n.func.attr == name and src_is_self(n.func.value):
                return None   # recursion
        return fn

    def expand_call(self, call: ast.Call, at: ast.stmt) -> Optional[tuple]:
        """(prelude statements, result name) for an inlinable call"""
        fn = self.helper(call)
        if fn is None:
            return None
        self.counter += 1
        pre = f'_{fn.name}{self.counter}_'
        mp = {n: pre + n for n in _local_names(fn)}
        result = pre + 'result'
        self.generated |= set(mp.values()) | {result}
        self.results.add(result)
        if fn.returns is not None and ast.unparse(fn.returns).startswith('Optional['):
            self.optional_results.add(result)
        body_ = _docless(fn.body)
        ends_unreachable = bool(body_) and (
            isinstance(body_[-1], ast.Raise) or
            (isinstance(body_[-1], ast.Assert) and isinstance(body_[-1].test, ast.Constant)
             and body_[-1].test.value is False))
        def _none_valued(v) -> bool:
            return v is None or _is_none(v) or (
                isinstance(v, ast.IfExp) and (_none_valued(v.body) or _none_valued(v.orelse)))
        returns_none = any(isinstance(n, ast.Return) and _none_valued(n.value)
                           for n in ast.walk(fn))
        if returns_none or (_falls_through(body_) and not ends_unreachable):
            self.may_be_none.add(result)
        params = [a.arg for a in fn.args.posonlyargs + fn.args.args]
        is_method = isinstance(call.func, ast.Attribute)
        if is_method:
            if not params:
                return None
            recv_bind = None
            if not isinstance(call.func.value, ast.Name):
                # `state.agent.m(..)`: the receiver is bound to a local of its own
                recv_bind = ast.copy_location(ast.Assign(
                    [ast.Name(mp[params[0]], ast.Store())], copy.deepcopy(call.func.value)), at)
            elif call.func.value.id in ('self', 'cls'):
                mp.pop(params[0], None)      # `self` stays `self`
            else:
                mp[params[0]] = call.func.value.id   # the receiver's own name
                self.generated.discard(mp[params[0]])
            params = params[1:]
        kwonly = [a.arg for a in fn.args.kwonlyargs]
        defaults: Dict[str, ast.AST] = {}
        nd = len(fn.args.defaults)
        for i, p in enumerate(params):
            j = i - (len(params) - nd)
            if j >= 0:
                defaults[p] = fn.args.defaults[j]
        for p, d in zip(kwonly, fn.args.kw_defaults):
            if d is not None:
                defaults[p] = d
        bound: Dict[str, ast.AST] = dict(zip(params, call.args))
        for k in call.keywords:
            bound[k.arg] = k.value
        binds: List[ast.stmt] = []
        if is_method and recv_bind is not None:
            binds.append(recv_bind)
        for p in params + kwonly:
            v = bound.get(p, defaults.get(p))
            if v is None:
                return None
            binds.append(ast.copy_location(
                ast.Assign([ast.Name(mp[p], ast.Store())], copy.deepcopy(v)), at))
        try:
            body = _structured(_alpha_lambdas(copy.deepcopy(_docless(fn.body)),
                                              f'_l{self.counter}'), '__RESULT__')
        except NotInlinable:
            return None
        ren = _Rename(dict(mp, __RESULT__=result))
        body = [ren.visit(s) for s in body]
        # assignments to the result variable were created with the placeholder name
        for s in body:
            for n in ast.walk(s):
                if isinstance(n, ast.Name) and n.id == '__RESULT__':
                    n.id = result
        init = ast.copy_location(
            ast.Assign([ast.Name(result, ast.Store())], ast.Constant(None)), at)
        for s in binds + [init] + body:
            ast.fix_missing_locations(s)
            for n in ast.walk(s):
                if not hasattr(n, 'lineno'):
                    n.lineno = getattr(at, 'lineno', 0)
                    n.col_offset = 0
        self.inlined.append(fn.name)
        needs_init = _falls_through(_docless(fn.body))
        return binds + ([init] if needs_init else []) + body, result

    def block(self, stmts: List[ast.stmt], depth: int) -> List[ast.stmt]:
        out: List[ast.stmt] = []
        for s in stmts:
            out.extend(self.stmt(s, depth))
        return out

    def stmt(self, s: ast.stmt, depth: int) -> List[ast.stmt]:
        if depth <= 0:
            return [s]
        for field in ('body', 'orelse', 'finalbody'):
            blk = getattr(s, field, None)
            if isinstance(blk, list) and blk and isinstance(blk[0], ast.stmt) and \
                    not isinstance(s, (ast.FunctionDef, ast.ClassDef)):
                setattr(s, field, self.block(blk, depth))
        if isinstance(s, ast.Try):
            for h in s.handlers:
                h.body = self.block(h.body, depth)
        call_sites: List[ast.Call] = []
        if isinstance(s, ast.If):
            # a helper call that is evaluated first, unconditionally, in the test
            t = s.test
            while True:
                if isinstance(t, ast.UnaryOp) and isinstance(t.op, ast.Not):
                    t = t.operand
                elif isinstance(t, ast.BoolOp):
                    t = t.values[0]
                elif isinstance(t, ast.Compare):
                    t = t.left
                else:
                    break
            if isinstance(t, ast.Call):
                call_sites = [t]
        if isinstance(s, ast.Expr) and isinstance(s.value, ast.Call):
            call_sites = [s.value]
        elif isinstance(s, ast.Return) and isinstance(s.value, ast.Call):
            call_sites = [s.value]
        elif isinstance(s, (ast.Assign, ast.AnnAssign)) and s.value is not None:
            if isinstance(s.value, ast.Call):
                call_sites = [s.value]
            tg = s.targets[0] if isinstance(s, ast.Assign) else s.target
            if isinstance(tg, ast.Subscript) and isinstance(tg.slice, ast.Call):
                call_sites.append(tg.slice)
        res: List[ast.stmt] = []
        for c in call_sites:
            ex = self.expand_call(c, s)
            if ex is None:
                continue
            pre, result = ex
            pre = self.block(pre, depth - 1)
            res.extend(pre)
            _replace_node(s, c, ast.copy_location(ast.Name(result, ast.Load()), c))
        if isinstance(s, ast.Expr) and isinstance(s.value, ast.Name) and res:
            return res      # the call was a statement: its value is discarded
        return res + [s]

    def nonnull(self, c: ast.Call) -> bool:
        """the callee's declared result type is a plain class (never None)"""
        cands: List[Func] = []
        if isinstance(c.func, ast.Name):
            r = self.index.resolve_name(self.module, c.func.id)
            if isinstance(r, Func):
                cands = [r]
        elif isinstance(c.func, ast.Attribute):
            for m in self.index.modules.values():
                for k in m.classes.values():
                    if c.func.attr in k.methods:
                        cands.append(k.methods[c.func.attr])
        if not cands:
            return False
        for f in cands:
            ann = f.node.returns
            if ann is None:
                return False
            t = ast.unparse(ann)
            if any(w in t for w in ('Optional', 'None', 'Any', 'Union', 'object')):
                return False
        return True

    def run(self) -> ast.FunctionDef:
        _NONNULL[0] = self.nonnull
        fn = copy.deepcopy(self.func.node)
        fn.body = self.block(fn.body, self.depth)
        if self.inlined:
            if split_optional_results(fn, self.results & self.may_be_none,
                                      self.optional_results):
                self.generated |= {n.id for n in ast.walk(fn) if isinstance(n, ast.Name)
                                   and '_p' in n.id and n.id.rsplit('_p', 1)[0] in self.generated}
            # tests of a bound argument against None (`if offsets is None: offsets = ..` in an
            # inlined helper called with a value that is certainly not None) are decided
            if any(isinstance(n, ast.Compare) and any(_is_none(c) for c in n.comparators)
                   for n in ast.walk(fn)):
                fn.body = _fold(fn.body, {}) or fn.body
            propagate_copies(fn, self.generated)
        ast.fix_missing_locations(fn)
        return fn


def _rebound_before(fn: ast.FunctionDef, y: str, st: ast.stmt) -> bool:
    """every assignment of the parameter y is a top-level statement that precedes the
    top-level statement containing st (so y is stable from st on)"""
    pos = None
    for i, top in enumerate(fn.body):
        if any(n is st for n in ast.walk(top)):
            pos = i
    if pos is None:
        return False
    for i, top in enumerate(fn.body):
        has = any(isinstance(n, ast.Name) and n.id == y and isinstance(n.ctx, (ast.Store, ast.Del))
                  for n in ast.walk(top))
        if has and (i >= pos or not isinstance(top, (ast.Assign, ast.AnnAssign))):
            return False
    return True


def propagate_copies(fn: ast.FunctionDef, generated: Optional[Set[str]] = None) -> None:
    """remove the alias chains inlining leaves behind (`p' = p`, `result = v`, `x = result`):
    for `x = y` with x stored exactly once, y a never-reassigned parameter -> x is renamed to y;
    y a local stored exactly once -> y is renamed to x (the caller's name survives).  Both
    names denote the same object from the assignment on, and x is unbound before it."""
    params = {a.arg for a in fn.args.posonlyargs + fn.args.args + fn.args.kwonlyargs}
    for _ in range(40):
        stores: Dict[str, int] = {}
        for n in ast.walk(fn):
            if isinstance(n, ast.Name) and isinstance(n.ctx, (ast.Store, ast.Del)):
                stores[n.id] = stores.get(n.id, 0) + 1
            elif isinstance(n, (ast.Global, ast.Nonlocal)):
                return
        found = None
        for parent in ast.walk(fn):
            for field in ('body', 'orelse', 'finalbody'):
                blk = getattr(parent, field, None)
                if not (isinstance(blk, list) and blk and isinstance(blk[0], ast.stmt)):
                    continue
                for st in blk:
                    if isinstance(st, ast.Assign) and len(st.targets) == 1 and \
                            isinstance(st.targets[0], ast.Name) and isinstance(st.value, ast.Name):
                        x, y = st.targets[0].id, st.value.id
                        if x == y or stores.get(x) != 1 or x in params:
                            continue
                        if y in params and stores.get(y, 0) == 0:
                            found = (blk, st, x, y)
                        elif y in params and _rebound_before(fn, y, st):
                            found = (blk, st, x, y)
                        elif y not in params and stores.get(y) == 1:
                            # the caller's own name survives, not the inliner's
                            if generated and x in generated and y not in generated:
                                found = (blk, st, x, y)
                            else:
                                found = (blk, st, y, x)
                        if found:
                            break
                if found:
                    break
            if found:
                break
        if not found and generated:
            # generated parameter locals bound to a constant or an attribute chain that the
            # function never assigns: substitute the value
            attr_stores = {ast.unparse(n) for n in ast.walk(fn)
                           if isinstance(n, ast.Attribute) and isinstance(n.ctx, (ast.Store, ast.Del))}
            done = False
            for parent in ast.walk(fn):
                for field in ('body', 'orelse', 'finalbody'):
                    blk = getattr(parent, field, None)
                    if not (isinstance(blk, list) and blk and isinstance(blk[0], ast.stmt)):
                        continue
                    for st in blk:
                        if not (isinstance(st, ast.Assign) and len(st.targets) == 1 and
                                isinstance(st.targets[0], ast.Name)):
                            continue
                        x, v = st.targets[0].id, st.value
                        if x not in generated or stores.get(x) != 1:
                            continue
                        ok = isinstance(v, ast.Constant)
                        if isinstance(v, ast.Attribute):
                            root = v
                            while isinstance(root, ast.Attribute):
                                root = root.value
                            text = ast.unparse(v)
                            ok = isinstance(root, ast.Name) and stores.get(root.id, 0) == 0 and \
                                not any(t == text or text.startswith(t + '.')
                                        for t in attr_stores)
                        if not ok:
                            continue
                        if len(blk) == 1:
                            blk[0] = ast.copy_location(ast.Pass(), st)
                        else:
                            blk.remove(st)
                        _SubstNames({x: v}).visit(fn)
                        done = True
                        break
                    if done:
                        break
                if done:
                    break
            if done:
                continue
        if not found:
            return
        blk, st, old, new = found
        if len(blk) == 1:
            blk[0] = ast.copy_location(ast.Pass(), st)
        else:
            blk.remove(st)
        for n in ast.walk(fn):
            if isinstance(n, ast.Name) and n.id == old:
                n.id = new


def _falls_through_assign(body, result) -> bool:
    return True


def _replace_node(root: ast.AST, old: ast.AST, new: ast.AST) -> None:
    for n in ast.walk(root):
        for field, val in ast.iter_fields(n):
            if val is old:
                setattr(n, field, new)
            elif isinstance(val, list):
                for i, x in enumerate(val):
                    if x is old:
                        val[i] = new


def inlined_function(index: RepoIndex, func: Func, exclude: Optional[Set[str]] = None,
                     methods: bool = False, cross: Optional[Set[str]] = None):
    """(function node with module-local helper calls -- and, with `methods`, calls of private
    methods on self -- inlined, names of helpers inlined)"""
    try:
        il = Inliner(index, func, exclude, methods=methods, cross=cross)
        node = il.run()
        if not il.inlined:
            return func.node, []
        ast.parse(ast.unparse(node))   # sanity: still a well-formed function
        # a helper that re-binds its own parameter (`xs = sorted(set(xs))`) leaves two
        # straight-line assignments of the generated local: renamed apart, like at index time
        from .normalise import ssa_straightline
        node = ssa_straightline(node)
        return node, il.inlined
    except (NotInlinable, SyntaxError, RecursionError):
        return func.node, []


def _canon_plan(index: RepoIndex, module: Module, c: ast.AST):
    if not (isinstance(c, ast.Call) and c.keywords and isinstance(c.func, ast.Name)):
        return None
    if any(k.arg is None for k in c.keywords) or \
            any(isinstance(a, ast.Starred) for a in c.args):
        return None
    r = index.resolve_callee(module, c.func, None)
    if not isinstance(r, Func) or r.cls is not None or r.node.decorator_list:
        return None
    a = r.node.args
    if a.vararg is not None:
        return None
    params = [x.arg for x in a.posonlyargs + a.args]
    kw = {k.arg for k in c.keywords}
    n = len(c.args)
    moved = []
    while n < len(params) and params[n] in kw:
        moved.append(params[n])
        n += 1
    return moved or None


def canon_calls(index: RepoIndex, module: Module, node: ast.AST) -> ast.AST:
    """calls of plain repository functions with keyword arguments for positional parameters
    are rewritten to the positional spelling (on a copy), so `f(position=p, action=a)` and
    `f(p, a)` are one term for the rules"""
    if not any(_canon_plan(index, module, c) for c in ast.walk(node)):
        return node
    node = copy.deepcopy(node)
    for c in ast.walk(node):
        plan = _canon_plan(index, module, c)
        if plan:
            kw = {k.arg: k for k in c.keywords}
            for name in plan:
                c.args.append(kw[name].value)
                c.keywords.remove(kw[name])
    return node


# ---------------------------------------------------------------------------
# expression-level inlining of pure one-expression helpers
class _SubstNames(ast.NodeTransformer):
    def __init__(self, mp: Dict[str, ast.AST]):
        self.mp = mp

    def visit_Name(self, n: ast.Name):
        if isinstance(n.ctx, ast.Load) and n.id in self.mp:
            return copy.deepcopy(self.mp[n.id])
        return n


def _branch_expr(fn: ast.FunctionDef) -> Optional[ast.AST]:
    """the value of a helper whose body is simple local assignments, `if` statements whose
    branches are again such assignments (a local chosen by a condition), `if C: return A`
    steps and a final `return e`: evaluated over an environment of local expressions, a
    conditionally assigned local becoming a conditional expression.  None for anything else
    (loops, calls as statements, locals assigned on one branch only and used later...)."""
    params = {a.arg for a in fn.args.posonlyargs + fn.args.args + fn.args.kwonlyargs}

    class Fail(Exception):
        pass

    def sub(e: ast.AST, env: Dict[str, ast.AST]) -> ast.AST:
        for n in ast.walk(e):
            if isinstance(n, (ast.Lambda, ast.ListComp, ast.SetComp, ast.DictComp,
                              ast.GeneratorExp, ast.NamedExpr)):
                bound = {x.id for x in ast.walk(n) if isinstance(x, ast.Name)
                         and isinstance(x.ctx, ast.Store)} | \
                    {a.arg for l in ast.walk(n) if isinstance(l, ast.Lambda)
                     for a in l.args.args}
                if bound & set(env):
                    raise Fail()
        return _SubstNames(env).visit(copy.deepcopy(e)) if env else copy.deepcopy(e)

    def assigns(stmts, env: Dict[str, ast.AST]) -> Dict[str, ast.AST]:
        env = dict(env)
        for s in stmts:
            if isinstance(s, ast.AnnAssign) and s.value is None:
                continue
            if isinstance(s, (ast.Assign, ast.AnnAssign)):
                tg = s.targets if isinstance(s, ast.Assign) else [s.target]
                if len(tg) != 1:
                    raise Fail()
                t = tg[0]
                if isinstance(t, ast.Name):
                    env[t.id] = sub(s.value, env)
                elif isinstance(t, ast.Tuple) and isinstance(s.value, ast.Tuple) and \
                        len(t.elts) == len(s.value.elts) and \
                        all(isinstance(x, ast.Name) for x in t.elts):
                    vals = [sub(v, env) for v in s.value.elts]
                    for x, v in zip(t.elts, vals):
                        env[x.id] = v
                else:
                    raise Fail()
            elif isinstance(s, ast.If):
                test = sub(s.test, env)
                a, b = assigns(s.body, env), assigns(s.orelse, env)
                for k in set(a) | set(b):
                    va, vb = a.get(k), b.get(k)
                    if va is None or vb is None:
                        raise Fail()     # bound on one path only
                    if ast.dump(va) != ast.dump(vb):
                        env[k] = ast.IfExp(copy.deepcopy(test), va, vb)
                    else:
                        env[k] = va
            elif isinstance(s, ast.Pass):
                continue
            else:
                raise Fail()
        return env

    body = _docless(fn.body)
    if not body or not isinstance(body[-1], ast.Return) or body[-1].value is None:
        return None
    try:
        env: Dict[str, ast.AST] = {}
        chain = []
        for s in body[:-1]:
            if isinstance(s, ast.If) and not s.orelse and len(s.body) == 1 and \
                    isinstance(s.body[0], ast.Return) and s.body[0].value is not None:
                chain.append((sub(s.test, env), sub(s.body[0].value, env)))
                continue
            env = assigns([s], env)
        if set(env) & params:
            return None                   # a parameter is rebound: not handled here
        out = sub(body[-1].value, env)
        for t, v in reversed(chain):
            out = ast.IfExp(t, v, out)
        return ast.fix_missing_locations(out)
    except Fail:
        return None


def pure_body_expr(fn: ast.FunctionDef) -> Optional[ast.AST]:
    """the expression a helper returns when its body is local assignments and one
    unconditional `return e` (locals expanded); None for anything else"""
    r = _pure_body_expr(fn)
    return r if r is not None else _branch_expr(fn)


def _pure_body_expr(fn: ast.FunctionDef) -> Optional[ast.AST]:
    from .guards import walk_function
    body = _docless(fn.body)
    if len(body) == 1 and isinstance(body[0], ast.Try) and not body[0].finalbody and \
            not body[0].orelse and body[0].handlers and \
            all(h.body and all(isinstance(s, (ast.Raise, ast.Assign, ast.AnnAssign))
                               for s in h.body) and isinstance(h.body[-1], ast.Raise)
                for h in body[0].handlers):
        # `try: return E except X as e: raise Y(..) from e`: the handlers only translate the
        # exception; when a value comes back it is E
        inner = copy.copy(fn)
        inner.body = list(body[0].body)
        return _pure_body_expr(inner)
    if body and isinstance(body[0], ast.Try) and len(body) <= 2:
        # `try: i = R.choice(len(D)) except ValueError: return None [else:] return F(i)`: the
        # draw refuses exactly when D is empty (a one-argument choice of a length), so the
        # function is `None if len(D) == 0 else F(R.choice(len(D)))`
        t = body[0]
        tail = list(t.orelse) + body[1:]
        if not t.finalbody and len(t.body) == 1 and isinstance(t.body[0], ast.Assign) and \
                len(t.body[0].targets) == 1 and isinstance(t.body[0].targets[0], ast.Name) and \
                len(t.handlers) == 1 and t.handlers[0].type is not None and \
                ast.unparse(t.handlers[0].type) == 'ValueError' and \
                len(t.handlers[0].body) == 1 and isinstance(t.handlers[0].body[0], ast.Return) \
                and (t.handlers[0].body[0].value is None or (
                    isinstance(t.handlers[0].body[0].value, ast.Constant)
                    and t.handlers[0].body[0].value.value is None)) and \
                len(tail) == 1 and isinstance(tail[0], ast.Return) and \
                tail[0].value is not None:
            d = t.body[0].value
            if isinstance(d, ast.Call) and isinstance(d.func, ast.Attribute) and \
                    d.func.attr == 'choice' and isinstance(d.func.value, ast.Name) and \
                    len(d.args) == 1 and not d.keywords and isinstance(d.args[0], ast.Call) \
                    and ast.unparse(d.args[0].func) == 'len' and len(d.args[0].args) == 1 \
                    and isinstance(d.args[0].args[0], ast.Name):
                var = t.body[0].targets[0].id
                uses = [n for n in ast.walk(tail[0].value)
                        if isinstance(n, ast.Name) and n.id == var]
                if len(uses) == 1:
                    val = _SubstNames({var: d}).visit(copy.deepcopy(tail[0].value))
                    test = ast.Compare(copy.deepcopy(d.args[0]), [ast.Eq()], [ast.Constant(0)])
                    return ast.fix_missing_locations(
                        ast.IfExp(test, ast.Constant(None), val))
        return None
    if not body or not isinstance(body[-1], ast.Return) or body[-1].value is None:
        return None
    chain = []      # `if C: return A` steps before the final return
    for s in body[:-1]:
        if isinstance(s, ast.If) and not s.orelse and len(s.body) == 1 and \
                isinstance(s.body[0], ast.Return) and s.body[0].value is not None:
            chain.append(s)
            continue
        if chain or not (isinstance(s, (ast.Assign, ast.AnnAssign)) and
                         all(isinstance(t, (ast.Name, ast.Tuple)) for t in
                             (s.targets if isinstance(s, ast.Assign) else [s.target]))):
            return None
    w = walk_function(fn)
    rets = [e for e in w.events if e.kind == 'return']
    if len(rets) != 1 + len(chain):
        return None
    out = w.expand(body[-1].value)
    for s in reversed(chain):
        out = ast.IfExp(w.expand(s.test), w.expand(s.body[0].value), out)
    return out


def inline_pure_exprs(index: RepoIndex, module: Module, cls, expr: ast.AST,
                      depth: int = 3, cross: tuple = (), keep: tuple = ()) -> ast.AST:
    """replace calls `self.m(args)` / `helper(args)` of pure one-expression helpers by the
    helper's expression with the parameters substituted (on a copy)"""
    if depth <= 0:
        return expr

    class T(ast.NodeTransformer):
        def visit_Call(self, c: ast.Call):
            c = self.generic_visit(c)
            if any(isinstance(a, ast.Starred) for a in c.args) or \
                    any(k.arg is None for k in c.keywords):
                return c
            target = None
            skip_self = False
            if isinstance(c.func, (ast.Name, ast.Attribute)) and \
                    (c.func.id if isinstance(c.func, ast.Name) else c.func.attr) in keep:
                return c
            if isinstance(c.func, ast.Name):
                r = module.functions.get(c.func.id)
                if r is None and (c.func.id in cross or c.func.id not in _pinned_functions()):
                    # imported helpers: the named ones, and any that did not exist at the
                    # pinned commit (rules cannot know them by name)
                    r = index.resolve_name(module, c.func.id)
                if isinstance(r, Func) and r.cls is None and not opaque_decorators(r.node):
                    target = r
            elif isinstance(c.func, ast.Attribute) and isinstance(c.func.value, ast.Name) \
                    and c.func.value.id == 'self' and cls is not None:
                m = index.method(cls, c.func.attr)
                if m is not None and not m.node.decorator_list:
                    target, skip_self = m, True
            elif isinstance(c.func, ast.Attribute) and isinstance(c.func.value, ast.Name) \
                    and module.imports.get(c.func.value.id, ('',))[0] == 'module' \
                    and module.imports[c.func.value.id][1].startswith('gym_gridverse.') \
                    and c.func.attr not in keep:
                # a function of another module of the package, named through the module
                tm = next((m_ for m_ in index.modules.values()
                           if m_.name == module.imports[c.func.value.id][1]), None)
                r = tm.functions.get(c.func.attr) if tm is not None else None
                if r is not None and not opaque_decorators(r.node, registered=True):
                    target = r
            if target is None:
                return c
            fn = target.node
            if fn.args.vararg or fn.args.kwarg:
                return c
            e = pure_body_expr(fn)
            if e is None:
                return c
            params = [a.arg for a in fn.args.posonlyargs + fn.args.args]
            if skip_self:
                params = params[1:]
            bound: Dict[str, ast.AST] = dict(zip(params, c.args))
            for k in c.keywords:
                bound[k.arg] = k.value
            defaults = target.param_defaults()
            for p in params + [a.arg for a in fn.args.kwonlyargs]:
                if p not in bound:
                    if defaults.get(p) is None:
                        return c
                    bound[p] = defaults[p]
            # no capture: comprehension targets of the helper must not occur free in args
            comp_targets = {n.id for g in ast.walk(e) if isinstance(g, ast.comprehension)
                            for n in ast.walk(g.target) if isinstance(n, ast.Name)}
            free = {n.id for a in bound.values() for n in ast.walk(a)
                    if isinstance(n, ast.Name)}
            if comp_targets & free:
                return c
            out = _SubstNames(bound).visit(copy.deepcopy(e))
            return inline_pure_exprs(index, target.module, target.cls, out, depth - 1, cross, keep)
    return ast.fix_missing_locations(T().visit(copy.deepcopy(expr)))


def _pinned_functions():
    from .pinned_names import FUNCTIONS
    return FUNCTIONS


def inline_methods_by_name(index: RepoIndex, expr: ast.AST, depth: int = 3,
                           exclude: tuple = (), new_only: bool = False) -> ast.AST:
    """replace `recv.m(args)` by the body expression of `m` when exactly one class of the
    package defines a method `m`, that method is a pure one-expression method (locals
    expanded) and the name is not one of the builtin container methods.  Used by rules as a
    second reading of an expression they could not classify: a maintainer moved an expression
    into a new method of Grid / Area / State and the call site now only shows its name."""
    if depth <= 0:
        return expr
    builtin_like = {'get', 'copy', 'index', 'count', 'items', 'keys', 'values', 'append', 'pop',
                    'add', 'update', 'sort', 'reverse', 'join', 'split', 'format', 'issubset',
                    'union', 'extend', 'insert', 'remove', 'clear', 'any', 'all', 'max', 'min',
                    'sum', 'astype', 'reshape', 'tolist', 'choice', 'integers', 'random'}
    by_name: Dict[str, List[Func]] = {}
    module_aliases = {n for mod in index.modules.values() for n, imp in mod.imports.items()
                      if imp[0] == 'module'}
    by_class: Dict[str, list] = {}
    for mod in index.modules.values():
        if not mod.relpath.startswith('gym_gridverse/'):
            continue
        for c in mod.classes.values():
            by_class.setdefault(c.name, []).append(c)
            for cc in [c] + list(c.inner.values()):
                for mn, m in cc.methods.items():
                    by_name.setdefault(mn, []).append(m)

    # module-level instances of package classes (`grid_object_registry = GridObjectRegistry()`)
    instances: Dict[str, list] = {}
    for mod in index.modules.values():
        if not mod.relpath.startswith('gym_gridverse/'):
            continue
        for st in mod.tree.body:
            if isinstance(st, ast.Assign) and len(st.targets) == 1 and \
                    isinstance(st.targets[0], ast.Name) and isinstance(st.value, ast.Call) and \
                    isinstance(st.value.func, ast.Name) and st.value.func.id in by_class and \
                    len(by_class[st.value.func.id]) == 1:
                instances.setdefault(st.targets[0].id, []).append(by_class[st.value.func.id][0])

    class T(ast.NodeTransformer):
        def visit_Call(self, c: ast.Call):
            c = self.generic_visit(c)
            if not isinstance(c.func, ast.Attribute) or c.func.attr.startswith('__') or \
                    c.func.attr in builtin_like or c.func.attr in exclude:
                return c
            if isinstance(c.func.value, ast.Name) and c.func.value.id in ('self', 'cls'):
                return c
            if isinstance(c.func.value, ast.Name) and c.func.value.id in module_aliases:
                return c        # `np.tile(..)`: a library function, not a method
            static = False
            known = None
            if isinstance(c.func.value, ast.Name) and \
                    len(instances.get(c.func.value.id, [])) == 1:
                # the receiver is a module-level instance: its class is known, so the method
                # need not have a package-unique name
                known = index.method(instances[c.func.value.id][0], c.func.attr)
                if known is not None and new_only:
                    from .pinned_names import PARAMS as _PP
                    if f'{known.module.relpath}:{known.short}' in _PP:
                        known = None
                        return c
            if known is not None and not known.node.decorator_list:
                m = known
            elif isinstance(c.func.value, ast.Name) and c.func.value.id in by_class and \
                    len(by_class[c.func.value.id]) == 1:
                # `Area.from_shape(..)`: the class is named, the method need not be unique
                m = by_class[c.func.value.id][0].methods.get(c.func.attr)
                if m is None or [src(d) for d in m.node.decorator_list] != ['staticmethod']:
                    return c
                if new_only:
                    from .pinned_names import PARAMS as _PP
                    if f'{m.module.relpath}:{m.short}' in _PP:
                        return c
                static = True
            else:
                if new_only:
                    from .pinned_names import METHODS as _PM
                    if c.func.attr in _PM:
                        return c    # a method of the pinned tree is vocabulary
                cands = by_name.get(c.func.attr, [])
                if len(cands) != 1:
                    return c
                m = cands[0]
            fn = m.node
            if (fn.decorator_list and not static) or fn.args.kwarg or \
                    any(isinstance(a, ast.Starred) for a in c.args) or \
                    any(k.arg is None for k in c.keywords):
                return c
            e = pure_body_expr(fn)
            if e is None:
                # a one-pass loop that fills the lists it returns is the comprehensions it
                # builds (normal form)
                from .normalise import normalise_function
                nf = normalise_function(fn)
                if nf is not fn:
                    e = pure_body_expr(nf)
            if e is None:
                return c
            params = [a.arg for a in fn.args.posonlyargs + fn.args.args]
            if not params:
                return c
            # the expression is moved to another module: it must not name tables / constants /
            # helpers private to the module that defines the method
            free_ = {n.id for n in ast.walk(e) if isinstance(n, ast.Name)} - set(params)
            if free_ & (set(m.module.assigns) | set(m.module.functions)):
                return c
            if static:
                bound: Dict[str, ast.AST] = dict(zip(params, c.args))
                n_pos = len(params)
            else:
                bound = {params[0]: c.func.value}
                bound.update(zip(params[1:], c.args))
                n_pos = len(params) - 1
            if fn.args.vararg is not None:
                # `def tile(self, *reps)` called as `tile(h, w, 1)`: reps is the tuple of the
                # remaining positional arguments
                bound[fn.args.vararg.arg] = ast.Tuple(list(c.args[n_pos:]), ast.Load())
            elif len(c.args) > n_pos:
                return c
            for k in c.keywords:
                bound[k.arg] = k.value
            defaults = m.param_defaults()
            for p in (params if static else params[1:]) + [a.arg for a in fn.args.kwonlyargs]:
                if p not in bound:
                    if defaults.get(p) is None:
                        return c
                    bound[p] = defaults[p]
            comp_targets = {n.id for g in ast.walk(e) if isinstance(g, ast.comprehension)
                            for n in ast.walk(g.target) if isinstance(n, ast.Name)}
            free = {n.id for a in bound.values() for n in ast.walk(a)
                    if isinstance(n, ast.Name)}
            if comp_targets & free:
                return c
            out = _SubstNames(bound).visit(copy.deepcopy(e))
            return inline_methods_by_name(index, out, depth - 1, exclude, new_only)

        def visit_Attribute(self, a: ast.Attribute):
            a = self.generic_visit(a)
            # a property added after the pinned tree (`space.dtype`), defined by exactly one
            # class of the package as a pure one-expression getter
            from .pinned_names import METHODS
            if not isinstance(a.ctx, ast.Load) or a.attr in METHODS or a.attr in exclude or \
                    a.attr.startswith('__') or \
                    (isinstance(a.value, ast.Name) and a.value.id in module_aliases) or \
                    (isinstance(a.value, ast.Name) and a.value.id in ('self', 'cls')):
                return a
            cands = by_name.get(a.attr, [])
            if len(cands) != 1 or not cands[0].is_property():
                return a
            fn = cands[0].node
            params = [x.arg for x in fn.args.posonlyargs + fn.args.args]
            e = pure_body_expr(fn)
            if e is None or len(params) != 1:
                return a
            out = _SubstNames({params[0]: a.value}).visit(copy.deepcopy(e))
            # the body of the property is not read through the same property again: a field
            # of the same name on what it returns (`TABLE[self].dtype`) is another attribute
            return inline_methods_by_name(index, out, depth - 1, tuple(exclude) + (a.attr,))
    return ast.fix_missing_locations(T().visit(copy.deepcopy(expr)))


# ---------------------------------------------------------------------------
# Optional results: path splitting (tail duplication) + folding of None tests
def _stores(node_or_list) -> Set[str]:
    nodes = node_or_list if isinstance(node_or_list, list) else [node_or_list]
    return {n.id for s in nodes for n in ast.walk(s)
            if isinstance(n, ast.Name) and isinstance(n.ctx, (ast.Store, ast.Del))}


def _is_none(v: ast.AST) -> bool:
    return isinstance(v, ast.Constant) and v.value is None


_NONNULL = [None]    # callback: expression -> certainly not None (set by the inliner)


def _known(v: ast.AST, env: Dict[str, str]) -> Optional[str]:
    """'none' / 'some' (certainly not None) / None (unknown)"""
    if _is_none(v):
        return 'none'
    if isinstance(v, ast.Call) and _NONNULL[0] is not None and _NONNULL[0](v):
        return 'some'
    if isinstance(v, ast.Name):
        return env.get(v.id)
    if isinstance(v, (ast.Tuple, ast.List, ast.Dict, ast.Set, ast.JoinedStr, ast.ListComp,
                      ast.DictComp, ast.SetComp, ast.Lambda)) or \
            (isinstance(v, ast.Constant) and v.value is not None):
        return 'some'
    return None


def _test_truth(t: ast.AST, env: Dict[str, str]) -> Optional[bool]:
    if isinstance(t, ast.UnaryOp) and isinstance(t.op, ast.Not):
        x = _test_truth(t.operand, env)
        return None if x is None else not x
    if isinstance(t, ast.BoolOp):
        vals = [_test_truth(v, env) for v in t.values]
        if isinstance(t.op, ast.And):
            if any(v is False for v in vals):
                return False
            return True if all(v is True for v in vals) else None
        if any(v is True for v in vals):
            return True
        return False if all(v is False for v in vals) else None
    if isinstance(t, ast.Compare) and len(t.ops) == 1 and \
            isinstance(t.ops[0], (ast.Is, ast.IsNot, ast.Eq, ast.NotEq)):
        l, r = t.left, t.comparators[0]
        for a, b in ((l, r), (r, l)):
            if _is_none(b):
                k = _known(a, env)
                if k is not None:
                    return (k == 'none') == isinstance(t.ops[0], (ast.Is, ast.Eq))
    if isinstance(t, ast.Name) and env.get(t.id) == 'none':
        return False
    return None


def _fold(stmts: List[ast.stmt], env: Dict[str, str]) -> List[ast.stmt]:
    out: List[ast.stmt] = []
    for s in stmts:
        if isinstance(s, ast.Assign) and len(s.targets) == 1 and \
                isinstance(s.targets[0], ast.Name):
            k = _known(s.value, env)
            if k is None:
                env.pop(s.targets[0].id, None)
            else:
                env[s.targets[0].id] = k
            out.append(s)
            continue
        if isinstance(s, ast.If):
            t = _test_truth(s.test, env)
            if t is not None:
                sub = _fold(s.body if t else s.orelse, env)
                out.extend(sub)
                if sub and not _falls_through(sub):
                    return out
                continue
            s.body = _fold(s.body, dict(env)) or [ast.copy_location(ast.Pass(), s)]
            s.orelse = _fold(s.orelse, dict(env))
        for n in _stores(s):
            env.pop(n, None)
        out.append(s)
        if isinstance(s, (ast.Return, ast.Raise, ast.Continue, ast.Break)):
            return out
    return out


def split_optional_results(fn: ast.FunctionDef, results: Set[str],
                           declared_optional: Optional[Set[str]] = None) -> bool:
    """For a helper result R that is None on some paths and a value on others, the rest of
    the block is duplicated into the paths (tail duplication), R and the locals private to
    the duplicated part are renamed apart per path, and tests of R against None are folded.
    Each path then has one reaching definition of R, which the rules can expand.  Purely a
    restructuring: the set of executions is unchanged."""
    changed = False
    counter = [0]

    def blocks(node):
        for parent in ast.walk(node):
            for field in ('body', 'orelse', 'finalbody'):
                blk = getattr(parent, field, None)
                if isinstance(blk, list) and blk and isinstance(blk[0], ast.stmt):
                    yield blk

    def values_of(R):
        return [n.value for n in ast.walk(fn) if isinstance(n, ast.Assign)
                and len(n.targets) == 1 and isinstance(n.targets[0], ast.Name)
                and n.targets[0].id == R]

    for R in sorted(results):
        vals = values_of(R)
        # a single conditional value `v if c else None` counts as two alternatives
        flat = [x for v in vals for x in ((v.body, v.orelse) if isinstance(v, ast.IfExp)
                                          else (v,))]
        if len(flat) < 2 or not any(_is_none(v) for v in flat) or \
                all(_is_none(v) for v in flat):
            continue
        # IfExp values `v if c else None` are split into statements first
        for blk in list(blocks(fn)):
            for i, s in enumerate(blk):
                if isinstance(s, ast.Assign) and len(s.targets) == 1 and \
                        isinstance(s.targets[0], ast.Name) and s.targets[0].id == R and \
                        isinstance(s.value, ast.IfExp):
                    mk = lambda v: ast.copy_location(
                        ast.Assign([ast.Name(R, ast.Store())], v), s)
                    blk[i] = ast.copy_location(
                        ast.If(s.value.test, [mk(s.value.body)], [mk(s.value.orelse)]), s)
        target = None
        total = sum(1 for n in ast.walk(fn) if isinstance(n, ast.Name) and n.id == R
                    and isinstance(n.ctx, ast.Store))
        best = None
        for blk in blocks(fn):
            idx = [i for i, s in enumerate(blk) if R in _stores(s)]
            cnt = len({id(n) for i in idx for n in ast.walk(blk[i])
                       if isinstance(n, ast.Name) and n.id == R
                       and isinstance(n.ctx, ast.Store)})
            if idx and cnt == total and cnt >= 2:
                # the innermost block holding all the stores
                size = sum(1 for i in idx for _ in ast.walk(blk[i]))
                if best is None or size < best:
                    best, target = size, (blk, idx)
        if target is None:
            continue
        blk, idx = target
        last = idx[-1]
        cont = blk[last + 1:]
        if not cont or not isinstance(blk[last], ast.If):
            continue
        init_none = any(isinstance(blk[i], ast.Assign) and _is_none(blk[i].value)
                        for i in idx[:-1])
        inside = {id(n) for s in cont for n in ast.walk(s)}
        comp_bound: Set[int] = set()
        for comp in ast.walk(fn):
            if isinstance(comp, (ast.ListComp, ast.SetComp, ast.GeneratorExp, ast.DictComp)):
                tn = {x.id for g in comp.generators for x in ast.walk(g.target)
                      if isinstance(x, ast.Name)}
                for x in ast.walk(comp):
                    if isinstance(x, ast.Name) and x.id in tn:
                        comp_bound.add(id(x))
        outside_names = {n.id for n in ast.walk(fn) if isinstance(n, ast.Name)
                         and id(n) not in inside and id(n) not in comp_bound}
        private = {n for n in _stores(cont) if n not in outside_names}
        size = sum(1 for s in cont for _ in ast.walk(s) if isinstance(_, ast.stmt))

        leaves = []

        def collect(ifn):
            for br in (ifn.body, ifn.orelse):
                if br and isinstance(br[-1], ast.If) and R in _stores(br[-1]):
                    collect(br[-1])
                else:
                    leaves.append(br)
        collect(blk[last])
        if len(leaves) > 6 or size * len(leaves) > 240:
            continue

        def env_of(stmts, env):
            for s in stmts:
                if isinstance(s, ast.Assign) and len(s.targets) == 1 and \
                        isinstance(s.targets[0], ast.Name):
                    k = _known(s.value, env)
                    if k is None:
                        env.pop(s.targets[0].id, None)
                    else:
                        env[s.targets[0].id] = k
                else:
                    for n in _stores(s):
                        env.pop(n, None)
            return env
        env0 = env_of(blk[:last], {})

        def specialise(value: Optional[ast.AST], path_env: Dict[str, str]):
            counter[0] += 1
            k = counter[0]
            mp = {n: f'{n}_p{k}' for n in private}
            mp[R] = f'{R}_p{k}'
            body = [_Rename(mp).visit(copy.deepcopy(s)) for s in cont]
            env: Dict[str, str] = dict(path_env)
            kv = _known(value, path_env) if value is not None else \
                ('none' if init_none else None)
            if kv is None and value is not None and declared_optional and R in declared_optional:
                kv = 'some'     # declared Optional[T]: what is returned besides None is a T
            if kv is not None:
                env[mp[R]] = kv
            return mp[R], _fold(body, env)

        def push(ifn, env_in=None) -> None:
            env_in = dict(env0) if env_in is None else env_in
            for field in ('body', 'orelse'):
                br = getattr(ifn, field)
                if br and isinstance(br[-1], ast.If) and R in _stores(br[-1]):
                    push(br[-1], env_of(br[:-1], dict(env_in)))
                    continue
                if br and not _falls_through(br):
                    continue
                value = None
                assign = None
                for s in br:
                    if isinstance(s, ast.Assign) and len(s.targets) == 1 and \
                            isinstance(s.targets[0], ast.Name) and s.targets[0].id == R:
                        value, assign = s.value, s
                name, tail = specialise(value, env_of(
                    [x for x in br if x is not assign], dict(env_in)))
                if assign is not None:
                    assign.targets[0].id = name
                else:
                    br.append(ast.copy_location(
                        ast.Assign([ast.Name(name, ast.Store())], ast.Name(R, ast.Load())),
                        ifn))
                br.extend(tail)
                setattr(ifn, field, br)
        push(blk[last])
        del blk[last + 1:]
        changed = True
    if changed:
        ast.fix_missing_locations(fn)
    return changed
