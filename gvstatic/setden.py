"""Denotation of collection-valued expressions as sets: the union of named collections and
single elements an expression stands for, and whether it can hold an element twice.

    set(colors) | {Color.NONE}             -> atoms {colors, elt:Color.NONE}, duplicate-free
    [NoneGridObject] + list(object_types)  -> atoms {object_types, elt:NoneGridObject}, may repeat
    {*object_types, Hidden}                -> atoms {object_types, elt:Hidden}, duplicate-free

Rules compare the atoms (not the spelling) with the set a facet requires.  Anything outside
the grammar gives None and the rule decides (normally an ANALYSIS-ERROR)."""
import ast
from typing import Callable, FrozenSet, Optional, Tuple

from .core import src

SetDen = Tuple[FrozenSet[str], bool]       # (atoms, duplicate-free)

_WRAP_SET = {'set', 'frozenset'}
_WRAP_SEQ = {'list', 'tuple', 'sorted'}


def _norm(atoms: FrozenSet[str]) -> FrozenSet[str]:
    out = set(atoms)
    for a in atoms:
        if ' without ' in a:
            xs, other = a.split(' without ', 1)
            if 'elt:' + other in atoms:
                out.discard(a)
                out.add(xs)
    return frozenset(out)


def set_den(e: ast.AST, resolve: Optional[Callable[[str], Optional[ast.AST]]] = None,
            depth: int = 6) -> Optional[SetDen]:
    if depth <= 0:
        return None
    rec = lambda x: set_den(x, resolve, depth - 1)       # noqa: E731
    if isinstance(e, (ast.Name, ast.Attribute)):
        t = src(e)
        if resolve is not None:
            v = resolve(t)
            if v is not None:
                return rec(v)
        return frozenset({t}), False
    if isinstance(e, ast.Call) and not e.keywords and len(e.args) == 1 and \
            isinstance(e.func, ast.Name) and e.func.id in _WRAP_SET | _WRAP_SEQ:
        d = rec(e.args[0])
        if d is None:
            return None
        return d[0], (True if e.func.id in _WRAP_SET else d[1])
    if isinstance(e, ast.Call) and isinstance(e.func, ast.Name) and e.func.id == 'sorted' and \
            len(e.args) == 1 and all(k.arg in ('key', 'reverse') for k in e.keywords):
        return rec(e.args[0])
    if isinstance(e, ast.Call) and isinstance(e.func, ast.Name) and e.func.id in _WRAP_SET and \
            not e.args and not e.keywords:
        return frozenset(), True
    if isinstance(e, ast.BinOp) and isinstance(e.op, (ast.BitOr, ast.Add)):
        a, b = rec(e.left), rec(e.right)
        if a is None or b is None:
            return None
        # `|` is defined on sets only: its result is a set
        return _norm(a[0] | b[0]), isinstance(e.op, ast.BitOr)
    if isinstance(e, ast.Call) and isinstance(e.func, ast.Attribute) and \
            e.func.attr == 'union' and not e.keywords:
        parts = [rec(e.func.value)] + [rec(a) for a in e.args]
        if any(p is None for p in parts):
            return None
        return frozenset().union(*(p[0] for p in parts)), True
    if isinstance(e, (ast.Set, ast.List, ast.Tuple)):
        atoms = set()
        for x in e.elts:
            if isinstance(x, ast.Starred):
                d = rec(x.value)
                if d is None:
                    return None
                atoms |= d[0]
            else:
                atoms.add('elt:' + src(x))
        return frozenset(atoms), isinstance(e, ast.Set) or len(e.elts) <= 1
    if isinstance(e, (ast.SetComp, ast.ListComp, ast.GeneratorExp)) and \
            len(e.generators) == 1 and e.generators[0].ifs and \
            isinstance(e.generators[0].target, ast.Name) and \
            isinstance(e.elt, ast.Name) and e.elt.id == e.generators[0].target.id:
        # a filtered copy: `xs` without one named element, or some unnamed part of xs
        d = rec(e.generators[0].iter)
        if d is None or len(d[0]) != 1:
            return None
        (xs,) = d[0]
        v, ifs = e.elt.id, e.generators[0].ifs
        t = ifs[0]
        if len(ifs) == 1 and isinstance(t, ast.Compare) and len(t.ops) == 1 and \
                isinstance(t.ops[0], (ast.IsNot, ast.NotEq)) and \
                {src(t.left), src(t.comparators[0])} - {v} and v in (src(t.left),
                                                                     src(t.comparators[0])):
            (other,) = {src(t.left), src(t.comparators[0])} - {v}
            return frozenset({f'{xs} without {other}'}), isinstance(e, ast.SetComp) or d[1]
        return frozenset({f'part of {xs}'}), isinstance(e, ast.SetComp) or d[1]
    if isinstance(e, (ast.SetComp, ast.ListComp, ast.GeneratorExp)) and \
            len(e.generators) == 1 and not e.generators[0].ifs and \
            isinstance(e.generators[0].target, ast.Name) and \
            isinstance(e.elt, ast.Name) and e.elt.id == e.generators[0].target.id:
        d = rec(e.generators[0].iter)           # `[x for x in xs]`: a copy of xs
        if d is None:
            return None
        return d[0], isinstance(e, ast.SetComp) or d[1]
    return None
