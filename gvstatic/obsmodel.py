"""Extraction of the observation pipeline of observation_functions.from_visibility and of
Grid.subgrid, shared by C05, C07 and C03."""
from __future__ import annotations

import ast
from typing import Dict, List, Optional, Tuple

from .affine import Aff, NonAffine, aff_of
from .core import AnalysisError, src
from .geom import GRID, A, GeoInterp, Geometry, IndexMap, P
from .guards import (GuardWalk, atoms_of, f_and, formula_of, role_rename, show, strip_iter,
                     walk_function)
from .index import Func, RepoIndex

OBS = 'gym_gridverse/envs/observation_functions.py'
GEOMF = 'gym_gridverse/geometry.py'


class SubgridUnmodelled(AnalysisError):
    """Grid.subgrid is written in a way the slice model does not cover; `shared` lists the
    returns that definitely hand out this grid's own rows (decidable without the model)"""

    def __init__(self, msg: str, shared=()):
        super().__init__(msg)
        self.shared = list(shared)


class Subgrid:
    """Grid.subgrid as data: slice[r][c] = objects[row(r)][col(c)] if <inside> else <pad>"""

    def __init__(self, index: RepoIndex):
        self.index = index
        f = index.func(GRID, 'Grid.subgrid')
        self.func = f
        body = f.body()
        w = walk_function(f.node)
        rets = [e for e in w.events if e.kind == 'return' and e.value is not None]
        self.area_param = f.node.args.args[1].arg
        self.aliasing_returns = []   # returns that hand out this grid's own storage
        good = []
        for e in rets:
            # (outer locals read by an inlined local function are expanded afterwards)
            r = w.expand(self._inline_local_cells(w, w.expand(e.value)))
            rows = r.args[0] if (isinstance(r, ast.Call) and src(r.func) == 'Grid'
                                 and len(r.args) == 1) else None
            row = self._row(rows.elt) if rows is not None and isinstance(rows, ast.ListComp) \
                and len(rows.generators) == 1 else None
            if row is not None:
                good.append((e, r, rows, row))
            else:
                self.aliasing_returns.append((e, src(r)[:100]))
        if not good:
            synth = self._fill_and_copy(f, w)
            if synth is not None:
                e0, call = synth
                rows = call.args[0]
                good.append((e0, call, rows, self._row(rows.elt)))
                self.aliasing_returns = []
                self.fill_and_copy = True
        self.mismatches: List[str] = []
        self.spelling = 'comprehension' if good else ''
        if not good:
            # rows assembled from segments (slice and pad, per-cell rows built by a local
            # function / loop): the structure is read, the bounds are compared with the
            # documented slice, and the model continues on the comprehension they denote
            from . import rowsegs
            seg = rowsegs.read(index, f)
            if seg is not None:
                pads, self.mismatches, self.spelling = seg
                ap = self.area_param
                call = ast.parse(
                    f'Grid([[self.objects[y][x] if 0 <= y < self.shape.height and '
                    f'0 <= x < self.shape.width else {src(pads[0])} '
                    f'for x in {ap}.x_coordinates()] for y in {ap}.y_coordinates()])',
                    mode='eval').body
                rows = call.args[0]
                good.append((rets[-1], call, rows, self._row(rows.elt)))
                self.aliasing_returns = []
                self.extra_pads = pads[1:]
        self.returns_self = bool(self.aliasing_returns)
        if not good:
            shared = self._shared_rows(w, rets)
            if self.aliasing_returns:
                e, t = self.aliasing_returns[0]
                raise SubgridUnmodelled(
                    'Grid.subgrid rows are not a nested list comprehension: '
                    f'`{t}` (outside the grammar; freshness and order unknown)', shared)
            raise SubgridUnmodelled('Grid.subgrid: no comprehension return', shared)
        self.fresh_outer = True
        self.fresh_rows = True
        self.walk = w
        models = []
        for e, r, rows, row in good:
            og = rows.generators[0]
            if og.ifs or not isinstance(og.target, ast.Name):
                raise AnalysisError('Grid.subgrid comprehension has filters / tuple targets')
            inner_var, inner_iter, elt = row
            leaves = self._leaves(elt)
            cells = [l for l in leaves if self._is_cell(l)]
            pads = [l for l in leaves if not self._is_cell(l)]
            if len({src(c) for c in cells}) != 1:
                raise AnalysisError(f'Grid.subgrid element `{src(elt)[:80]}` does not read one '
                                    f'cell of this grid')
            models.append({'event': e, 'rows': rows, 'outer_var': og.target.id,
                           'inner_var': inner_var, 'outer_range': self._range(og.iter),
                           'inner_range': self._range(inner_iter), 'elt': elt,
                           'cell': cells[0], 'pads': pads,
                           'test': self._inside_test(elt) if pads else ast.Constant(True),
                           'guard': w.expand_formula(strip_iter(e.guard))})
        base = models[-1]        # the last return is the general case
        for m_ in models[:-1]:
            same = m_['outer_range'][1:] == base['outer_range'][1:] and \
                m_['inner_range'][1:] == base['inner_range'][1:]
            import copy
            from .inline import _Rename
            ren = _Rename({m_['outer_var']: base['outer_var'], m_['inner_var']: base['inner_var']})
            same = same and src(ren.visit(copy.deepcopy(m_['cell']))) == src(base['cell'])
            if not same:
                raise AnalysisError('Grid.subgrid: its return paths slice different ranges / cells')
            m_['test'] = ren.visit(copy.deepcopy(m_['test']))
        self.rows_expr = base['rows']
        self.outer_var, self.inner_var = base['outer_var'], base['inner_var']
        self.outer_range, self.inner_range = base['outer_range'], base['inner_range']
        self.elt = base['elt']
        self.inside_val = base['cell']
        self.pad_vals = [p_ for m_ in models for p_ in m_['pads']] + \
            list(getattr(self, 'extra_pads', []))
        self.pad_val = self.pad_vals[0] if self.pad_vals else None
        # test(row, col, area bounds, grid size): the element is the cell (not padding), the
        # return path being selected by its guard
        test = base['test']
        for m_ in reversed(models[:-1]):
            try:
                gexpr = ast.parse(show(m_['guard']), mode='eval').body
            except SyntaxError:
                raise AnalysisError('Grid.subgrid: return guard outside the grammar')
            test = ast.IfExp(gexpr, m_['test'], test)
        self.test = test if self.pad_vals else None
        self.n_returns = len(models)
        if getattr(self, 'fill_and_copy', False):
            self.n_returns = 2      # the test mentions the area bounds: enumerate small areas
        self.cond = formula_of(self.test) if self.test is not None else None

    @staticmethod
    def _inline_local_cells(w, e: ast.AST) -> ast.AST:
        """a nested one-expression helper that picks the cell for a position
        (`def cell(position): return self.objects[position.y][position.x] if .. else pad()`) is
        read at its call sites, and `Position(a, b).y` / `.x` are the coordinates given"""
        import copy
        from .inline import _SubstNames, pure_body_expr
        helpers = {}
        for name, node in getattr(w, 'local_funcs', {}).items():
            b = pure_body_expr(node)
            if b is not None and not node.args.vararg and not node.args.kwarg:
                helpers[name] = ([a.arg for a in node.args.args], b)
        if not helpers:
            return e

        class T(ast.NodeTransformer):
            def visit_Call(self, n: ast.Call):
                self.generic_visit(n)
                if isinstance(n.func, ast.Name) and n.func.id in helpers and not n.keywords \
                        and len(n.args) == len(helpers[n.func.id][0]):
                    ps, b = helpers[n.func.id]
                    return _SubstNames(dict(zip(ps, n.args))).visit(copy.deepcopy(b))
                return n

        class P(ast.NodeTransformer):
            def visit_Attribute(self, n: ast.Attribute):
                self.generic_visit(n)
                if n.attr in ('y', 'x') and isinstance(n.value, ast.Call) and \
                        src(n.value.func) == 'Position' and len(n.value.args) == 2 and \
                        not n.value.keywords:
                    return n.value.args[0 if n.attr == 'y' else 1]
                return n
        out = P().visit(T().visit(copy.deepcopy(e)))
        return ast.parse(ast.unparse(ast.fix_missing_locations(out)), mode='eval').body

    @staticmethod
    def _shared_rows(w, rets):
        """returns whose rows are, on some path, this grid's own row lists: `Grid(X)` / `X`
        with X = self.objects, a slice of it, or a shallow copy of it"""
        out = []
        for e in rets:
            v = e.value
            if isinstance(v, ast.Call) and src(v.func) == 'Grid' and len(v.args) == 1:
                v = v.args[0]
            for val, _g in w._values(v, e.guard):
                t = val
                if isinstance(t, ast.Call) and src(t.func) in ('list', 'tuple') and \
                        len(t.args) == 1:
                    t = t.args[0]
                if isinstance(t, ast.Subscript) and isinstance(t.slice, ast.Slice):
                    t = t.value
                if src(t) in ('self.objects', 'self'):
                    out.append((e, src(val)[:80]))
                # rows produced by a local function / an accumulation loop: on some path (in
                # the propositional sense: every test a free boolean) a row is one of this
                # grid's own row lists, neither sliced, copied nor concatenated
                rows_e = w.expand(val) if isinstance(val, ast.Name) else val
                if isinstance(rows_e, ast.ListComp) and isinstance(rows_e.elt, ast.Call) and \
                        isinstance(rows_e.elt.func, ast.Name) and \
                        rows_e.elt.func.id in getattr(w, 'local_funcs', {}):
                    h = w.local_funcs[rows_e.elt.func.id]
                    w2 = walk_function(h)
                    for r2 in [x for x in w2.events if x.kind == 'return'
                               and x.value is not None]:
                        for v2, g2 in w2._values(r2.value, r2.guard):
                            v2 = w2.expand(v2) if isinstance(v2, ast.Name) else v2
                            if isinstance(v2, ast.Subscript) and \
                                    not isinstance(v2.slice, ast.Slice) and \
                                    src(v2.value) == 'self.objects':
                                from .guards import prop_assignments, prop_truth
                                try:
                                    sat = any(prop_truth(strip_iter(g2), a_)
                                              for a_ in prop_assignments(strip_iter(g2)))
                                except AnalysisError:
                                    sat = True
                                if sat:
                                    out.append((e, f'{rows_e.elt.func.id}(..) returns '
                                                   f'`{src(v2)}` on the path {show(g2)[:120]}'))
        return out

    # ------------------------------------------------------------------ fill and copy
    def _fill_and_copy(self, f, w):
        """third spelling of the slice: allocate an all-padding grid of the area's shape, then
        copy the cells of a box R of world positions into it, shifted by the area's origin.
        Returns (return event, synthetic `Grid([[cell if <in R> else pad for x ..] for y ..])`)
        -- the comprehension this code is equivalent to -- or None when the function is not
        written this way.  Established here, structurally: every return hands out the same
        freshly filled storage; the only store into it is the copy; source and target of the
        copy differ by the area's origin; R is a box whose bounds are expressions of the area
        and the grid, and the copy runs under the condition extracted as its guard.  Two copy
        loops are understood: per position (`for p in R.positions(): G[p - origin] = self[p]`)
        and per row with slices (`for y, row in enumerate(self.objects[ylo:yhi + 1], ylo):
        G[y - ymin][xlo - xmin:xhi - xmin + 1] = row[xlo:xhi + 1]`)."""
        import copy
        from .guards import dims_of
        from .inline import _SubstNames, pure_body_expr
        ap = self.area_param
        rets = [e for e in w.events if e.kind == 'return' and e.value is not None]
        gs = set()
        for e in rets:
            v = e.value
            if isinstance(v, ast.Call) and src(v.func) == 'Grid' and len(v.args) == 1 and \
                    not v.keywords:
                v = v.args[0]
            if not isinstance(v, ast.Name):
                return None
            gs.add((v.id, isinstance(e.value, ast.Call)))
        if len(gs) != 1:
            return None
        g, wrapped = next(iter(gs))
        d = w.sole_binding(g)
        if d is None or d[0] != 'value':
            return None
        fill = w.expand(d[1])
        pad = None
        if not wrapped and isinstance(fill, ast.Call) and \
                src(fill.func) == 'Grid.from_shape' and len(fill.args) == 1:
            kw = {k.arg: k.value for k in fill.keywords}
            dims = dims_of(fill.args[0])
            if dims is None and isinstance(fill.args[0], ast.Attribute) and \
                    fill.args[0].attr == 'shape' and src(fill.args[0].value) == ap:
                dims = [f'{ap}.height', f'{ap}.width']
            if dims != [f'{ap}.height', f'{ap}.width'] or set(kw) != {'factory'}:
                return None
            fs = self.index.func(GRID, 'Grid.from_shape')
            ok = any(isinstance(s_, ast.Assign) and 'factory()' in src(s_.value) and
                     'range(width)' in src(s_.value) and 'range(height)' in src(s_.value)
                     for s_ in ast.walk(fs.node))
            if not ok:
                raise AnalysisError('Grid.from_shape is not rows of factory() per cell')
            pad = ast.Call(kw['factory'], [], [])
        elif wrapped and isinstance(fill, ast.ListComp) and len(fill.generators) == 1 and \
                isinstance(fill.elt, ast.ListComp) and len(fill.elt.generators) == 1 and \
                not fill.generators[0].ifs and not fill.elt.generators[0].ifs:
            oi, ii = src(fill.generators[0].iter), src(fill.elt.generators[0].iter)
            if oi not in (f'{ap}.y_coordinates()', f'range({ap}.height)') or \
                    ii not in (f'{ap}.x_coordinates()', f'range({ap}.width)'):
                return None
            pad = fill.elt.elt
            used = {n.id for n in ast.walk(pad) if isinstance(n, ast.Name)}
            bound = {n.id for g_ in (fill.generators[0], fill.elt.generators[0])
                     for n in ast.walk(g_.target) if isinstance(n, ast.Name)}
            if used & bound or not isinstance(pad, ast.Call):
                return None
        else:
            return None
        stores = [e for e in w.events if e.kind in ('store', 'augstore', 'attrstore', 'delete')
                  and src(e.target).split('[')[0].split('.')[0] == g]
        muts = [e for e in w.events if e.kind == 'call' and isinstance(e.node.func, ast.Attribute)
                and src(e.node.func.value).split('[')[0] == g]
        if len(stores) != 1 or stores[0].kind != 'store' or len(stores[0].loops) != 1 or muts:
            return None
        st = stores[0]
        tvar, it = st.loops[0]
        tgt = st.target
        empty = None
        rname = None
        if isinstance(tvar, ast.Name) and isinstance(it, ast.Call) and \
                isinstance(it.func, ast.Attribute) and it.func.attr == 'positions' and \
                not it.args and not it.keywords and isinstance(it.func.value, ast.Name) and \
                not wrapped:
            # ---- per position
            rname = it.func.value.id
            p = tvar.id
            if src(st.value) not in (f'self[{p}]', f'self.objects[{p}.y][{p}.x]',
                                     f'self[{p}.y, {p}.x]'):
                return None
            if not (isinstance(tgt, ast.Subscript) and src(tgt.value) == g):
                return None
            sl = w.expand(tgt.slice, stop=[p])
            origin = f'Position({ap}.ymin, {ap}.xmin)'
            if src(sl) not in (f'{p} - {origin}',
                               f'Position({p}.y - {ap}.ymin, {p}.x - {ap}.xmin)',
                               f'({p}.y - {ap}.ymin, {p}.x - {ap}.xmin)'):
                raise AnalysisError(f'Grid.subgrid copies `self[{p}]` to `{src(sl)}`: not the '
                                    f'position relative to the area origin (outside the '
                                    f'grammar)')
            rd = w.sole_binding(rname)
            if rd is None or rd[0] != 'value':
                return None
            region = rd[1]
            if isinstance(region, ast.Call) and isinstance(region.func, ast.Attribute) and \
                    src(region.func) != 'Area':
                recv = src(region.func.value)
                am = self.index.cls(GEOMF, 'Area').methods.get(region.func.attr)
                if am is None or recv not in ('self.area', ap) or region.keywords:
                    return None
                body = pure_body_expr(am.node)
                params = [a_.arg for a_ in am.node.args.args]
                if body is None or len(params) != 1 + len(region.args):
                    raise AnalysisError(f'Area.{region.func.attr} is not a pure expression')
                mp = dict(zip(params, [region.func.value] + list(region.args)))
                region = _SubstNames(mp).visit(copy.deepcopy(body))
            region = w.expand(region)
            if isinstance(region, ast.IfExp):
                a_none = isinstance(region.body, ast.Constant) and region.body.value is None
                b_none = isinstance(region.orelse, ast.Constant) and \
                    region.orelse.value is None
                if a_none == b_none:
                    return None
                empty = region.test if a_none else ast.UnaryOp(ast.Not(), region.test)
                region = region.orelse if a_none else region.body
            if not (isinstance(region, ast.Call) and src(region.func) == 'Area'
                    and len(region.args) == 2 and not region.keywords
                    and all(isinstance(a_, ast.Tuple) and len(a_.elts) == 2
                            for a_ in region.args)):
                return None
            (ylo, yhi), (xlo, xhi) = (a_.elts for a_ in region.args)
        elif isinstance(tvar, ast.Tuple) and len(tvar.elts) == 2 and \
                all(isinstance(t_, ast.Name) for t_ in tvar.elts) and \
                isinstance(it, ast.Call) and src(it.func) == 'enumerate' and wrapped:
            # ---- per row, with slices
            yv, rv = tvar.elts[0].id, tvar.elts[1].id
            kw = {k.arg: k.value for k in it.keywords}
            start = kw.get('start', it.args[1] if len(it.args) > 1 else None)
            rows = it.args[0] if it.args else None
            if start is None or not (isinstance(rows, ast.Subscript)
                                     and src(rows.value) == 'self.objects'
                                     and isinstance(rows.slice, ast.Slice)
                                     and rows.slice.step is None
                                     and rows.slice.lower is not None
                                     and rows.slice.upper is not None):
                return None
            ex = lambda n_: w.expand(n_, stop=[yv, rv])

            def sym(e_):
                return Aff.sym('@' + src(e_))

            def aff(e_):
                return aff_of(ex(e_), lambda x_: None if isinstance(x_, (ast.BinOp, ast.Constant, ast.UnaryOp)) else sym(x_))
            try:
                ylo_e, yhi1 = ex(rows.slice.lower), aff(rows.slice.upper)
                if aff(start) != aff(rows.slice.lower):
                    raise AnalysisError('Grid.subgrid: rows are not enumerated from the first '
                                        'copied row (outside the grammar)')
                # target row and column slice, source column slice
                if not (isinstance(tgt, ast.Subscript) and isinstance(tgt.value, ast.Subscript)
                        and src(tgt.value.value) == g):
                    return None
                trow = aff(tgt.value.slice)
                cs = ex(tgt.slice)
                if isinstance(cs, ast.Call) and src(cs.func) == 'slice' and len(cs.args) == 2:
                    ta, tb = aff(cs.args[0]), aff(cs.args[1])
                elif isinstance(cs, ast.Slice) and cs.step is None and cs.lower is not None \
                        and cs.upper is not None:
                    ta, tb = aff(cs.lower), aff(cs.upper)
                else:
                    return None
                v = st.value
                if not (isinstance(v, ast.Subscript) and src(v.value) == rv
                        and isinstance(v.slice, ast.Slice) and v.slice.step is None
                        and v.slice.lower is not None and v.slice.upper is not None):
                    return None
                sa, sb = aff(v.slice.lower), aff(v.slice.upper)
                ymin_s, xmin_s = sym(ast.parse(f'{ap}.ymin', mode='eval').body), \
                    sym(ast.parse(f'{ap}.xmin', mode='eval').body)
                if trow != Aff.sym('@' + yv) - ymin_s or ta != sa - xmin_s or tb != sb - xmin_s:
                    raise AnalysisError('Grid.subgrid: the copied window is not shifted by the '
                                        'area origin (outside the grammar)')
            except NonAffine as e_:
                raise AnalysisError(f'Grid.subgrid slice bound not affine: {e_}')
            xlo = ex(v.slice.lower)
            ylo = ylo_e

            def minus1(e_):
                e_ = ex(e_)
                if isinstance(e_, ast.BinOp) and isinstance(e_.op, ast.Add) and \
                        isinstance(e_.right, ast.Constant) and e_.right.value == 1:
                    return e_.left
                return ast.BinOp(e_, ast.Sub(), ast.Constant(1))
            yhi, xhi = minus1(rows.slice.upper), minus1(v.slice.upper)
            # Python slices clip at the end and wrap below zero: the box reading is exact only
            # for bounds of the form max(.., 0) / min(..)
            for lo_ in (ylo, xlo):
                if not (isinstance(lo_, ast.Call) and src(lo_.func) == 'max'
                        and any(isinstance(a_, ast.Constant) and a_.value == 0
                                for a_ in lo_.args)):
                    raise AnalysisError(f'Grid.subgrid: slice lower bound `{src(lo_)}` is not '
                                        f'max(.., 0) (outside the grammar)')
            for hi_ in (yhi, xhi):
                if not (isinstance(hi_, ast.Call) and src(hi_.func) == 'min'):
                    raise AnalysisError(f'Grid.subgrid: slice upper bound `{src(hi_)}` is not '
                                        f'min(..) (outside the grammar)')
        else:
            return None
        # the condition under which the copy runs
        guard = w.expand_formula(strip_iter(st.guard), stop=[rname] if rname else [])
        try:
            gexpr = ast.parse(show(guard), mode='eval').body if guard != ('true',) \
                else ast.Constant(True)
        except SyntaxError:
            raise AnalysisError('Grid.subgrid: copy guard outside the grammar')
        if rname is not None:
            class NoneTests(ast.NodeTransformer):
                def visit_Compare(self, n):
                    if len(n.ops) == 1 and isinstance(n.left, ast.Name) and \
                            n.left.id == rname and isinstance(n.comparators[0], ast.Constant) \
                            and n.comparators[0].value is None and empty is not None:
                        if isinstance(n.ops[0], (ast.Is, ast.Eq)):
                            return copy.deepcopy(empty)
                        if isinstance(n.ops[0], (ast.IsNot, ast.NotEq)):
                            return ast.UnaryOp(ast.Not(), copy.deepcopy(empty))
                    return n
            gexpr = NoneTests().visit(gexpr)
            if rname in {n.id for n in ast.walk(gexpr) if isinstance(n, ast.Name)}:
                raise AnalysisError('Grid.subgrid: the copy guard tests the overlap in a way '
                                    'outside the grammar')
            if empty is not None and isinstance(gexpr, ast.Constant):
                raise AnalysisError('Grid.subgrid: an Optional overlap is iterated without a '
                                    'None test (outside the grammar)')
        y, x = ast.Name('y', ast.Load()), ast.Name('x', ast.Load())
        inside = ast.BoolOp(ast.And(), [
            gexpr,
            ast.Compare(ylo, [ast.LtE(), ast.LtE()], [y, yhi]),
            ast.Compare(xlo, [ast.LtE(), ast.LtE()], [x, xhi])])
        cell = ast.Subscript(ast.Name('self', ast.Load()), ast.Tuple([y, x], ast.Load()),
                             ast.Load())
        elt = ast.IfExp(inside, cell, pad)

        def coords(axis: str) -> ast.AST:
            return ast.Call(ast.Attribute(ast.Name(ap, ast.Load()), f'{axis}_coordinates',
                                          ast.Load()), [], [])
        inner = ast.ListComp(elt, [ast.comprehension(ast.Name('x', ast.Store()), coords('x'),
                                                     [], 0)])
        outer = ast.ListComp(inner, [ast.comprehension(ast.Name('y', ast.Store()), coords('y'),
                                                       [], 0)])
        call = ast.Call(ast.Name('Grid', ast.Load()), [outer], [])
        ast.fix_missing_locations(call)
        return rets[-1], ast.parse(src(call), mode='eval').body

    def _row(self, e: ast.AST):
        """(inner variable, inner iterable, element) of a row expression: a comprehension, or
        a conditional choice between comprehensions over the same iterable"""
        if isinstance(e, ast.ListComp) and len(e.generators) == 1 and \
                not e.generators[0].ifs and isinstance(e.generators[0].target, ast.Name):
            g = e.generators[0]
            return g.target.id, g.iter, e.elt
        if isinstance(e, ast.IfExp):
            a, b = self._row(e.body), self._row(e.orelse)
            if a is None or b is None or src(a[1]) != src(b[1]):
                return None
            var = a[0] if not a[0].startswith('_') else b[0]
            import copy
            from .inline import _Rename
            ea = _Rename({a[0]: var}).visit(copy.deepcopy(a[2]))
            eb = _Rename({b[0]: var}).visit(copy.deepcopy(b[2]))
            if var in {n.id for n in ast.walk(e.test) if isinstance(n, ast.Name)}:
                return None
            return var, a[1], ast.IfExp(e.test, ea, eb)
        return None

    def _leaves(self, e: ast.AST) -> List[ast.AST]:
        if isinstance(e, ast.IfExp):
            return self._leaves(e.body) + self._leaves(e.orelse)
        return [e]

    @staticmethod
    def _is_cell(v: ast.AST) -> bool:
        t = v
        while isinstance(t, ast.Subscript):
            t = t.value
        return isinstance(v, ast.Subscript) and src(t) in ('self.objects', 'self')

    def _inside_test(self, e: ast.AST) -> ast.AST:
        if isinstance(e, ast.IfExp):
            return ast.IfExp(e.test, self._inside_test(e.body), self._inside_test(e.orelse))
        return ast.Constant(self._is_cell(e))

    def _range(self, it: ast.AST) -> Tuple[str, Aff, Aff]:
        """(axis, first, last) of the iterated coordinates, in area symbols"""
        s = src(it)
        ap = self.area_param
        env = {f'{ap}.ymin': Aff.sym('ymin'), f'{ap}.ymax': Aff.sym('ymax'),
               f'{ap}.xmin': Aff.sym('xmin'), f'{ap}.xmax': Aff.sym('xmax')}
        if isinstance(it, ast.Name) and hasattr(self, 'walk'):
            it = self.walk.expand(it)
        if isinstance(it, ast.Call) and src(it.func) in ('list', 'tuple') and len(it.args) == 1:
            it = it.args[0]
        if isinstance(it, ast.Call) and isinstance(it.func, ast.Attribute) \
                and src(it.func.value) == ap and it.func.attr in ('y_coordinates',
                                                                 'x_coordinates'):
            m = self.index.func(GEOMF, f'Area.{it.func.attr}')
            b = m.body()
            if not (len(b) == 1 and isinstance(b[0], ast.Return)):
                raise AnalysisError(f'Area.{it.func.attr} is not a single return')
            it2 = b[0].value
            env = {'self.ymin': Aff.sym('ymin'), 'self.ymax': Aff.sym('ymax'),
                   'self.xmin': Aff.sym('xmin'), 'self.xmax': Aff.sym('xmax')}
            it = it2
        if isinstance(it, ast.Call) and src(it.func) == 'range' and len(it.args) == 2:
            try:
                lo = aff_of(it.args[0], lambda e: env.get(src(e)))
                hi = aff_of(it.args[1], lambda e: env.get(src(e))) - 1
            except NonAffine as e:
                raise AnalysisError(f'Grid.subgrid range bound not affine: {e}')
            return (s, lo, hi)
        raise AnalysisError(f'Grid.subgrid iterates over `{s}`: not a range of coordinates')

    def cell_index(self) -> Tuple[str, str]:
        """the (row, col) subscripts of the in-grid value, e.g. ('y', 'x')"""
        v = self.inside_val
        if isinstance(v, ast.Subscript) and isinstance(v.value, ast.Subscript) and \
                src(v.value.value) == 'self.objects':
            return src(v.value.slice), src(v.slice)
        if isinstance(v, ast.Subscript) and src(v.value) == 'self':
            sl = v.slice
            if isinstance(sl, ast.Tuple) and len(sl.elts) == 2:
                return src(sl.elts[0]), src(sl.elts[1])
            if isinstance(sl, ast.Call) and src(sl.func) == 'Position' and len(sl.args) == 2:
                return src(sl.args[0]), src(sl.args[1])
        raise AnalysisError(f'Grid.subgrid element `{src(v)}` is not a cell of this grid')


def masked_copy(e: ast.AST):
    """(view grid name, visibility name) when `e` is `Grid([[<cell> if V[y, x] else Hidden() ..]
    ..])` over every row and column of the grid named P, `<cell>` being P's cell (y, x) itself:
    a copy of P in which exactly the cells with a false V are Hidden()"""
    if not (isinstance(e, ast.Call) and src(e.func) == 'Grid' and len(e.args) == 1
            and not e.keywords and isinstance(e.args[0], ast.ListComp)
            and isinstance(e.args[0].elt, ast.ListComp)):
        return None
    outer, inner = e.args[0], e.args[0].elt
    if len(outer.generators) != 1 or len(inner.generators) != 1 or \
            outer.generators[0].ifs or inner.generators[0].ifs:
        return None
    go, gi_ = outer.generators[0], inner.generators[0]
    P = yv = xv = None
    cells = ()
    if isinstance(go.target, ast.Tuple) and len(go.target.elts) == 2 and \
            isinstance(gi_.target, ast.Tuple) and len(gi_.target.elts) == 2 and \
            src(go.iter).startswith('enumerate(') and src(go.iter).endswith('.objects)') and \
            src(gi_.iter) == f'enumerate({src(go.target.elts[1])})':
        P = src(go.iter)[len('enumerate('):-len('.objects)')]
        yv, xv = src(go.target.elts[0]), src(gi_.target.elts[0])
        cells = (src(gi_.target.elts[1]),)
    else:
        from .cellimage import _cols_of, _rows_of2
        gy, gx = _rows_of2(go.iter), _cols_of(gi_.iter)
        if gy is not None and gy == gx and isinstance(go.target, ast.Name) and \
                isinstance(gi_.target, ast.Name):
            P, yv, xv = gy, go.target.id, gi_.target.id
            cells = (f'{P}[{yv}, {xv}]', f'{P}[({yv}, {xv})]', f'{P}.objects[{yv}][{xv}]',
                     f'{P}[Position({yv}, {xv})]')
    if P is None or not P.isidentifier():
        return None
    el = inner.elt
    if not isinstance(el, ast.IfExp):
        return None
    test, a, b = el.test, el.body, el.orelse
    if isinstance(test, ast.UnaryOp) and isinstance(test.op, ast.Not):
        test, a, b = test.operand, b, a
    if not (isinstance(test, ast.Subscript) and isinstance(test.value, ast.Name)
            and src(test.slice) in (f'({yv}, {xv})',)):
        return None
    if src(a) not in cells or src(b) != 'Hidden()':
        return None
    return P, test.value.id


class Pipeline:
    """from_visibility as data"""

    def __init__(self, index: RepoIndex, geo: Geometry):
        self.index = index
        self.geo = geo
        f = index.func(OBS, 'from_visibility')
        self.func = f
        from .view import view
        self.node, self.walk, _ = view(index, f)
        ps = f.params()
        self.state = ps[0].arg
        self.ren = {self.state: 'S'}
        names = {p.arg for p in ps}
        for need in ('area', 'visibility_function', 'rng'):
            if need not in names:
                raise AnalysisError(f'from_visibility lost its `{need}` parameter')
        w = self.walk
        rets = [e for e in w.events if e.kind == 'return' and e.value is not None]
        if len(rets) != 1:
            raise AnalysisError('from_visibility: expected exactly one return')
        self.ret = rets[0]
        r = rets[0].value
        if not (isinstance(r, ast.Call) and src(r.func) == 'Observation'):
            raise AnalysisError('from_visibility does not return Observation(..)')
        args = list(r.args) + [k.value for k in r.keywords]
        kw = {k.arg: k.value for k in r.keywords}
        self.ret_grid = r.args[0] if r.args else kw.get('grid')
        self.ret_agent = r.args[1] if len(r.args) > 1 else kw.get('agent')
        if self.ret_grid is None or self.ret_agent is None:
            raise AnalysisError('from_visibility: Observation(..) lacks grid or agent')
        if not isinstance(self.ret_grid, ast.Name):
            raise AnalysisError('from_visibility returns a grid expression, not the local '
                                'observation grid')
        self.grid_name = self.ret_grid.id
        d = w.sole_binding(self.grid_name)
        if d is None or d[0] != 'value':
            raise AnalysisError(f'from_visibility: `{self.grid_name}` is not assigned once')
        # masking as a pure pass: the returned grid is a cell-by-cell copy of the view in which
        # exactly the invisible cells are Hidden(); the view itself is then the pipeline's grid
        self.pure_mask = None
        pm = masked_copy(d[1])
        if pm is not None:
            dv = w.sole_binding(pm[0])
            if dv is None or dv[0] != 'value':
                raise AnalysisError(f'from_visibility: `{pm[0]}` is not assigned once')
            self.pure_mask = (self.grid_name, pm[0], pm[1], d[1])
            self.ret_grid = ast.copy_location(ast.Name(pm[0], ast.Load()), self.ret_grid)
            self.grid_name = pm[0]
            d = dv
        self.grid_def_order = d[2]
        # geometric expressions are read from the function as written when possible: helper
        # calls inside them are evaluated denotationally by GeoInterp, which is more precise
        # than the statement-level inlining of the view
        self._view_grid_def = w.expand(d[1], self.ren)
        raw = walk_function(f.node)
        rd = raw.sole_binding(self.grid_name)
        rr = [e for e in raw.events if e.kind == 'return' and e.value is not None]
        if rd is not None and rd[0] == 'value' and len(rr) == 1 and \
                isinstance(rr[0].value, ast.Call):
            rk = {k.arg: k.value for k in rr[0].value.keywords}
            ra = rr[0].value.args[1] if len(rr[0].value.args) > 1 else rk.get('agent')
            self.grid_def = raw.expand(rd[1], self.ren)
            self.agent_expr = raw.expand(ra, self.ren, stop=[self.grid_name]) \
                if ra is not None else w.expand(self.ret_agent, self.ren, stop=[self.grid_name])
            # one-expression methods the pinned tree did not have (`agent.pov_area(area)`,
            # `agent.pov(area)`) are the expressions they stand for
            from .inline import inline_methods_by_name
            from .view import VOCABULARY
            self.grid_def = inline_methods_by_name(index, self.grid_def, exclude=VOCABULARY,
                                                   new_only=True)
            self.agent_expr = inline_methods_by_name(index, self.agent_expr,
                                                     exclude=VOCABULARY, new_only=True)
        else:
            self.grid_def = w.expand(d[1], self.ren)
            self.agent_expr = w.expand(self.ret_agent, self.ren, stop=[self.grid_name])
        # visibility call
        self.vis_calls = [e for e in w.events if e.kind == 'call'
                          and src(e.node.func) == 'visibility_function']
        if len(self.vis_calls) != 1:
            raise AnalysisError('from_visibility: expected exactly one visibility call')
        vd = None
        for name, ds in w.defs.items():
            for dd in ds:
                if dd[0] == 'value' and dd[1] is self.vis_calls[0].node:
                    vd = name
        if vd is None:
            raise AnalysisError('from_visibility: visibility result is not bound to a local')
        self.vis_name = vd

    def decompose_grid(self) -> Tuple[ast.AST, ast.AST, ast.AST]:
        """(source grid expr, sliced area expr, rotation orientation expr)"""
        e = self.grid_def
        # a shortcut that skips the slice when the view is the whole grid:
        # `(G if A == G.area else G.subgrid(A)) * o` -- the slice decides everything else,
        # but on the shortcut path the observation grid is built from the state's own rows
        # (a rotation by FORWARD keeps the row lists), which the masking then overwrites
        self.state_grid_shortcut = None
        if isinstance(e, ast.BinOp) and isinstance(e.op, ast.Mult):
            for side in ('left', 'right'):
                v = getattr(e, side)
                if isinstance(v, ast.IfExp):
                    alts = [v.body, v.orelse]
                    own = [a for a in alts if src(a) in ('S.grid',)]
                    sub = [a for a in alts if a not in own]
                    if len(own) == 1 and len(sub) == 1:
                        self.state_grid_shortcut = src(v.test)
                        e = ast.BinOp(sub[0] if side == 'left' else e.left, e.op,
                                      e.right if side == 'left' else sub[0])
                        self.grid_def = e
        r = self._decompose(e)
        if r is None:
            # second reading: the expression was moved into a new method (Grid.view, ...)
            from .inline import inline_methods_by_name
            e2 = inline_methods_by_name(self.index, e, exclude=('subgrid', 'contains',
                                                                 'positions'))
            r = self._decompose(e2)
            if r is not None:
                self.grid_def = e2
        if r is None:
            # third reading: the slice-and-rotate step was moved into a module-level helper
            # (`_pov_grid(state, area)`), which the view reads through
            r = self._decompose(self._view_grid_def)
            if r is not None:
                self.grid_def = self._view_grid_def
        if r is None:
            raise AnalysisError(
                f'from_visibility: observation grid `{src(e)[:100]}` is not '
                f'<grid>.subgrid(<area>) * <orientation>')
        return r

    @staticmethod
    def _decompose(e: ast.AST):
        if isinstance(e, ast.BinOp) and isinstance(e.op, ast.Mult):
            for a, b in ((e.left, e.right), (e.right, e.left)):
                if isinstance(a, ast.Call) and isinstance(a.func, ast.Attribute) \
                        and a.func.attr == 'subgrid' and len(a.args) == 1:
                    return a.func.value, a.args[0], b
        if isinstance(e, ast.Call) and isinstance(e.func, ast.Attribute) \
                and e.func.attr == 'subgrid' and len(e.args) == 1:
            return e.func.value, e.args[0], ast.parse('Orientation.F', mode='eval').body
        return None
