"""Normal form of "the collection of f(cell) over every cell of a grid" (used by the membership
facets of C01.R3 / C15.R7).  `cells_image(index, e)` returns (grid text, element expression
over the name `O` standing for the cell) when `e` enumerates *all* cells of one grid, whatever
mix of `G.area.positions()`, row/column ranges, `G.objects` rows, nested comprehensions,
`set(..)` / `list(..)` wrappers and `G.object_types()` produced it; None when it does not fit.
No filters are accepted: a filtered enumeration is not the whole grid."""
from __future__ import annotations

import ast
import copy
from typing import Dict, Optional, Tuple

from .core import src

_WRAPPERS = ('set', 'frozenset', 'list', 'tuple', 'sorted', 'iter')


class _Sub(ast.NodeTransformer):
    def __init__(self, texts: Dict[str, ast.AST], names: Dict[str, ast.AST]):
        self.texts = texts
        self.names = names

    def visit(self, n):
        if isinstance(n, ast.expr):
            t = self.texts.get(ast.unparse(n)) if self.texts else None
            if t is not None:
                return copy.deepcopy(t)
        if isinstance(n, ast.Name) and isinstance(n.ctx, ast.Load) and n.id in self.names:
            return copy.deepcopy(self.names[n.id])
        return super().visit(n)


def _O() -> ast.Name:
    return ast.Name('O', ast.Load())


def _cols_of(e: ast.AST) -> Optional[str]:
    s = src(e)
    for pat in ('{g}.area.x_coordinates()', 'range({g}.shape.width)', 'range({g}.area.width)',
                'range(len({g}.objects[0]))', 'range({g}.area.xmin, {g}.area.xmax + 1)',
                'range(0, {g}.shape.width)'):
        pre, post = pat.split('{g}')[0], pat.split('{g}')[-1]
        if s.startswith(pre) and s.endswith(post):
            for cut in range(len(pre) + 1, len(s)):
                g = s[len(pre):cut]
                if pat.format(g=g) == s:
                    return g
    return None


def _rows_of2(e: ast.AST) -> Optional[str]:
    s = src(e)
    for pat in ('{g}.area.y_coordinates()', 'range({g}.shape.height)', 'range({g}.area.height)',
                'range(len({g}.objects))', 'range({g}.area.ymin, {g}.area.ymax + 1)',
                'range(0, {g}.shape.height)'):
        pre = pat.split('{g}')[0]
        if s.startswith(pre):
            for cut in range(len(pre) + 1, len(s)):
                g = s[len(pre):cut]
                if pat.format(g=g) == s:
                    return g
    return None


def cells_image(index, e: ast.AST, depth: int = 6) -> Optional[Tuple[str, ast.AST]]:
    if depth < 0 or e is None:
        return None
    if isinstance(e, ast.Call) and src(e.func) in _WRAPPERS and len(e.args) == 1 and \
            not e.keywords:
        return cells_image(index, e.args[0], depth - 1)
    if isinstance(e, ast.Set) and len(e.elts) == 1 and isinstance(e.elts[0], ast.Starred):
        return cells_image(index, e.elts[0].value, depth - 1)
    # map(G.__getitem__, it) / map(G.get, it) / map(lambda p: E, it): the generator it abbreviates
    if isinstance(e, ast.Call) and src(e.func) == 'map' and len(e.args) == 2 and not e.keywords:
        fn, it = e.args
        v = ast.Name('_mp', ast.Load())
        if isinstance(fn, ast.Attribute) and fn.attr in ('__getitem__', 'get'):
            elt: ast.AST = ast.Subscript(fn.value, v, ast.Load())
        elif isinstance(fn, ast.Lambda) and len(fn.args.args) == 1 and not fn.args.defaults:
            elt = _Sub({}, {fn.args.args[0].arg: v}).visit(copy.deepcopy(fn.body))
        else:
            return None
        gen = ast.GeneratorExp(elt, [ast.comprehension(ast.Name('_mp', ast.Store()), it, [], 0)])
        return cells_image(index, ast.fix_missing_locations(gen), depth - 1)
    # chain.from_iterable(G.objects) / chain(*G.objects)
    if isinstance(e, ast.Call) and src(e.func).endswith('chain.from_iterable') and \
            len(e.args) == 1 and src(e.args[0]).endswith('.objects'):
        return src(e.args[0])[:-len('.objects')], _O()
    if isinstance(e, ast.Call) and src(e.func).endswith('chain') and len(e.args) == 1 and \
            isinstance(e.args[0], ast.Starred) and src(e.args[0].value).endswith('.objects'):
        return src(e.args[0].value)[:-len('.objects')], _O()
    # G.object_types() and other one-expression methods of Grid that enumerate its cells
    if isinstance(e, ast.Call) and isinstance(e.func, ast.Attribute) and not e.args and \
            not e.keywords and not e.func.attr.startswith('__'):
        from .inline import _methods_named, pure_body_expr
        cands = [m for m in _methods_named(index, e.func.attr)
                 if m.cls is not None and m.cls.name == 'Grid']
        if len(cands) == 1 and not cands[0].node.decorator_list:
            b = pure_body_expr(cands[0].node)
            ps = cands[0].node.args.args
            if b is not None and len(ps) == 1:
                b = _Sub({}, {ps[0].arg: e.func.value}).visit(copy.deepcopy(b))
                return cells_image(index, b, depth - 1)
        return None
    if not isinstance(e, (ast.ListComp, ast.SetComp, ast.GeneratorExp)):
        return None
    gens = e.generators
    if any(g.ifs or g.is_async for g in gens):
        return None
    if len(gens) == 1 and isinstance(gens[0].target, ast.Name):
        g = gens[0]
        v = g.target.id
        it = g.iter
        # positions of a grid
        if isinstance(it, ast.Call) and isinstance(it.func, ast.Attribute) and \
                it.func.attr == 'positions' and not it.keywords and \
                (not it.args or src(it.args[0]) == "'all'") and \
                src(it.func.value).endswith('.area'):
            G = src(it.func.value)[:-len('.area')]
            texts = {t: _O() for t in (f'{G}[{v}]', f'{G}[{v}.y, {v}.x]', f'{G}[{v}.yx]',
                                       f'{G}.objects[{v}.y][{v}.x]', f'{G}[({v}.y, {v}.x)]',
                                       f'{G}.get({v})', f'{G}[Position({v}.y, {v}.x)]')}
            elt = _Sub(texts, {}).visit(copy.deepcopy(e.elt))
            if any(isinstance(n, ast.Name) and n.id == v for n in ast.walk(elt)):
                return None
            return G, elt
        inner = cells_image(index, it, depth - 1)
        if inner is None:
            return None
        G, ie = inner
        elt = _Sub({}, {v: ie}).visit(copy.deepcopy(e.elt))
        return G, elt
    if len(gens) == 2 and all(isinstance(g.target, ast.Name) for g in gens):
        a, b = gens[0].target.id, gens[1].target.id
        # for row in G.objects for o in row
        if src(gens[0].iter).endswith('.objects') and src(gens[1].iter) == a:
            G = src(gens[0].iter)[:-len('.objects')]
            elt = _Sub({}, {b: _O()}).visit(copy.deepcopy(e.elt))
            if any(isinstance(n, ast.Name) and n.id == a for n in ast.walk(elt)):
                return None
            return G, elt
        gy, gx = _rows_of2(gens[0].iter), _cols_of(gens[1].iter)
        if gy is not None and gy == gx:
            G = gy
            texts = {t: _O() for t in (f'{G}.objects[{a}][{b}]', f'{G}[{a}, {b}]',
                                       f'{G}[({a}, {b})]', f'{G}[Position({a}, {b})]')}
            elt = _Sub(texts, {}).visit(copy.deepcopy(e.elt))
            if any(isinstance(n, ast.Name) and n.id in (a, b) for n in ast.walk(elt)):
                return None
            return G, elt
    return None
