"""E7/E11 geometry as data.

`GeoInterp` computes the *denotation* of the small pure functions of geometry.py (and of
helpers written in their style): the guarded returns of a function are evaluated for concrete
enum arguments and symbolic affine coordinates over the extracted literal tables -- first
return whose dominating guard holds wins.  No statement-level execution, no loops, no heap:
only (guard, value) tables over finite enum valuations.  `Geometry` derives from it, lazily,
the rotation table, negation, heading deltas, the 2x2 matrices and interval maps of
`Orientation.__mul__`, and -- by a separate index-map abstraction -- the grid rotations."""
from __future__ import annotations

import ast
from fractions import Fraction
from typing import Any, Dict, List, Optional, Tuple

from .affine import Aff, NonAffine, aff_of
from .core import AnalysisError, src
from .guards import GuardWalk, f_and, formula_of, show, strip_iter, walk_function
from .index import Cls, Func, Module, RepoIndex

GEOM = 'gym_gridverse/geometry.py'
GRID = 'gym_gridverse/grid.py'
TAG = {'O': 'Orientation', 'P': 'Position', 'A': 'Area', 'T': 'Transform'}


class GeoKeyError(Exception):
    pass


class GeoUndecided(AnalysisError):
    """a test on a symbolic number (`if not dx`, `dy == 0`) that the symbols do not decide;
    rules split the case (geom.split_cases) or report the construct as outside the grammar"""
    def __init__(self, aff, text: str = ''):
        super().__init__(f'geometry guard: `{text or aff}` is zero for some operands and not '
                         f'for others (case not split)')
        self.aff = aff


class GeoResidue(AnalysisError):
    """`x // k` / `x % k` of a symbolic number: the rule splits on the residue of x modulo k
    (geom.split_cases) or reports the construct as outside the grammar"""
    def __init__(self, aff, k: int, text: str = ''):
        super().__init__(f'geometry expression outside the grammar: `{text}`')
        self.aff, self.k = aff, k


class GeoIndexError(GeoKeyError):
    """a sequence index out of range (IndexError, not KeyError)"""


def P(y: str, x: str):
    return ('P', (Aff.sym(y), Aff.sym(x)))


def A(prefix: str = ''):
    return ('A', ((Aff.sym(prefix + 'ymin'), Aff.sym(prefix + 'ymax')),
                  (Aff.sym(prefix + 'xmin'), Aff.sym(prefix + 'xmax'))))


NONE = ('X', 'None')
NOTIMPL = ('X', 'NotImplemented')


class GeoInterp:
    """Values:  ('O', member) | ('E', enum, member) | ('P', (Aff, Aff))
                | ('A', ((Aff, Aff), (Aff, Aff))) | ('T', P-value, O-value) | ('N', Aff)
                | ('U', tuple of values) | ('D', dict node, module) | ('X', text)"""

    def __init__(self, index_or_geo):
        self.index: RepoIndex = getattr(index_or_geo, 'index', index_or_geo)
        self._walks: Dict[int, GuardWalk] = {}
        self._consts: Dict[int, Any] = {}
        self.gmod = self.index.module(GEOM)

    # ------------------------------------------------------------ dispatch
    def method(self, cname: str, mname: str) -> Func:
        c = self.gmod.classes.get(cname)
        if c is None:
            raise AnalysisError(f'anchor vanished: class {cname}')
        m = self.index.method(c, mname)
        if m is None:
            # operator aliases: __rmul__ = __mul__
            alias = c.attrs.get(mname)
            if isinstance(alias, ast.Name):
                m = self.index.method(c, alias.id)
        if m is None:
            raise AnalysisError(f'anchor vanished: {cname}.{mname}')
        return m

    def op(self, cname: str, mname: str, me, *others):
        fn = self.method(cname, mname)
        ps = [a.arg for a in fn.node.args.args]
        bound = dict(zip(ps, (me,) + others))
        return self._call(fn, bound)

    def mul(self, a, b):
        if a[0] in ('O', 'T'):
            return self.op(TAG[a[0]], '__mul__', a, b)
        if b[0] in ('O', 'T'):     # __rmul__ = __mul__
            c = self.gmod.classes.get(TAG[b[0]])
            al = c.attrs.get('__rmul__') if c else None
            if isinstance(al, ast.Name) and al.id == '__mul__':
                return self.op(TAG[b[0]], '__mul__', b, a)
        raise AnalysisError(f'cannot multiply {a[0]} * {b[0]}')

    def add(self, a, b):
        if a[0] == 'P':
            return self.op('Position', '__add__', a, b)
        if b[0] == 'P':
            c = self.gmod.classes.get('Position')
            al = c.attrs.get('__radd__') if c else None
            if isinstance(al, ast.Name) and al.id == '__add__':
                return self.op('Position', '__add__', b, a)
        raise AnalysisError(f'cannot add {a[0]} + {b[0]}')

    def neg(self, v):
        if v[0] in TAG and v[0] != 'A':
            return self.op(TAG[v[0]], '__neg__', v)
        raise AnalysisError(f'cannot negate {v[0]}')

    # convenience names used by the rules
    def o_mul_o(self, a, b):
        return self.mul(a, b)

    def o_mul_p(self, o, p):
        return self.mul(o, p)

    def o_mul_a(self, o, a):
        return self.mul(o, a)

    def p_add_p(self, p, q):
        return self.add(p, q)

    def p_add_a(self, p, a):
        return self.add(p, a)

    def p_sub_p(self, p, q):
        return self.op('Position', '__sub__', p, q)

    # ---------------------------------------------------------------- eval
    def _iterable(self, v):
        """an enum class iterates over its members in definition order"""
        if v[0] == 'K':
            try:
                en = self.index.enum(v[1])
            except Exception:       # noqa: BLE001 - not an enum
                return v
            return ('U', tuple(('O', m) if v[1] == 'Orientation' else ('E', v[1], m)
                               for m in en.members))
        return v

    def eval(self, e: ast.AST, env: Dict[str, Any], module: Optional[Module] = None,
             depth: int = 5):
        module = module or self.gmod
        ev = lambda x: self.eval(x, env, module, depth)
        s = src(e)
        if s in env:
            return env[s]
        if isinstance(e, ast.Constant):
            if isinstance(e.value, bool):
                return ('B', e.value)
            if isinstance(e.value, int):
                return ('N', Aff.const(e.value))
            if e.value is None:
                return NONE
            if isinstance(e.value, str):
                return ('S', e.value)
            raise AnalysisError(f'geometry expression: constant `{s}`')
        if isinstance(e, ast.Name):
            if e.id == 'NotImplemented':
                return NOTIMPL
            # a local of the function being interpreted that the expansion left in place
            # (`swap, negate_y, negate_x = TABLE[self]`): the definition whose path condition
            # holds for these arguments
            frames = getattr(self, '_frames', None)
            if frames and e.id in frames[-1][0].defs and depth > 0:
                w_, bound_, mod_ = frames[-1]
                for kind_, payload_, _n, guard_, loops_ in w_.defs[e.id]:
                    if kind_ not in ('value', 'unpack') or loops_:
                        continue
                    try:
                        if not self.holds(strip_iter(guard_), bound_, mod_, w_, depth - 1):
                            continue
                    except (AnalysisError, GeoKeyError):
                        continue
                    if kind_ == 'value':
                        return self.eval(payload_, bound_, mod_, depth - 1)
                    base_ = self.eval(payload_[0], bound_, mod_, depth - 1)
                    if base_[0] == 'U' and payload_[1] < len(base_[1]):
                        return base_[1][payload_[1]]
            vals = module.assigns.get(e.id)
            tmod = module
            if not vals:
                r = self.index.resolve_name(module, e.id)
                if isinstance(r, tuple) and r and r[0] == 'var':
                    tmod = r[1]
                    vals = tmod.assigns.get(r[2])
            if vals and len(vals) == 1:
                v = vals[0]
                if isinstance(v, ast.Dict):
                    return ('D', v, tmod)
                hit = self._consts.get(id(v))
                if hit is None:
                    if depth <= 0:
                        raise AnalysisError(f'geometry expression: constant `{e.id}` too deep')
                    hit = self._consts[id(v)] = self.eval(v, {}, tmod, depth - 1)
                return hit
            r = self.index.resolve_name(module, e.id)
            if isinstance(r, Func):
                return ('F', r.name)
            if isinstance(r, Cls):
                return ('K', r.name)
            raise AnalysisError(f'geometry expression: unbound name `{e.id}`')
        em = self.index.enum_member(e)
        if em and em[0] == 'Orientation':
            return ('O', em[1])
        if em:
            return ('E', em[0], em[1])
        if isinstance(e, ast.Dict):
            if env and not any(k is None for k in e.keys):
                # inside a function: the entries name its parameters / locals, so the display
                # is evaluated here, not later in the module's own scope
                return ('DV', tuple((self.eval(k, env, module, depth),
                                     self.eval(v, env, module, depth))
                                    for k, v in zip(e.keys, e.values)))
            return ('D', e, module)      # a dict display used as a value (a nested table)
        if isinstance(e, ast.Lambda):
            return ('LAM', e, module)    # applied where it is called (tables of small lambdas)
        if isinstance(e, (ast.Tuple, ast.List, ast.Set)):
            items = []
            for x in e.elts:
                if isinstance(x, ast.Starred):
                    sv = self._iterable(ev(x.value))
                    if sv[0] != 'U':
                        raise AnalysisError(f'geometry expression: `*{src(x.value)}`')
                    items.extend(sv[1])
                else:
                    items.append(ev(x))
            return ('U', tuple(items))
        if isinstance(e, (ast.ListComp, ast.GeneratorExp)) and \
                not any(g.is_async for g in e.generators):
            out = []

            def gens_(i: int, env2: Dict[str, Any]):
                if i == len(e.generators):
                    out.append(self.eval(e.elt, env2, module, depth))
                    return
                g = e.generators[i]
                it = self._iterable(self.eval(g.iter, env2, module, depth))
                if it[0] != 'U':
                    raise AnalysisError(f'geometry expression: comprehension over '
                                        f'`{src(g.iter)}`')
                for item in it[1]:
                    env3 = dict(env2)
                    self._bind(g.target, item, env3)
                    if all(self._truth(self.eval(c, env3, module, depth)) for c in g.ifs):
                        gens_(i + 1, env3)
            gens_(0, dict(env))
            return ('U', tuple(out))
        if isinstance(e, ast.DictComp):
            pairs: List[Tuple[Any, Any]] = []

            def gens(i: int, env2: Dict[str, Any]):
                if i == len(e.generators):
                    pairs.append((self.eval(e.key, env2, module, depth),
                                  self.eval(e.value, env2, module, depth)))
                    return
                g = e.generators[i]
                it = self._iterable(self.eval(g.iter, env2, module, depth))
                if it[0] != 'U':
                    raise AnalysisError(f'geometry expression: comprehension over `{src(g.iter)}`')
                for item in it[1]:
                    env3 = dict(env2)
                    self._bind(g.target, item, env3)
                    if all(self._truth(self.eval(c, env3, module, depth)) for c in g.ifs):
                        gens(i + 1, env3)
            gens(0, dict(env))
            return ('DV', tuple(pairs))
        if isinstance(e, ast.Attribute):
            v = ev(e.value)
            a = e.attr
            if v[0] == 'G':
                return ('X', f'{v[1]}.{a}')
            if v[0] == 'T':
                if a == 'position':
                    return v[1]
                if a == 'orientation':
                    return v[2]
                if a == 'transform':
                    return v
            if v[0] == 'P':
                if a == 'y':
                    return ('N', v[1][0])
                if a == 'x':
                    return ('N', v[1][1])
                if a == 'yx':
                    return ('U', (('N', v[1][0]), ('N', v[1][1])))
            if a == 'value' and v[0] in ('O', 'E'):
                # the integer an enum member stands for (auto() evaluated by position)
                ename = 'Orientation' if v[0] == 'O' else v[1]
                member = v[1] if v[0] == 'O' else v[2]
                info = self.index.enum(ename)
                if member in info.members:
                    return ('N', Aff.const(info.members[member]))
            if v[0] == 'A':
                (ymin, ymax), (xmin, xmax) = v[1]
                table = {'ymin': ymin, 'ymax': ymax, 'xmin': xmin, 'xmax': xmax,
                         'height': ymax - ymin + 1, 'width': xmax - xmin + 1}
                if a in table:
                    return ('N', table[a])
                if a == 'ys':
                    return ('U', (('N', ymin), ('N', ymax)))
                if a == 'xs':
                    return ('U', (('N', xmin), ('N', xmax)))
            raise AnalysisError(f'geometry expression: `{s}`')
        if isinstance(e, ast.Subscript):
            v = ev(e.value)
            if v[0] == 'U' and not isinstance(e.slice, ast.Slice):
                i = ev(e.slice)
                if i[0] == 'N' and i[1].is_const() and -len(v[1]) <= int(i[1].k) < len(v[1]):
                    return v[1][int(i[1].k)]
                if i[0] == 'N' and i[1].is_const():
                    raise GeoIndexError(int(i[1].k))
                raise AnalysisError(f'geometry expression: index `{s}`')
            if v[0] in ('D', 'DV'):
                return self.lookup(v, ev(e.slice), depth)
            raise AnalysisError(f'geometry expression: `{s}`')
        if isinstance(e, ast.UnaryOp) and isinstance(e.op, ast.USub):
            v = ev(e.operand)
            if v[0] == 'N':
                return ('N', -v[1])
            return self.neg(v)
        if isinstance(e, ast.UnaryOp) and isinstance(e.op, ast.Not):
            return ('B', not self._truth(ev(e.operand)))
        if isinstance(e, ast.BoolOp):
            # short-circuit, as Python does: `lo is None or value < lo`
            is_and = isinstance(e.op, ast.And)
            for v in e.values:
                t_ = self._truth(ev(v))
                if t_ != is_and:
                    return ('B', t_)
            return ('B', is_and)
        if isinstance(e, ast.IfExp):
            return ev(e.body) if self._truth(ev(e.test)) else ev(e.orelse)
        if isinstance(e, ast.Compare) and len(e.ops) == 1:
            return ('B', self._compare(e, env, module, depth))
        if isinstance(e, ast.BinOp):
            a, b = ev(e.left), ev(e.right)
            if a[0] == b[0] == 'N':
                if isinstance(e.op, ast.Add):
                    return ('N', a[1] + b[1])
                if isinstance(e.op, ast.Sub):
                    return ('N', a[1] - b[1])
                if isinstance(e.op, ast.Mult):
                    try:
                        return ('N', a[1] * b[1])
                    except NonAffine:
                        raise AnalysisError(f'geometry expression: non-linear `{s}`')
                if isinstance(e.op, (ast.Mod, ast.FloorDiv)) and a[1].is_const() and \
                        b[1].is_const() and int(b[1].k) != 0:
                    x, y = int(a[1].k), int(b[1].k)
                    return ('N', Aff.const(x % y if isinstance(e.op, ast.Mod) else x // y))
                if isinstance(e.op, (ast.Mod, ast.FloorDiv)) and b[1].is_const() and \
                        b[1].k == int(b[1].k) and int(b[1].k) >= 2:
                    # a symbolic number divided by a constant: decided once every coefficient
                    # is a multiple of it (k*q + r); otherwise the rule splits on the residue
                    k_ = int(b[1].k)
                    if all(c_ % k_ == 0 for c_ in a[1].c.values()) and a[1].k == int(a[1].k):
                        r_ = int(a[1].k) % k_
                        if isinstance(e.op, ast.Mod):
                            return ('N', Aff.const(r_))
                        return ('N', (a[1] - r_).scale(Fraction(1, k_)))
                    raise GeoResidue(a[1], k_, s)
            if isinstance(e.op, ast.Mult):
                return self.mul(a, b)
            if isinstance(e.op, ast.Add):
                return self.add(a, b)
            if isinstance(e.op, ast.Sub) and a[0] == b[0] == 'P':
                return self.p_sub_p(a, b)
        if isinstance(e, ast.Call):
            return self._call_expr(e, env, module, depth)
        raise AnalysisError(f'geometry expression outside the grammar: `{s}`')

    def _bind(self, target: ast.AST, value, env: Dict[str, Any]) -> None:
        if isinstance(target, ast.Name):
            env[target.id] = value
        elif isinstance(target, (ast.Tuple, ast.List)) and value[0] == 'U' and \
                len(value[1]) == len(target.elts):
            for t, v in zip(target.elts, value[1]):
                self._bind(t, v, env)
        else:
            raise AnalysisError(f'cannot bind `{src(target)}`')

    def _is_zero(self, a: Aff, text: str = '') -> bool:
        if a.is_const():
            return a.k == 0
        nz = getattr(self, 'nonzero', ())
        if a in nz or -a in nz:
            return False
        raise GeoUndecided(a, text)

    def _truth(self, v) -> bool:
        if v[0] == 'B':
            return v[1]
        if v[0] == 'N':
            return not self._is_zero(v[1])
        if v == NONE:
            return False
        if v[0] == 'U':
            return len(v[1]) > 0
        return True

    def _compare(self, e: ast.Compare, env, module, depth) -> bool:
        op = e.ops[0]
        a = self.eval(e.left, env, module, depth)
        b = self.eval(e.comparators[0], env, module, depth)
        if isinstance(op, (ast.Eq, ast.NotEq)) and a[0] == 'N' and b[0] == 'N':
            z = self._is_zero(a[1] - b[1], src(e))
            return z if isinstance(op, ast.Eq) else not z
        if isinstance(op, (ast.Is, ast.Eq)):
            return a == b
        if isinstance(op, (ast.IsNot, ast.NotEq)):
            return a != b
        if isinstance(op, (ast.In, ast.NotIn)):
            if b[0] == 'D':
                keys = []
                for k in b[1].keys:
                    try:
                        keys.append(self.eval(k, {}, b[2], depth))
                    except AnalysisError:
                        pass
                r = a in keys
            elif b[0] == 'DV':
                r = a in [k for k, _ in b[1]]
            elif b[0] == 'U':
                r = a in b[1]
            else:
                raise AnalysisError(f'geometry guard: membership in `{src(e.comparators[0])}`')
            return r if isinstance(op, ast.In) else not r
        if isinstance(op, (ast.Lt, ast.LtE, ast.Gt, ast.GtE)) and a[0] == 'N' and b[0] == 'N':
            # orderings of affine numbers, decided under the area invariants or not at all
            lo, hi = (a[1], b[1]) if isinstance(op, (ast.Lt, ast.LtE)) else (b[1], a[1])
            r = self._le(lo, hi) if isinstance(op, (ast.LtE, ast.GtE)) else self._le(lo + 1, hi)
            if r is not None:
                return r
        raise AnalysisError(f'geometry guard outside the grammar: `{src(e)}`')

    def _call_expr(self, e: ast.Call, env, module, depth):
        f = src(e.func)
        ev = lambda x: self.eval(x, env, module, depth)
        kw = {k.arg: k.value for k in e.keywords if k.arg}
        if isinstance(e.func, ast.Subscript) and not kw and \
                not any(isinstance(a, ast.Starred) for a in e.args):
            # an entry of a table of lambdas applied at once: TABLE[key](a, b)
            try:
                fv = ev(e.func)
            except (AnalysisError, GeoKeyError):
                fv = ('?',)
            if fv[0] == 'LAM':
                lam, lmod = fv[1], fv[2]
                ps = [a.arg for a in lam.args.args]
                if len(ps) == len(e.args) and not lam.args.vararg and not lam.args.kwarg:
                    env2 = dict(zip(ps, (ev(a) for a in e.args)))
                    return self.eval(lam.body, env2, lmod, depth - 1)
                raise AnalysisError(f'geometry expression outside the grammar: `{src(e)}`')

        def args_of(names):
            vals = []
            for a in e.args:
                if isinstance(a, ast.Starred):
                    sv = ev(a.value)
                    if sv[0] != 'U':
                        raise AnalysisError(f'geometry expression: `{src(a)}`')
                    vals.extend(sv[1])
                else:
                    vals.append(ev(a))
            for n in names[len(vals):]:
                if n in kw:
                    vals.append(ev(kw[n]))
            return vals
        if f == 'Transform':
            a = args_of(['position', 'orientation'])
            if len(a) == 2:
                return ('T', a[0], a[1])
        if f == 'Position':
            a = args_of(['y', 'x'])
            if len(a) == 2 and a[0][0] == a[1][0] == 'N':
                return ('P', (a[0][1], a[1][1]))
        if f == 'Area':
            a = args_of(['ys', 'xs'])
            if len(a) == 2 and all(x[0] == 'U' and len(x[1]) == 2 and
                                   all(y[0] == 'N' for y in x[1]) for x in a):
                return ('A', tuple(tuple(y[1] for y in x[1]) for x in a))
        if f == 'enumerate' and 1 <= len(e.args) <= 2:
            v = ev(e.args[0])
            st = ev(e.args[1]) if len(e.args) == 2 else (ev(kw['start']) if 'start' in kw
                                                         else ('N', Aff.const(0)))
            if v[0] == 'U' and st[0] == 'N' and st[1].is_const():
                return ('U', tuple(('U', (('N', Aff.const(int(st[1].k) + i)), x))
                                   for i, x in enumerate(v[1])))
        if f in ('tuple', 'list') and len(e.args) == 1 and not kw:
            v = ev(e.args[0])
            if v[0] == 'U':
                return v
        if f == 'len' and len(e.args) == 1 and not kw:
            v = ev(e.args[0])
            if v[0] in ('U', 'DV'):
                return ('N', Aff.const(len(v[1])))
        if isinstance(e.func, ast.Attribute) and e.func.attr == 'index' and len(e.args) == 1 \
                and not kw:
            v = ev(e.func.value)
            if v[0] == 'U':
                x = ev(e.args[0])
                if x in v[1]:
                    return ('N', Aff.const(v[1].index(x)))
                return ('X', 'raise ValueError')
        if f in ('min', 'max') and e.args and not kw:
            # least / greatest of affine forms, decided by `<p>ymin <= <p>ymax`, `<p>xmin <=
            # <p>xmax` (the invariant of every Area); an undecided order is outside the grammar
            vals = [ev(a) for a in e.args]
            if len(vals) == 1 and vals[0][0] == 'U':
                vals = list(vals[0][1])
            if vals and all(v[0] == 'N' for v in vals):
                forms = [v[1] for v in vals]
                for cand in forms:
                    oks = [self._le(cand, o) if f == 'min' else self._le(o, cand) for o in forms]
                    if all(x is True for x in oks):
                        return ('N', cand)
                raise AnalysisError(f'geometry expression: order of `{src(e)}` not decided by '
                                    f'the area invariants')
        if f.split('.')[-1] == 'MappingProxyType' and len(e.args) == 1 and not kw:
            return ev(e.args[0])        # a read-only view of the mapping it wraps
        if f in ('cast', 'typing.cast') and len(e.args) == 2 and not kw:
            return ev(e.args[1])        # typing.cast returns its second argument unchanged
        if f == 'range' and 1 <= len(e.args) <= 3 and not kw:
            av = [ev(a) for a in e.args]
            if all(a[0] == 'N' and a[1].is_const() for a in av):
                ns = [int(a[1].k) for a in av]
                if all(a[1].k == n for a, n in zip(av, ns)) and (len(ns) < 3 or ns[2] != 0):
                    return ('U', tuple(('N', Aff.const(i)) for i in range(*ns)))
            raise AnalysisError(f'geometry expression: `{src(e)}` is not a range of constants')
        if f.split('.')[-1] == 'chain' and f.split('.')[0] in ('itt', 'itertools', 'chain') \
                and not kw and not any(isinstance(a, ast.Starred) for a in e.args):
            parts = [self._iterable(ev(a)) for a in e.args]
            if all(p_[0] == 'U' for p_ in parts):
                return ('U', tuple(x for p_ in parts for x in p_[1]))
        if f in ('list', 'tuple') and len(e.args) == 1 and not kw:
            v = self._iterable(ev(e.args[0]))
            if v[0] == 'U':
                return v
        if f == 'zip' and len(e.args) == 1 and isinstance(e.args[0], ast.Starred) and not kw:
            rows = self._iterable(ev(e.args[0].value))
            if rows[0] == 'U' and rows[1] and all(r[0] == 'U' for r in rows[1]) and \
                    len({len(r[1]) for r in rows[1]}) == 1:
                n = len(rows[1][0][1])
                return ('U', tuple(('U', tuple(r[1][i] for r in rows[1])) for i in range(n)))
        if f == 'zip' and len(e.args) >= 2 and not kw and \
                not any(isinstance(a, ast.Starred) for a in e.args):
            cols = [self._iterable(ev(a)) for a in e.args]
            if all(c[0] == 'U' for c in cols):
                n = min(len(c[1]) for c in cols)
                return ('U', tuple(('U', tuple(c[1][i] for c in cols)) for i in range(n)))
        if f == 'isinstance' and len(e.args) == 2:
            v = ev(e.args[0])
            t = e.args[1]
            names = [src(x) for x in (t.elts if isinstance(t, ast.Tuple) else [t])]
            return ('B', TAG.get(v[0]) in names)
        if f == 'Position.from_orientation' and len(e.args) == 1:
            return self._call(self.method('Position', 'from_orientation'),
                             {self.method('Position', 'from_orientation').node.args.args[0].arg:
                              ev(e.args[0])})
        if isinstance(e.func, ast.Attribute) and e.func.attr == 'get' and 1 <= len(e.args) <= 2:
            d = ev(e.func.value)
            if d[0] in ('D', 'DV'):
                try:
                    return self.lookup(d, ev(e.args[0]), depth)
                except GeoKeyError:
                    return ev(e.args[1]) if len(e.args) == 2 else NONE
        if isinstance(e.func, ast.Attribute) and e.func.attr in ('items', 'keys', 'values') \
                and not e.args and not kw:
            d = ev(e.func.value)
            pairs = None
            if d[0] == 'DV':
                pairs = list(d[1])
            elif d[0] == 'D':
                _, node, mod = d
                if any(k is None for k in node.keys):
                    raise AnalysisError('dict literal with ** expansion')
                pairs = [(self.eval(k, {}, mod, depth), self.eval(v, {}, mod, depth))
                         for k, v in zip(node.keys, node.values)]
            if pairs is not None:
                # later equal keys win, first position is kept (dict semantics)
                seen: Dict[Any, Any] = {}
                for k, v in pairs:
                    seen[k] = v
                a = e.func.attr
                return ('U', tuple(('U', (k, v)) if a == 'items' else (k if a == 'keys' else v)
                                   for k, v in seen.items()))
        if isinstance(e.func, ast.Attribute) and e.func.attr in ('front',) and not e.args:
            v = ev(e.func.value)
            if v[0] == 'T':
                # a pose class of its own (Transform or a subclass the agent builds) may define
                # the faced cell itself; otherwise the agent, read as its pose, does
                own = [c_.methods['front'] for c_ in
                       [self.gmod.classes.get('Transform')] + self.index.subclasses('Transform')
                       if c_ is not None and 'front' in c_.methods]
                fn = own[0] if len(own) == 1 else \
                    self.index.func('gym_gridverse/agent.py', 'Agent.front')
                return self._call(fn, {fn.node.args.args[0].arg: v})
        if isinstance(e.func, ast.Name) and e.func.id in module.functions and depth > 0:
            fn = module.functions[e.func.id]
            names = [a.arg for a in fn.node.args.posonlyargs + fn.node.args.args
                     + fn.node.args.kwonlyargs]
            bound = dict(zip(names, [ev(a) for a in e.args]))
            for k, v in kw.items():
                bound[k] = ev(v)
            return self._call(fn, bound, depth - 1)
        r = self.index.resolve_callee(module, e.func, None)
        if isinstance(r, Func) and r.cls is None and depth > 0:
            names = [a.arg for a in r.node.args.posonlyargs + r.node.args.args
                     + r.node.args.kwonlyargs]
            bound = dict(zip(names, [ev(a) for a in e.args]))
            for k, v in kw.items():
                bound[k] = ev(v)
            return self._call(r, bound, depth - 1)
        # a method of a geometry class called on a geometry value (`pose.neighbor(d)`), or a
        # static / class-level function of such a class (`Area.from_positions(..)`): interpreted
        # like any other small pure function
        if isinstance(e.func, ast.Attribute) and depth > 0 and \
                not any(isinstance(a, ast.Starred) for a in e.args):
            target = None
            recv = None
            if isinstance(e.func.value, ast.Name) and e.func.value.id in TAG.values():
                c_ = self.gmod.classes.get(e.func.value.id)
                target = self.index.method(c_, e.func.attr) if c_ is not None else None
            else:
                try:
                    recv = ev(e.func.value)
                except AnalysisError:
                    recv = None
                if recv is not None and recv[0] in TAG:
                    c_ = self.gmod.classes.get(TAG[recv[0]])
                    target = self.index.method(c_, e.func.attr) if c_ is not None else None
                    if target is None and recv[0] == 'T':
                        # the agent is read as its pose: a helper method of Agent called on
                        # it (`self.neighbor(Orientation.F)`)
                        try:
                            ac_ = self.index.cls('gym_gridverse/agent.py', 'Agent')
                            target = self.index.method(ac_, e.func.attr)
                        except Exception:       # noqa: BLE001
                            target = None
                elif recv is not None and recv[0] == 'E':
                    # a method of another enum of the package (`action.is_turn()`)
                    c_ = self.index.find_class(recv[1].split('.')[-1])
                    target = self.index.method(c_, e.func.attr) if c_ is not None else None
            if target is not None and not target.is_property():
                names = [a.arg for a in target.node.args.posonlyargs + target.node.args.args
                         + target.node.args.kwonlyargs]
                decos = {src(d) for d in target.node.decorator_list}
                bound = {}
                if 'staticmethod' in decos:
                    pos_names = names
                elif 'classmethod' in decos:
                    pos_names = names[1:]
                elif recv is not None:
                    bound[names[0]] = recv
                    pos_names = names[1:]
                else:
                    pos_names = None
                if pos_names is not None and not (decos - {'staticmethod', 'classmethod'}):
                    bound.update(zip(pos_names, [ev(a) for a in e.args]))
                    for k, v in kw.items():
                        bound[k] = ev(v)
                    return self._call(target, bound, depth - 1)
        if not kw and not any(isinstance(a, ast.Starred) for a in e.args):
            fv = ev(e.func)
            if fv[0] in ('F', 'K'):
                argv = tuple(ev(a) for a in e.args)
                fn = module.functions.get(fv[1]) if fv[0] == 'F' and \
                    fv[1] not in getattr(self, 'opaque', ()) else None
                if fn is not None and depth > 0:
                    # a function taken from a table: apply it when its body is in the grammar
                    names = [a.arg for a in fn.node.args.posonlyargs + fn.node.args.args]
                    try:
                        return self._call(fn, dict(zip(names, argv)), depth - 1)
                    except AnalysisError:
                        pass
                return ('C', fv[1], argv)
        raise AnalysisError(f'geometry expression outside the grammar: `{src(e)}`')

    @staticmethod
    def _le(a: Aff, b: Aff):
        """a <= b under the invariants `<p>ymin <= <p>ymax`, `<p>xmin <= <p>xmax` of every area
        symbol family: True / False when decided, None otherwise"""
        def nonneg(d: Aff):
            rest = dict(d.c)
            for sym in list(rest):
                if sym.endswith('max') and sym in rest:
                    lo = sym[:-3] + 'min'
                    k = rest.get(sym, 0)
                    if k > 0 and rest.get(lo, 0) == -k:
                        del rest[sym]
                        del rest[lo]
            return not rest and d.k >= 0
        if nonneg(b - a):
            return True
        if nonneg(a - b) and (a - b).k > 0:
            return False
        if not (b - a).c:
            return (b - a).k >= 0
        return None

    def lookup(self, table, key, depth: int):
        """value of a dict literal at a key (the last of equal keys wins, as in Python)"""
        if table[0] == 'DV':
            vals = [v for k, v in table[1] if k == key]
            if not vals:
                raise GeoKeyError(key)
            return vals[-1]
        _, node, mod = table
        hit = None
        for k, v in zip(node.keys, node.values):
            if k is None:
                raise AnalysisError('dict literal with ** expansion')
            try:
                kv = self.eval(k, {}, mod, depth)
            except AnalysisError:
                continue
            if kv == key:
                hit = v
        if hit is None:
            raise GeoKeyError(key)
        return self.eval(hit, {}, mod, depth)

    # --------------------------------------------------------------- guards
    def holds(self, f, env, module, walk, depth: int) -> bool:
        k = f[0]
        if k == 'true':
            return True
        if k == 'false':
            return False
        if k == 'iter':
            return True
        if k == 'not':
            return not self.holds(f[1], env, module, walk, depth)
        if k == 'and':
            return all(self.holds(x, env, module, walk, depth) for x in f[1:])
        if k == 'or':
            return any(self.holds(x, env, module, walk, depth) for x in f[1:])
        if k == 'raises':
            body = f[2].body[0]
            val = body.value if isinstance(body, (ast.Assign, ast.Expr, ast.Return)) else None
            if val is None:
                raise AnalysisError('unmodelled try body')
            try:
                self.eval(walk.expand(val), env, module, depth)
                return False
            except GeoKeyError as ex_:
                kind_ = 'IndexError' if isinstance(ex_, GeoIndexError) else 'KeyError'
                return kind_ in f[1] or 'LookupError' in f[1] or 'Exception' in f[1]
            except AnalysisError:
                if 'AttributeError' in f[1] or 'TypeError' in f[1]:
                    return True
                raise
        if k == 'atom':
            return self._truth(self.eval(walk.expand(f[1]), env, module, depth))
        raise AnalysisError(f'geometry guard outside the grammar: `{show(f)}`')

    def walk_of(self, fn: Func) -> GuardWalk:
        w = self._walks.get(id(fn.node))
        if w is None:
            from .normalise import fold_list_building
            w = self._walks[id(fn.node)] = walk_function(fold_list_building(fn.node))
        return w

    def call(self, fn: Func, bound: Dict[str, Any], depth: int = 4):
        """denotation of a small pure function for the given arguments: the value of the first
        return whose dominating guard holds; ('X', 'raise ...') when it raises"""
        try:
            return self._call(fn, bound, depth)
        except GeoKeyError as e:
            return ('X', f'raise KeyError({e})')

    def call_inplace(self, fn: Func, bound: Dict[str, Any], depth: int = 4):
        """denotation of a method that updates its receiver (a pose) field by field before
        returning: attribute stores on the first parameter are applied in program order, each
        right-hand side being read in the state left by the earlier stores"""
        w = self.walk_of(fn)
        me = fn.node.args.args[0].arg
        env = dict(bound)
        try:
            for e in w.events:
                if e.kind == 'attrstore' and isinstance(e.target, ast.Attribute) and \
                        src(e.target.value) == me:
                    if not self.holds(strip_iter(e.guard), env, fn.module, w, depth):
                        continue
                    cur = env[me]
                    if cur[0] != 'T' or e.target.attr not in ('position', 'orientation') \
                            or e.value is None:
                        raise AnalysisError(f'{fn.short}: in-place update of `{src(e.target)}` '
                                            f'outside the grammar')
                    v = self.eval(self._expand_here(w, e.value, env, fn.module, depth), env,
                                  fn.module, depth)
                    env[me] = ('T', v, cur[2]) if e.target.attr == 'position' \
                        else ('T', cur[1], v)
                elif e.kind in ('store', 'augstore', 'delete'):
                    raise AnalysisError(f'{fn.short}: store `{src(e.stmt)[:60]}` outside the '
                                        f'grammar of in-place pose updates')
                elif e.kind in ('return', 'raise'):
                    if self.holds(strip_iter(e.guard), env, fn.module, w, depth):
                        if e.kind == 'raise':
                            return ('X', 'raise ' + (src(e.value) if e.value is not None
                                                     else ''))
                        if e.value is None:
                            return NONE
                        return self.eval(self._expand_here(w, e.value, env, fn.module, depth),
                                         env, fn.module, depth)
        except GeoKeyError as ex:
            return ('X', f'raise KeyError({ex})')
        return NONE

    def _call(self, fn: Func, bound: Dict[str, Any], depth: int = 4):
        w = self.walk_of(fn)
        # parameters the caller left out take their declared defaults
        missing = {p: d for p, d in fn.param_defaults().items()
                   if p not in bound and d is not None}
        if missing:
            bound = dict(bound)
            for p, d in missing.items():
                try:
                    bound[p] = self.eval(d, {}, fn.module, depth)
                except AnalysisError:
                    pass            # a default outside the grammar only matters if it is read
        # a result built in place (x.append(..) in a loop, x += ..) is not what the expansion of
        # the returned name shows: refuse rather than read the initial value
        for e in w.events:
            nd = getattr(e, 'node', None)
            if e.kind == 'augstore' or (
                    e.kind == 'call' and isinstance(nd, ast.Call) and
                    isinstance(nd.func, ast.Attribute) and
                    isinstance(nd.func.value, ast.Name) and
                    nd.func.attr in ('append', 'extend', 'insert', 'add', 'update',
                                     'reverse', 'sort', 'pop', 'remove', 'clear') and
                    nd.func.value.id in w.defs):
                # statement by statement instead (loops over known finite collections unrolled)
                return self._exec_function(fn, bound, depth)
        # a loop that re-binds locals read afterwards (a running minimum) is not what the
        # guards of the returns show either
        for lp_ in ast.walk(fn.node):
            if isinstance(lp_, (ast.For, ast.While)):
                assigned = {t_.id for s_ in ast.walk(lp_) if isinstance(s_, ast.Assign)
                            for t_ in s_.targets if isinstance(t_, ast.Name)}
                after = {n_.id for s_ in fn.node.body
                         if getattr(s_, 'lineno', 0) > getattr(lp_, 'end_lineno', 0)
                         for n_ in ast.walk(s_) if isinstance(n_, ast.Name)}
                if assigned & after:
                    return self._exec_function(fn, bound, depth)
        if not hasattr(self, '_frames'):
            self._frames = []
        self._frames.append((w, bound, fn.module))
        try:
            for e in w.events:
                if e.kind in ('return', 'raise'):
                    if self.holds(strip_iter(e.guard), bound, fn.module, w, depth):
                        if e.kind == 'raise':
                            return ('X', 'raise ' + (src(e.value) if e.value is not None
                                                     else ''))
                        if e.value is None:
                            return NONE
                        try:
                            return self.eval(
                                self._expand_here(w, e.value, bound, fn.module, depth),
                                bound, fn.module, depth)
                        except GeoKeyError as ex_:
                            # `try: return T[k] except KeyError: return D`: the lookup fails
                            # inside the try, so the handler's return decides
                            kind_ = 'IndexError' if isinstance(ex_, GeoIndexError) else 'KeyError'
                            if any(kind_ in t_ or 'LookupError' in t_ or t_ in (
                                    'Exception', 'BaseException') for t_ in e.in_try):
                                continue
                            raise
            return NONE
        finally:
            self._frames.pop()

    # ---------------------------------------------------------------- statements
    class _Return(Exception):
        def __init__(self, value):
            self.value = value

    def _exec_function(self, fn: Func, bound: Dict[str, Any], depth: int):
        """denotation of a small function that builds its result with statements: straight-line
        assignments, `x.append(v)` / `x.extend(vs)` on lists built here, `for` over a collection
        of known finite length (unrolled), `if`, `try` (the body; `except AttributeError` for
        the duck-typing idiom `p.yx` / tuple), `return`, `raise`.  Anything else is outside the
        grammar."""
        from .normalise import fold_list_building
        node = fold_list_building(fn.node)
        env = dict(bound)
        try:
            self._exec(node.body, env, fn, depth)
        except GeoInterp._Return as r:
            return r.value
        return NONE

    def _exec(self, stmts, env, fn: Func, depth: int) -> None:
        ev = lambda x: self.eval(x, env, fn.module, depth)     # noqa: E731
        for s in stmts:
            if isinstance(s, ast.Expr) and isinstance(s.value, ast.Constant):
                continue
            if isinstance(s, ast.AnnAssign):
                if s.value is None:
                    continue
                s = ast.Assign([s.target], s.value)
            if isinstance(s, ast.Assign) and len(s.targets) == 1:
                v = ev(s.value)
                if isinstance(s.targets[0], ast.Name):
                    env[s.targets[0].id] = v
                else:
                    self._bind(s.targets[0], self._iterable(v), env)
                continue
            if isinstance(s, ast.Expr) and isinstance(s.value, ast.Call) and \
                    isinstance(s.value.func, ast.Attribute) and \
                    isinstance(s.value.func.value, ast.Name) and \
                    s.value.func.attr in ('append', 'extend') and len(s.value.args) == 1 and \
                    env.get(s.value.func.value.id, ('?',))[0] == 'U':
                cur = env[s.value.func.value.id]
                v = ev(s.value.args[0])
                if s.value.func.attr == 'append':
                    env[s.value.func.value.id] = ('U', cur[1] + (v,))
                else:
                    v = self._iterable(v)
                    if v[0] != 'U':
                        raise AnalysisError(f'{fn.short}: extend by `{src(s.value.args[0])}`')
                    env[s.value.func.value.id] = ('U', cur[1] + v[1])
                continue
            if isinstance(s, ast.Expr) and isinstance(s.value, ast.Call) and \
                    src(s.value.func) == 'cast':
                continue
            if isinstance(s, ast.For) and not s.orelse:
                it = self._iterable(ev(s.iter))
                if it[0] != 'U':
                    raise AnalysisError(f'{fn.short}: loop over `{src(s.iter)}` (not a '
                                        f'collection of known length)')
                for item in it[1]:
                    self._bind(s.target, item, env)
                    self._exec(s.body, env, fn, depth)
                continue
            if isinstance(s, ast.If):
                self._exec(s.body if self._truth(ev(s.test)) else s.orelse, env, fn, depth)
                continue
            if isinstance(s, ast.Try) and not s.finalbody and not s.orelse:
                # the duck-typing idiom: `try: y, x = p.yx / except AttributeError: y, x = p`
                snap = dict(env)
                try:
                    self._exec(s.body, env, fn, depth)
                except AnalysisError:
                    hs = [h for h in s.handlers if h.type is not None
                          and 'AttributeError' in src(h.type)]
                    if not hs:
                        raise
                    env.clear()
                    env.update(snap)
                    self._exec(hs[0].body, env, fn, depth)
                continue
            if isinstance(s, ast.Return):
                raise GeoInterp._Return(NONE if s.value is None else ev(s.value))
            if isinstance(s, ast.Raise):
                raise GeoInterp._Return(('X', 'raise ' + (src(s.exc) if s.exc else '')))
            raise AnalysisError(f'{fn.short}: statement `{src(s)[:60]}` outside the grammar of '
                                f'the pose interpreter')

    def _expand_here(self, w: GuardWalk, e: ast.AST, bound, module, depth: int) -> ast.AST:
        """expansion of locals for the execution selected by the arguments: a local assigned
        on several paths denotes the assignment whose path condition holds here"""
        multi = any(isinstance(n, ast.Name) and len(w.defs.get(n.id, [])) > 1
                    for n in ast.walk(e))
        if not multi:
            return w.expand(e)
        from .guards import expand_under

        def atom_truth(a: ast.AST):
            try:
                return self._truth(self.eval(w.expand(a), bound, module, depth))
            except (AnalysisError, GeoKeyError):
                return None
        def other(f):
            # `raises` leaves: does the try body raise here?
            try:
                return self.holds(f, bound, module, w, depth)
            except (AnalysisError, GeoKeyError):
                return None
        return expand_under(w, e, atom_truth, other=other)


# ---------------------------------------------------------------------------
class Geometry:
    """derived geometric data, computed lazily from denotations"""

    def __init__(self, index: RepoIndex):
        self.index = index
        self.gi = GeoInterp(index)
        self.O = index.enum('Orientation')
        self.orients = list(self.O.order)
        self._cache: Dict[str, Any] = {}

    def _memo(self, key, fn):
        if key not in self._cache:
            self._cache[key] = fn()
        return self._cache[key]

    # literal tables (for duplicate detection and line numbers only)
    def table_dups(self, name: str) -> List[Any]:
        mod = self.index.module(GEOM)
        vals = mod.assigns.get(name)
        dups = []
        if vals and len(vals) == 1 and isinstance(vals[0], ast.Dict):
            seen = set()
            for k in vals[0].keys:
                s = src(k)
                try:
                    kv = self.gi.eval(k, {}, mod)
                except AnalysisError:
                    continue
                if kv in seen:
                    dups.append(s)
                seen.add(kv)
        return dups

    def line_of(self, name: str) -> int:
        mod = self.index.module(GEOM)
        vals = mod.assigns.get(name)
        return getattr(vals[0], 'lineno', 1) if vals else 1

    @property
    def rot(self) -> Dict[Tuple[str, str], Optional[str]]:
        def build():
            out = {}
            for a in self.orients:
                for b in self.orients:
                    try:
                        v = self.gi.mul(('O', a), ('O', b))
                        out[(a, b)] = v[1] if v[0] == 'O' else None
                    except GeoKeyError:
                        out[(a, b)] = None
            return out
        return self._memo('rot', build)

    @property
    def neg(self) -> Dict[str, Optional[str]]:
        def build():
            out = {}
            for a in self.orients:
                try:
                    v = self.gi.neg(('O', a))
                    out[a] = v[1] if v[0] == 'O' else None
                except GeoKeyError:
                    out[a] = None
            return out
        return self._memo('neg', build)

    @property
    def delta(self) -> Dict[str, Optional[Tuple[int, int]]]:
        def build():
            fn = self.gi.method('Position', 'from_orientation')
            p = fn.node.args.args[0].arg
            out = {}
            for a in self.orients:
                try:
                    v = self.gi.call(fn, {p: ('O', a)})
                except GeoKeyError:
                    v = NONE
                if v[0] == 'P' and v[1][0].is_const() and v[1][1].is_const():
                    out[a] = (int(v[1][0].k), int(v[1][1].k))
                else:
                    out[a] = None
            return out
        return self._memo('delta', build)

    @property
    def M(self) -> Dict[str, Tuple[Aff, Aff]]:
        def build():
            out = {}
            for o in self.orients:
                v = self.gi.mul(('O', o), P('y', 'x'))
                if v[0] != 'P':
                    raise AnalysisError(f'{o} * Position does not yield a Position: {v}')
                out[o] = v[1]
            return out
        return self._memo('M', build)

    @property
    def AR(self):
        def build():
            out = {}
            cases = {}
            for o in self.orients:
                res = split_cases(self.gi, lambda oo, ar: self.gi.mul(oo, ar), [('O', o), A()])
                general = [(d_, v) for d_, v in res if not getattr(d_, 'sub', {})]
                if any(v[0] != 'A' for _, v in res):
                    raise AnalysisError(f'{o} * Area does not yield an Area in every case: '
                                        f'{[(d_, v[0]) for d_, v in res][:3]}')
                if general:
                    out[o] = general[-1][1][1]
                else:
                    # every case specialises the bounds (a residue split): the image under the
                    # rotation matrix stands for the operator; C18.R3 checks each case against it
                    m = self.mat(o)
                    box = []
                    for axis in (0, 1):
                        cy, cx = m[axis]
                        names = ('ymin', 'ymax') if cy else ('xmin', 'xmax')
                        c_ = cy or cx
                        box.append((Aff.sym(names[0]), Aff.sym(names[1])) if c_ == 1 else
                                   (-Aff.sym(names[1]), -Aff.sym(names[0])))
                    out[o] = tuple(box)
                cases[o] = res
            self._cache['AR_cases'] = cases
            return out
        return self._memo('AR', build)

    @property
    def AR_cases(self):
        """orientation -> [(case description, value)]: every case of the tests `o * area`
        makes on the bounds of the area (zero tests, residues)"""
        self.AR
        return self._cache['AR_cases']

    def mat(self, o: str) -> Tuple[Tuple[int, int], Tuple[int, int]]:
        m = self.M[o]
        return ((int(m[0].c.get('y', 0)), int(m[0].c.get('x', 0))),
                (int(m[1].c.get('y', 0)), int(m[1].c.get('x', 0))))

    # ------------------------------------------------------ grid rotations
    @property
    def grid_rot(self) -> Dict[str, 'IndexMap']:
        self._grid_rotations()
        return self._cache['grid_rot']

    @property
    def grid_rot_name(self) -> Dict[str, str]:
        self._grid_rotations()
        return self._cache['grid_rot_name']

    def _grid_rotations(self) -> None:
        if 'grid_rot' in self._cache:
            return
        ix = self.index
        t = ix.table(GRID, '_grid_rotation_functions')
        if not isinstance(t, ast.Dict):
            raise AnalysisError('_grid_rotation_functions is not a dict literal')
        rot: Dict[str, IndexMap] = {}
        names: Dict[str, str] = {}
        for k, v in zip(t.keys, t.values):
            if not isinstance(v, ast.Name):
                raise AnalysisError('_grid_rotation_functions value is not a function name')
            em = ix.enum_member(k)
            if not em or em[0] != 'Orientation':
                raise AnalysisError('_grid_rotation_functions key is not an Orientation')
            fn = ix.func(GRID, v.id)
            rot[em[1]] = function_index_map(fn)
            names[em[1]] = v.id
        self._cache['grid_rot'] = rot
        self._cache['grid_rot_name'] = names


# ---------------------------------------------------------------------------
class IndexMap:
    """abstract value of a 2-D list expression: value[i][j] = data[r(i,j)][c(i,j)], with the
    value's dimensions (nr, nc) affine in the source dimensions H, W"""

    def __init__(self, r: Aff, c: Aff, nr: Aff, nc: Aff, fresh_outer=False, fresh_rows=False):
        self.r, self.c, self.nr, self.nc = r, c, nr, nc
        self.fresh_outer, self.fresh_rows = fresh_outer, fresh_rows

    @staticmethod
    def ident() -> 'IndexMap':
        return IndexMap(Aff.sym('i'), Aff.sym('j'), Aff.sym('H'), Aff.sym('W'))

    def rev_rows(self) -> 'IndexMap':
        mp = {'i': self.nr - 1 - Aff.sym('i')}
        return IndexMap(self.r.subst(mp), self.c.subst(mp), self.nr, self.nc, True,
                        self.fresh_rows)

    def rev_cols(self) -> 'IndexMap':
        mp = {'j': self.nc - 1 - Aff.sym('j')}
        return IndexMap(self.r.subst(mp), self.c.subst(mp), self.nr, self.nc, True, True)

    def transpose(self) -> 'IndexMap':
        mp = {'i': Aff.sym('j'), 'j': Aff.sym('i')}
        return IndexMap(self.r.subst(mp), self.c.subst(mp), self.nc, self.nr, True, True)

    def copy_rows(self) -> 'IndexMap':
        return IndexMap(self.r, self.c, self.nr, self.nc, True, True)

    def copy_outer(self) -> 'IndexMap':
        return IndexMap(self.r, self.c, self.nr, self.nc, True, self.fresh_rows)

    def __repr__(self):
        return f'[{self.r}][{self.c}] dims=({self.nr}, {self.nc})'


def index_map(e: ast.AST, env: Dict[str, IndexMap]) -> IndexMap:
    if isinstance(e, ast.Name):
        if e.id in env:
            return env[e.id]
        raise AnalysisError(f'unknown 2-D list `{e.id}`')
    if isinstance(e, ast.Subscript) and src(e.slice) == '::-1':
        return index_map(e.value, env).rev_rows()
    if isinstance(e, ast.Subscript) and src(e.slice) in (':', '::', '::1'):
        return index_map(e.value, env).copy_outer()
    if isinstance(e, ast.Call):
        f = src(e.func)
        if f == 'zip' and len(e.args) == 1 and isinstance(e.args[0], ast.Starred):
            return index_map(e.args[0].value, env).transpose()
        if f in ('list', 'tuple') and len(e.args) == 1:
            return index_map(e.args[0], env).copy_outer()
        if f == 'reversed' and len(e.args) == 1:
            return index_map(e.args[0], env).rev_rows()
        if f == 'map' and len(e.args) == 2 and src(e.args[0]) in ('list', 'tuple'):
            return index_map(e.args[1], env).copy_rows()
        helpers = env.get('__funcs__') or {}
        if isinstance(e.func, ast.Name) and f in helpers and len(e.args) == 1 and \
                not e.keywords and f not in env.get('__stack__', ()):
            # a module-local helper on 2-D lists: its own index map, composed
            a = index_map(e.args[0], env)
            facts = env.get('__facts__') or {}
            hf = {d: _dim_is_one(x, facts) for d, x in (('H', a.nr), ('W', a.nc))}
            hp = function_pieces(helpers[f], {d: v for d, v in hf.items() if v is not None},
                                 _stack=tuple(env.get('__stack__', ())) + (f,))
            if len(hp) > 1:
                # the helper distinguishes a shape the caller has not fixed yet
                for d, x in (('H', a.nr), ('W', a.nc)):
                    if hf[d] is None and len({f_.get(d) for f_, _ in hp}) > 1:
                        for cd in ('H', 'W'):
                            if x == Aff.sym(cd):
                                raise _NeedSplit(cd)
                raise AnalysisError(f'{f}: shape cases not expressible in the caller\'s dims')
            h = hp[0][1]
            if getattr(h, 'mutates_operand', False) and not (a.fresh_outer and a.fresh_rows):
                env.setdefault('__mut__', []).append(f)
            dims = {'H': a.nr, 'W': a.nc}
            hr, hc = h.r.subst(dims), h.c.subst(dims)
            at = {'i': hr, 'j': hc}
            return IndexMap(a.r.subst(at), a.c.subst(at), h.nr.subst(dims), h.nc.subst(dims),
                            h.fresh_outer or a.fresh_outer, h.fresh_rows or a.fresh_rows)
    # a row turned into a column: [[x] for x in D[0]]
    if isinstance(e, ast.ListComp) and len(e.generators) == 1 and not e.generators[0].ifs \
            and isinstance(e.generators[0].target, ast.Name) and \
            isinstance(e.elt, ast.List) and len(e.elt.elts) == 1 and \
            src(e.elt.elts[0]) == e.generators[0].target.id and \
            isinstance(e.generators[0].iter, ast.Subscript) and \
            src(e.generators[0].iter.slice) == '0':
        a = index_map(e.generators[0].iter.value, env)
        at = {'i': Aff.const(0), 'j': Aff.sym('i')}
        return IndexMap(a.r.subst(at), a.c.subst(at), a.nc, Aff.const(1), True, True)
    # a column turned into a row: [[row[0] for row in X]]
    if isinstance(e, ast.List) and len(e.elts) == 1 and isinstance(e.elts[0], ast.ListComp) \
            and len(e.elts[0].generators) == 1 and not e.elts[0].generators[0].ifs and \
            isinstance(e.elts[0].generators[0].target, ast.Name) and \
            src(e.elts[0].elt) == f'{e.elts[0].generators[0].target.id}[0]':
        a = index_map(e.elts[0].generators[0].iter, env)
        at = {'i': Aff.sym('j'), 'j': Aff.const(0)}
        return IndexMap(a.r.subst(at), a.c.subst(at), Aff.const(1), a.nr, True, True)
    if isinstance(e, ast.ListComp) and len(e.generators) == 1 and not e.generators[0].ifs \
            and isinstance(e.generators[0].target, ast.Name):
        t = e.generators[0].target.id
        inner = index_map(e.generators[0].iter, env)
        elt = src(e.elt)
        if elt in (f'list({t})', f'tuple({t})', f'{t}[:]', f'{t}.copy()',
                   f'[x for x in {t}]'):
            return inner.copy_rows()
        if elt == t:
            return inner.copy_outer()
        if elt in (f'{t}[::-1]', f'list(reversed({t}))', f'list({t}[::-1])',
                   f'list({t})[::-1]'):
            return inner.rev_cols()
    raise AnalysisError(f'unrecognised 2-D list idiom: `{src(e)}`')


class _NeedSplit(Exception):
    """a shape test (`len(data) == 1`) inside a helper is not decided by what the caller knows
    about its operand: the caller splits on the named dimension ('H' / 'W') and re-reads"""
    def __init__(self, atom: str):
        super().__init__(atom)
        self.atom = atom


def _dim_is_one(a: Aff, facts: Dict[str, bool]) -> Optional[bool]:
    if a.is_const():
        return a.k == 1
    for d in ('H', 'W'):
        if a == Aff.sym(d):
            return facts.get(d)
    return None


def _shape_dnf(test: ast.AST, p: str, fn: Func, depth: int = 3) -> Optional[List[List[str]]]:
    """`len(p) == 1` -> [['H']], `len(p[0]) == 1` -> [['W']], `or` / `and` of those, a pure
    helper of the module applied to p read through; None for any other test"""
    t = src(test).replace(' ', '')
    if t in (f'len({p})==1', f'1==len({p})'):
        return [['H']]
    if t in (f'len({p}[0])==1', f'1==len({p}[0])'):
        return [['W']]
    if isinstance(test, ast.BoolOp):
        parts = [_shape_dnf(v, p, fn, depth) for v in test.values]
        if any(x is None for x in parts):
            return None
        if isinstance(test.op, ast.Or):
            return [alt for x in parts for alt in x]
        out = [[]]
        for x in parts:
            out = [a_ + b_ for a_ in out for b_ in x]
        return out
    if isinstance(test, ast.Call) and isinstance(test.func, ast.Name) and depth > 0 and \
            len(test.args) == 1 and not test.keywords and src(test.args[0]) == p:
        h = fn.module.functions.get(test.func.id)
        if h is not None and len(h.node.args.args) == 1 and not h.node.decorator_list:
            from .inline import pure_body_expr
            b_ = pure_body_expr(h.node)
            if b_ is not None:
                return _shape_dnf(b_, h.node.args.args[0].arg, h, depth - 1)
    return None


def function_pieces(fn: Func, facts: Optional[Dict[str, bool]] = None, _stack: tuple = ()
                    ) -> List[Tuple[Dict[str, bool], IndexMap]]:
    """index maps of a rotation function written as straight-line list code -- assignments of
    2-D list expressions (module-local helpers of the same kind composed), in-place
    `x.reverse()`, `for row in x: row.reverse()`, return -- possibly preceded by early returns
    for one-row / one-column operands (`if len(data) == 1: return ..`): one (facts, map) per
    case of the shape tests, `facts` saying which of H == 1, W == 1 holds in that case"""
    p = fn.node.args.args[0].arg
    funcs = {n: f for n, f in fn.module.functions.items()
             if len(f.node.args.args) == 1 and not f.node.args.vararg
             and not f.node.args.kwarg and not f.node.decorator_list}
    stack = _stack or (fn.name,)
    body = fn.body()

    def run(k: int, env: Dict[str, Any], facts_: Dict[str, bool], mut: bool):
        env = dict(env)
        env['__facts__'] = facts_
        for idx in range(k, len(body)):
            st = body[idx]
            try:
                if isinstance(st, ast.If) and not st.orelse and len(st.body) == 1 and \
                        isinstance(st.body[0], ast.Return) and st.body[0].value is not None:
                    dnf = _shape_dnf(st.test, p, fn)
                    if dnf is None:
                        raise AnalysisError(f'{fn.name}: test `{src(st.test)[:60]}` is outside '
                                            f'the 2-D list idioms understood')
                    truth = [None if any(facts_.get(a_) is None for a_ in alt) and
                             not any(facts_.get(a_) is False for a_ in alt)
                             else all(facts_.get(a_) for a_ in alt) for alt in dnf]
                    if any(t is True for t in truth):
                        m = index_map(st.body[0].value, env)
                        m.mutates_operand = mut or bool(env.get('__mut__'))  # type: ignore
                        return [(facts_, m)]
                    und = [alt for alt, t in zip(dnf, truth) if t is None]
                    if und:
                        atom = next(a_ for a_ in und[0] if facts_.get(a_) is None)
                        raise _NeedSplit(atom)
                    continue
                if isinstance(st, ast.Return) and st.value is not None:
                    m = index_map(st.value, env)
                    m.mutates_operand = mut or bool(env.get('__mut__'))  # type: ignore
                    return [(facts_, m)]
                if isinstance(st, ast.Assign) and len(st.targets) == 1 and \
                        isinstance(st.targets[0], ast.Name):
                    env[st.targets[0].id] = index_map(st.value, env)
                    continue
            except _NeedSplit as ns:
                if facts_.get(ns.atom) is not None:
                    raise AnalysisError(f'{fn.name}: shape test on `{ns.atom}` not decided')
                out = []
                for val in (True, False):
                    out += run(idx, env, {**facts_, ns.atom: val}, mut)
                return out
            if isinstance(st, ast.Expr) and isinstance(st.value, ast.Call) and \
                    isinstance(st.value.func, ast.Attribute) and \
                    st.value.func.attr == 'reverse' \
                    and isinstance(st.value.func.value, ast.Name) and not st.value.args:
                n = st.value.func.value.id
                if n not in env:
                    raise AnalysisError(f'unknown 2-D list `{n}`')
                if not env[n].fresh_outer:
                    mut = True
                env[n] = env[n].rev_rows()
                continue
            if isinstance(st, ast.For) and isinstance(st.iter, ast.Name) and st.iter.id in env \
                    and len(st.body) == 1 and isinstance(st.body[0], ast.Expr) and \
                    src(st.body[0].value) == f'{src(st.target)}.reverse()':
                n = st.iter.id
                if not env[n].fresh_rows:
                    mut = True
                env[n] = env[n].rev_cols()
                continue
            raise AnalysisError(
                f'{fn.name}: statement `{src(st)[:60]}` is outside the 2-D list idioms '
                f'understood')
        raise AnalysisError(f'{fn.name}: no return')
    env0: Dict[str, Any] = {p: IndexMap.ident(), '__funcs__': funcs, '__stack__': stack}
    return run(0, env0, dict(facts or {}), False)


def special_case_mismatches(pieces: List[Tuple[Dict[str, bool], IndexMap]]
                            ) -> Tuple[IndexMap, List[str]]:
    """(general map, disagreements): the general map is the piece for operands with more than
    one row and more than one column; every piece for a one-row / one-column operand must be
    the general map specialised to that shape"""
    general = [m for f_, m in pieces if not any(f_.values())]
    if len(general) != 1:
        raise AnalysisError('2-D list function: no single general case among its shape cases')
    g = general[0]
    bad: List[str] = []
    for f_, m in pieces:
        if m is g:
            continue
        sub = {d: Aff.const(1) for d, v in f_.items() if v}
        gr, gc, gnr, gnc = (x.subst(sub) for x in (g.r, g.c, g.nr, g.nc))
        mr, mc, mnr, mnc = (x.subst(sub) for x in (m.r, m.c, m.nr, m.nc))
        idx: Dict[str, Aff] = {}
        if gnr.is_const() and gnr.k == 1:
            idx['i'] = Aff.const(0)
        if gnc.is_const() and gnc.k == 1:
            idx['j'] = Aff.const(0)
        shape = ' and '.join(f'one {"row" if d == "H" else "column"}' for d in sorted(sub))
        if (mnr, mnc) != (gnr, gnc):
            bad.append(f'for an operand with {shape} the result has shape ({mnr}, {mnc}), the '
                       f'rotation gives ({gnr}, {gnc})')
        elif (mr.subst(idx), mc.subst(idx)) != (gr.subst(idx), gc.subst(idx)):
            bad.append(f'for an operand with {shape} cell [i][j] of the result is '
                       f'data[{mr.subst(idx)}][{mc.subst(idx)}], the rotation puts '
                       f'data[{gr.subst(idx)}][{gc.subst(idx)}] there')
        elif (g.fresh_outer and not m.fresh_outer) or (g.fresh_rows and not m.fresh_rows):
            bad.append(f'for an operand with {shape} the result shares lists with the operand')
    return g, bad


def function_index_map(fn: Func, _stack: tuple = ()) -> IndexMap:
    """the index map of a rotation function (see function_pieces); disagreements of its
    one-row / one-column special cases with the general case are attached as `.special_bad`"""
    g, bad = special_case_mismatches(function_pieces(fn, None, _stack))
    g.special_bad = bad     # type: ignore
    return g


def subst_value(v, sub: Dict[str, Aff]):
    """a value of the pose algebra with the symbols of `sub` replaced"""
    if isinstance(v, Aff):
        return v.subst(sub)
    if isinstance(v, tuple):
        return tuple(subst_value(x, sub) for x in v)
    return v


class CaseDesc(str):
    """description of a case of split_cases; `.sub` is the substitution that defines it"""
    sub: Dict[str, Aff] = {}


def split_cases(gi: 'GeoInterp', f, inputs, depth: int = 4):
    """[(case description, f(*inputs'))]: `f` evaluated on the symbolic inputs; whenever the
    interpreted code tests a symbolic number for zero, the evaluation is repeated once under the
    assumption that it is not zero and once with the inputs specialised so that it is"""
    out = []

    def run(sub: Dict[str, Aff], nonzero: frozenset, d: int):
        gi.nonzero = set(nonzero)
        try:
            r = f(*[subst_value(v, sub) for v in inputs])
        except GeoResidue as u:
            # x = k*q + r for each residue r: one symbol of x is replaced so that this holds
            a = u.aff
            s_ = next((s for s, c_ in sorted(a.c.items()) if abs(c_) == 1), None)
            if d <= 0 or s_ is None:
                raise
            c_ = a.c[s_]
            rest = a - Aff.sym(s_).scale(c_)
            nq = len([x for x in sub if x.startswith('q')]) + len(out)
            for r_ in range(u.k):
                q = Aff.sym(f'q{nq}_{d}')
                val = (q.scale(u.k) + r_ - rest).scale(1 / c_)
                sub2 = {n: v.subst({s_: val}) for n, v in sub.items()}
                sub2[s_] = val
                nz2 = frozenset(x.subst({s_: val}) for x in nonzero)
                if not any(x.is_const() and x.k == 0 for x in nz2):
                    run(sub2, nz2, d - 1)
            return
        except GeoUndecided as u:
            a = u.aff
            s_ = next((s for s, k in sorted(a.c.items()) if abs(k) == 1), None)
            if d <= 0 or s_ is None:
                raise
            k = a.c[s_]
            rest = a - Aff.sym(s_).scale(k)
            zero_at = (-rest).scale(1 / k)          # the value of s_ that makes `a` zero
            run(sub, nonzero | {a}, d - 1)
            sub2 = {n: v.subst({s_: zero_at}) for n, v in sub.items()}
            sub2[s_] = zero_at
            nz2 = frozenset(x.subst({s_: zero_at}) for x in nonzero)
            if not any(x.is_const() and x.k == 0 for x in nz2):     # else: infeasible case
                run(sub2, nz2, d - 1)
            return
        finally:
            gi.nonzero = set()
        desc = CaseDesc(', '.join([f'{n} = {v}' for n, v in sorted(sub.items())] +
                                  [f'{x} != 0' for x in sorted(map(str, nonzero))]))
        desc.sub = dict(sub)
        out.append((desc, r))
    run({}, frozenset(), depth)
    return out
