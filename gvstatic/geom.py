"""E7 extraction of the geometry tables and formulas (geometry.py, grid.py) as data:
rotation table, negation table, heading deltas, the 2x2 matrices and interval maps of
`Orientation.__mul__`, `Position`/`Transform` operators as affine forms, and the grid
rotation functions as affine index maps."""
from __future__ import annotations

import ast
from typing import Dict, List, Optional, Tuple

from .affine import Aff, NonAffine, aff_of
from .core import AnalysisError, src
from .guards import GuardWalk, f_and, formula_of, show, strip_iter, walk_function
from .index import Func, RepoIndex

GEOM = 'gym_gridverse/geometry.py'
GRID = 'gym_gridverse/grid.py'
TYPES = ('Orientation', 'Position', 'Area', 'Transform', 'Other')


class FiniteEval:
    """evaluates guards whose atoms are isinstance(<var>, T) and <var> is Orientation.X"""

    def __init__(self, index: RepoIndex, world: Dict[str, str]):
        self.index = index
        self.world = world   # var -> type name ; var+'@o' -> orientation member

    def holds(self, f) -> bool:
        k = f[0]
        if k == 'true':
            return True
        if k == 'false':
            return False
        if k == 'not':
            return not self.holds(f[1])
        if k == 'and':
            return all(self.holds(x) for x in f[1:])
        if k == 'or':
            return any(self.holds(x) for x in f[1:])
        if k == 'iter':
            return True
        if k == 'raises':
            # try bodies in geometry raise only for foreign operand types
            return self._raises(f)
        if k == 'atom':
            return self.atom(f[1])
        raise AnalysisError(f'formula {k}')

    def _raises(self, f) -> bool:
        exc, node = f[1], f[2]
        body = src(node.body[0])
        if 'KeyError' in exc:
            # table lookup keyed by an orientation: raises iff the key is not an Orientation
            for var, t in self.world.items():
                if '@' not in var and f'[{var}]' in body:
                    return t != 'Orientation'
            return False
        if 'AttributeError' in exc:
            for var, t in self.world.items():
                if '@' not in var and f'{var}.' in body:
                    return t not in ('Position',)
            return False
        raise AnalysisError(f'unmodelled try/except {exc} around `{body}`')

    def atom(self, e: ast.AST) -> bool:
        if isinstance(e, ast.Call) and src(e.func) == 'isinstance' and len(e.args) == 2:
            v = src(e.args[0])
            if v in self.world:
                t = e.args[1]
                names = [src(x) for x in (t.elts if isinstance(t, ast.Tuple) else [t])]
                return self.world[v] in names
        if isinstance(e, ast.Compare) and len(e.ops) == 1 and \
                isinstance(e.ops[0], (ast.Is, ast.Eq)):
            l, r = e.left, e.comparators[0]
            for a, b in ((l, r), (r, l)):
                em = self.index.enum_member(b)
                if em and em[0] == 'Orientation' and src(a) + '@o' in self.world:
                    return self.world[src(a) + '@o'] == em[1]
        raise AnalysisError(f'geometry guard atom outside the grammar: `{src(e)}`')


def returned(walk: GuardWalk, ev: FiniteEval) -> Optional[ast.AST]:
    """the value of the return reached in this world (first in program order)"""
    for e in walk.events:
        if e.kind in ('return', 'raise') and ev.holds(strip_iter(e.guard)):
            if e.kind == 'raise':
                return None
            return walk.expand(e.value) if e.value is not None else None
    return None


class Geometry:
    def __init__(self, index: RepoIndex):
        self.index = index
        self.O = index.enum('Orientation')
        self.orients = list(self.O.order)
        self._tables()
        self._orientation_mul()
        self._position_ops()
        self._transform_ops()
        self._grid_rotations()

    # ------------------------------------------------------------- tables
    def _okey(self, e: ast.AST) -> str:
        em = self.index.enum_member(e)
        if not em or em[0] != 'Orientation':
            raise AnalysisError(f'expected an Orientation member, got `{src(e)}`')
        return em[1]

    def _tables(self) -> None:
        ix = self.index
        t = ix.table(GEOM, '_orientation_rotations')
        if not isinstance(t, ast.Dict):
            raise AnalysisError('_orientation_rotations is not a dict literal')
        self.rot: Dict[Tuple[str, str], str] = {}
        self.rot_dups: List[Tuple[str, str]] = []
        for k, v in zip(t.keys, t.values):
            if not (isinstance(k, ast.Tuple) and len(k.elts) == 2):
                raise AnalysisError('_orientation_rotations key is not a pair')
            key = (self._okey(k.elts[0]), self._okey(k.elts[1]))
            if key in self.rot:
                self.rot_dups.append(key)
            self.rot[key] = self._okey(v)
        t = ix.table(GEOM, '_orientation_neg')
        self.neg = {self._okey(k): self._okey(v) for k, v in zip(t.keys, t.values)}
        t = ix.table(GEOM, '_position_from_orientation')
        self.delta: Dict[str, Tuple[int, int]] = {}
        for k, v in zip(t.keys, t.values):
            if not (isinstance(v, ast.Call) and src(v.func) == 'Position' and len(v.args) == 2):
                raise AnalysisError('_position_from_orientation value is not Position(a, b)')
            a = [aff_of(x, lambda e: None) for x in v.args]
            if not all(x.is_const() for x in a):
                raise AnalysisError('_position_from_orientation value is not constant')
            self.delta[self._okey(k)] = (int(a[0].k), int(a[1].k))

    # ------------------------------------------------- Orientation.__mul__
    def _orientation_mul(self) -> None:
        ix = self.index
        f = ix.func(GEOM, 'Orientation.__mul__')
        self.omul = f
        w = walk_function(f.node)
        ps = [a.arg for a in f.node.args.args]
        if len(ps) != 2:
            raise AnalysisError('Orientation.__mul__ does not take (self, other)')
        me, other = ps
        self.M: Dict[str, Tuple[Aff, Aff]] = {}
        self.AR: Dict[str, Tuple[Tuple[Aff, Aff], Tuple[Aff, Aff]]] = {}
        self.omul_orient_expr: Dict[str, str] = {}
        env_pos = {f'{other}.y': Aff.sym('y'), f'{other}.x': Aff.sym('x')}
        env_area = {f'{other}.{k}': Aff.sym(k) for k in ('ymin', 'ymax', 'xmin', 'xmax')}
        env_area.update({f'{other}.ys[0]': Aff.sym('ymin'), f'{other}.ys[1]': Aff.sym('ymax'),
                         f'{other}.xs[0]': Aff.sym('xmin'), f'{other}.xs[1]': Aff.sym('xmax')})
        for o in self.orients:
            # Orientation branch
            r = returned(w, FiniteEval(ix, {other: 'Orientation', me: 'Orientation',
                                            me + '@o': o}))
            self.omul_orient_expr[o] = src(r) if r is not None else 'None'
            # Position branch
            r = returned(w, FiniteEval(ix, {other: 'Position', me: 'Orientation', me + '@o': o}))
            if not (isinstance(r, ast.Call) and src(r.func) == 'Position' and len(r.args) == 2):
                raise AnalysisError(
                    f'Orientation.__mul__: Position branch for {o} does not return '
                    f'Position(a, b): `{src(r) if r is not None else None}`')
            try:
                self.M[o] = tuple(aff_of(a, lambda e: env_pos.get(src(e))) for a in r.args)
            except NonAffine as e:
                raise AnalysisError(f'Orientation.__mul__ Position branch {o}: non-affine {e}')
            # Area branch
            r = returned(w, FiniteEval(ix, {other: 'Area', me: 'Orientation', me + '@o': o}))
            if not (isinstance(r, ast.Call) and src(r.func) == 'Area' and len(r.args) == 2
                    and all(isinstance(a, ast.Tuple) and len(a.elts) == 2 for a in r.args)):
                raise AnalysisError(
                    f'Orientation.__mul__: Area branch for {o} does not return '
                    f'Area((a, b), (c, d))')
            try:
                self.AR[o] = tuple(
                    tuple(aff_of(a, lambda e: env_area.get(src(e))) for a in t.elts)
                    for t in r.args)
            except NonAffine as e:
                raise AnalysisError(f'Orientation.__mul__ Area branch {o}: non-affine {e}')

    def mat(self, o: str) -> Tuple[Tuple[int, int], Tuple[int, int]]:
        m = self.M[o]
        return ((int(m[0].c.get('y', 0)), int(m[0].c.get('x', 0))),
                (int(m[1].c.get('y', 0)), int(m[1].c.get('x', 0))))

    # -------------------------------------------------------- Position ops
    def _position_ops(self) -> None:
        ix = self.index
        out = {}
        f = ix.func(GEOM, 'Position.__add__')
        w = walk_function(f.node)
        me, other = [a.arg for a in f.node.args.args]
        env = {f'{me}.y': Aff.sym('sy'), f'{me}.x': Aff.sym('sx'),
               f'{other}.y': Aff.sym('oy'), f'{other}.x': Aff.sym('ox')}
        env.update({f'{other}.{k}': Aff.sym(k) for k in ('ymin', 'ymax', 'xmin', 'xmax')})
        r = returned(w, FiniteEval(ix, {other: 'Position'}))
        out['add_pos'] = self._pos_call(r, env, 'Position.__add__ (Position)')
        r = returned(w, FiniteEval(ix, {other: 'Area'}))
        if not (isinstance(r, ast.Call) and src(r.func) == 'Area' and len(r.args) == 2):
            raise AnalysisError('Position.__add__ (Area) does not return Area(..)')
        out['add_area'] = tuple(tuple(aff_of(a, lambda e: env.get(src(e))) for a in t.elts)
                                for t in r.args)
        f = ix.func(GEOM, 'Position.__sub__')
        w = walk_function(f.node)
        me, other = [a.arg for a in f.node.args.args]
        env = {f'{me}.y': Aff.sym('sy'), f'{me}.x': Aff.sym('sx'),
               f'{other}.y': Aff.sym('oy'), f'{other}.x': Aff.sym('ox')}
        r = returned(w, FiniteEval(ix, {other: 'Position'}))
        out['sub_pos'] = self._pos_call(r, env, 'Position.__sub__')
        f = ix.func(GEOM, 'Position.__neg__')
        w = walk_function(f.node)
        me = f.node.args.args[0].arg
        env = {f'{me}.y': Aff.sym('sy'), f'{me}.x': Aff.sym('sx')}
        r = returned(w, FiniteEval(ix, {}))
        out['neg_pos'] = self._pos_call(r, env, 'Position.__neg__')
        self.pos_ops = out
        # __radd__ = __add__
        c = ix.cls(GEOM, 'Position')
        self.pos_radd = src(c.attrs['__radd__']) if '__radd__' in c.attrs else None

    def _pos_call(self, r, env, what) -> Tuple[Aff, Aff]:
        if not (isinstance(r, ast.Call) and src(r.func) == 'Position' and len(r.args) == 2):
            raise AnalysisError(f'{what} does not return Position(a, b)')
        try:
            return tuple(aff_of(a, lambda e: env.get(src(e))) for a in r.args)
        except NonAffine as e:
            raise AnalysisError(f'{what}: non-affine {e}')

    # ------------------------------------------------------- Transform ops
    def _transform_ops(self) -> None:
        ix = self.index
        f = ix.func(GEOM, 'Transform.__mul__')
        w = walk_function(f.node)
        me, other = [a.arg for a in f.node.args.args]
        self.tmul: Dict[str, str] = {}
        ren = {me: 'T', other: 'U'}
        for t in ('Transform', 'Position', 'Area', 'Orientation'):
            r = returned(w, FiniteEval(ix, {other: t}))
            self.tmul[t] = src(_rename(r, ren)) if r is not None else 'None'
        f = ix.func(GEOM, 'Transform.__neg__')
        w = walk_function(f.node)
        me = f.node.args.args[0].arg
        r = returned(w, FiniteEval(ix, {}))
        self.tneg = src(_rename(r, {me: 'T'})) if r is not None else 'None'
        f = ix.func('gym_gridverse/agent.py', 'Agent.front')
        w = walk_function(f.node)
        r = returned(w, FiniteEval(ix, {}))
        self.agent_front = src(r) if r is not None else 'None'

    # ------------------------------------------------------ grid rotations
    def _grid_rotations(self) -> None:
        ix = self.index
        t = ix.table(GRID, '_grid_rotation_functions')
        if not isinstance(t, ast.Dict):
            raise AnalysisError('_grid_rotation_functions is not a dict literal')
        self.grid_rot: Dict[str, 'IndexMap'] = {}
        self.grid_rot_name: Dict[str, str] = {}
        for k, v in zip(t.keys, t.values):
            if not isinstance(v, ast.Name):
                raise AnalysisError('_grid_rotation_functions value is not a function name')
            fn = ix.func(GRID, v.id)
            body = fn.body()
            if not (len(body) == 1 and isinstance(body[0], ast.Return)):
                w = walk_function(fn.node)
                r = returned(w, FiniteEval(ix, {}))
            else:
                r = body[0].value
            p = fn.node.args.args[0].arg
            self.grid_rot[self._okey(k)] = index_map(r, {p: IndexMap.ident()})
            self.grid_rot_name[self._okey(k)] = v.id


def _rename(e: ast.AST, ren: Dict[str, str]) -> ast.AST:
    import copy
    e = copy.deepcopy(e)
    for n in ast.walk(e):
        if isinstance(n, ast.Name) and n.id in ren:
            n.id = ren[n.id]
    return e


class IndexMap:
    """abstract value of a 2-D list expression: value[i][j] = data[r(i,j)][c(i,j)], with the
    value's dimensions (nr, nc) affine in the source dimensions H, W"""

    def __init__(self, r: Aff, c: Aff, nr: Aff, nc: Aff, fresh_outer=False, fresh_rows=False):
        self.r, self.c, self.nr, self.nc = r, c, nr, nc
        self.fresh_outer, self.fresh_rows = fresh_outer, fresh_rows

    @staticmethod
    def ident() -> 'IndexMap':
        return IndexMap(Aff.sym('i'), Aff.sym('j'), Aff.sym('H'), Aff.sym('W'))

    def rev_rows(self) -> 'IndexMap':
        mp = {'i': self.nr - 1 - Aff.sym('i')}
        return IndexMap(self.r.subst(mp), self.c.subst(mp), self.nr, self.nc, True,
                        self.fresh_rows)

    def rev_cols(self) -> 'IndexMap':
        mp = {'j': self.nc - 1 - Aff.sym('j')}
        return IndexMap(self.r.subst(mp), self.c.subst(mp), self.nr, self.nc, True, True)

    def transpose(self) -> 'IndexMap':
        mp = {'i': Aff.sym('j'), 'j': Aff.sym('i')}
        return IndexMap(self.r.subst(mp), self.c.subst(mp), self.nc, self.nr, True, True)

    def copy_rows(self) -> 'IndexMap':
        return IndexMap(self.r, self.c, self.nr, self.nc, True, True)

    def __repr__(self):
        return f'[{self.r}][{self.c}] dims=({self.nr}, {self.nc})'


def index_map(e: ast.AST, env: Dict[str, IndexMap]) -> IndexMap:
    if isinstance(e, ast.Name):
        if e.id in env:
            return env[e.id]
        raise AnalysisError(f'unknown 2-D list `{e.id}`')
    if isinstance(e, ast.Subscript) and src(e.slice) == '::-1':
        return index_map(e.value, env).rev_rows()
    if isinstance(e, ast.Call):
        f = src(e.func)
        if f == 'zip' and len(e.args) == 1 and isinstance(e.args[0], ast.Starred):
            return index_map(e.args[0].value, env).transpose()
        if f in ('list', 'tuple') and len(e.args) == 1:
            m = index_map(e.args[0], env)
            return IndexMap(m.r, m.c, m.nr, m.nc, True, m.fresh_rows)
        if f == 'reversed' and len(e.args) == 1:
            return index_map(e.args[0], env).rev_rows()
        if f in ('map',) and len(e.args) == 2 and src(e.args[0]) in ('list', 'tuple'):
            return index_map(e.args[1], env).copy_rows()
    if isinstance(e, ast.ListComp) and len(e.generators) == 1 and not e.generators[0].ifs \
            and isinstance(e.generators[0].target, ast.Name):
        t = e.generators[0].target.id
        inner = index_map(e.generators[0].iter, env)
        elt = src(e.elt)
        if elt in (f'list({t})', f'tuple({t})', f'{t}[:]', f'{t}.copy()',
                   f'[x for x in {t}]'):
            return inner.copy_rows()
        if elt == t:
            return IndexMap(inner.r, inner.c, inner.nr, inner.nc, True, inner.fresh_rows)
        if elt in (f'{t}[::-1]', f'list(reversed({t}))', f'list({t}[::-1])',
                   f'list({t})[::-1]'):
            return inner.rev_cols()
    raise AnalysisError(f'unrecognised 2-D list idiom: `{src(e)}`')


# ---------------------------------------------------------------------------
# Symbolic interpreter of geometric expressions over the *extracted* tables/forms.
# Values:  ('O', member) | ('P', (Aff, Aff)) | ('A', ((Aff, Aff), (Aff, Aff)))
#          | ('T', P-value, O-value) | ('N', number)
class GeoInterp:
    def __init__(self, g: Geometry):
        self.g = g

    # primitive operations, all through extracted data
    def o_mul_o(self, a, b):
        return ('O', self.g.rot[(a[1], b[1])])

    def o_mul_p(self, o, p):
        m = self.g.M[o[1]]
        mp = {'y': p[1][0], 'x': p[1][1]}
        return ('P', (m[0].subst(mp), m[1].subst(mp)))

    def o_mul_a(self, o, a):
        ar = self.g.AR[o[1]]
        (ymin, ymax), (xmin, xmax) = a[1]
        mp = {'ymin': ymin, 'ymax': ymax, 'xmin': xmin, 'xmax': xmax}
        return ('A', tuple(tuple(f.subst(mp) for f in pair) for pair in ar))

    def p_add_p(self, p, q):
        f = self.g.pos_ops['add_pos']
        mp = {'sy': p[1][0], 'sx': p[1][1], 'oy': q[1][0], 'ox': q[1][1]}
        return ('P', (f[0].subst(mp), f[1].subst(mp)))

    def p_sub_p(self, p, q):
        f = self.g.pos_ops['sub_pos']
        mp = {'sy': p[1][0], 'sx': p[1][1], 'oy': q[1][0], 'ox': q[1][1]}
        return ('P', (f[0].subst(mp), f[1].subst(mp)))

    def p_add_a(self, p, a):
        f = self.g.pos_ops['add_area']
        (ymin, ymax), (xmin, xmax) = a[1]
        mp = {'sy': p[1][0], 'sx': p[1][1], 'ymin': ymin, 'ymax': ymax,
              'xmin': xmin, 'xmax': xmax}
        return ('A', tuple(tuple(x.subst(mp) for x in pair) for pair in f))

    def neg(self, v):
        if v[0] == 'O':
            return ('O', self.g.neg[v[1]])
        if v[0] == 'P':
            f = self.g.pos_ops['neg_pos']
            mp = {'sy': v[1][0], 'sx': v[1][1]}
            return ('P', (f[0].subst(mp), f[1].subst(mp)))
        if v[0] == 'T':
            return self.eval(ast.parse(self.g.tneg, mode='eval').body, {'T': v})
        raise AnalysisError(f'cannot negate {v[0]}')

    def mul(self, a, b):
        if a[0] == 'O' and b[0] == 'O':
            return self.o_mul_o(a, b)
        if a[0] == 'O' and b[0] == 'P':
            return self.o_mul_p(a, b)
        if a[0] == 'O' and b[0] == 'A':
            return self.o_mul_a(a, b)
        if b[0] == 'O' and a[0] in ('P', 'A'):   # __rmul__ = __mul__
            return self.mul(b, a)
        if a[0] == 'T':
            key = {'T': 'Transform', 'P': 'Position', 'A': 'Area', 'O': 'Orientation'}[b[0]]
            return self.eval(ast.parse(self.g.tmul[key], mode='eval').body, {'T': a, 'U': b})
        if b[0] == 'T':
            return self.mul(b, a)
        raise AnalysisError(f'cannot multiply {a[0]} * {b[0]}')

    def add(self, a, b):
        if a[0] == 'P' and b[0] == 'P':
            return self.p_add_p(a, b)
        if a[0] == 'P' and b[0] == 'A':
            return self.p_add_a(a, b)
        if a[0] == 'A' and b[0] == 'P':   # __radd__ = __add__
            return self.p_add_a(b, a)
        raise AnalysisError(f'cannot add {a[0]} + {b[0]}')

    # ------------------------------------------------------------------
    # evaluation of extracted expressions; `module` gives the scope for tables and helpers
    def eval(self, e: ast.AST, env: Dict[str, tuple], module=None, depth: int = 4):
        module = module or self.g.index.module(GEOM)
        ev = lambda x: self.eval(x, env, module, depth)
        if isinstance(e, ast.Constant) and isinstance(e.value, int) and \
                not isinstance(e.value, bool):
            return ('N', Aff.const(e.value))
        if isinstance(e, ast.Name):
            if e.id in env:
                return env[e.id]
            vals = module.assigns.get(e.id)
            if vals and len(vals) == 1 and isinstance(vals[0], ast.Dict):
                return ('D', vals[0], module)
            r = self.g.index.resolve_name(module, e.id)
            if isinstance(r, tuple) and r and r[0] == 'var':
                tv = r[1].assigns.get(r[2])
                if tv and len(tv) == 1 and isinstance(tv[0], ast.Dict):
                    return ('D', tv[0], r[1])
            raise AnalysisError(f'geometry expression: unbound name `{e.id}`')
        em = self.g.index.enum_member(e)
        if em and em[0] == 'Orientation':
            return ('O', em[1])
        if em:
            return ('E', em[0], em[1])
        if isinstance(e, (ast.Tuple, ast.List)):
            return ('U', tuple(ev(x) for x in e.elts))
        if isinstance(e, ast.Attribute):
            v = ev(e.value)
            a = e.attr
            if v[0] == 'T':
                if a == 'position':
                    return v[1]
                if a == 'orientation':
                    return v[2]
                if a == 'transform':
                    return v
            if v[0] == 'P':
                if a == 'y':
                    return ('N', v[1][0])
                if a == 'x':
                    return ('N', v[1][1])
                if a == 'yx':
                    return ('U', (('N', v[1][0]), ('N', v[1][1])))
            if v[0] == 'A':
                (ymin, ymax), (xmin, xmax) = v[1]
                table = {'ymin': ymin, 'ymax': ymax, 'xmin': xmin, 'xmax': xmax,
                         'height': ymax - ymin + 1, 'width': xmax - xmin + 1}
                if a in table:
                    return ('N', table[a])
                if a == 'ys':
                    return ('U', (('N', ymin), ('N', ymax)))
                if a == 'xs':
                    return ('U', (('N', xmin), ('N', xmax)))
            raise AnalysisError(f'geometry expression: `{src(e)}`')
        if isinstance(e, ast.Subscript):
            v = ev(e.value)
            if v[0] == 'U' and isinstance(e.slice, ast.Constant) and \
                    isinstance(e.slice.value, int):
                return v[1][e.slice.value]
            if v[0] == 'D':
                key = ev(e.slice)
                return self.lookup(v, key, depth)
            raise AnalysisError(f'geometry expression: `{src(e)}`')
        if isinstance(e, ast.UnaryOp) and isinstance(e.op, ast.USub):
            v = ev(e.operand)
            if v[0] == 'N':
                return ('N', -v[1])
            return self.neg(v)
        if isinstance(e, ast.BinOp):
            a, b = ev(e.left), ev(e.right)
            if a[0] == b[0] == 'N':
                if isinstance(e.op, ast.Add):
                    return ('N', a[1] + b[1])
                if isinstance(e.op, ast.Sub):
                    return ('N', a[1] - b[1])
                if isinstance(e.op, ast.Mult):
                    return ('N', a[1] * b[1])
                if isinstance(e.op, ast.FloorDiv) and b[1].is_const() and a[1].is_const():
                    return ('N', Aff.const(a[1].k // b[1].k))
            if isinstance(e.op, ast.Mult):
                return self.mul(a, b)
            if isinstance(e.op, ast.Add):
                return self.add(a, b)
            if isinstance(e.op, ast.Sub) and a[0] == b[0] == 'P':
                return self.p_sub_p(a, b)
        if isinstance(e, ast.Call):
            f = src(e.func)
            args = [ev(a) for a in e.args]
            if f == 'Transform' and len(args) == 2:
                return ('T', args[0], args[1])
            if f == 'Position' and len(args) == 2 and args[0][0] == args[1][0] == 'N':
                return ('P', (args[0][1], args[1][1]))
            if f == 'Area' and len(args) == 2 and all(
                    a[0] == 'U' and len(a[1]) == 2 and all(x[0] == 'N' for x in a[1])
                    for a in args):
                return ('A', tuple(tuple(x[1] for x in a[1]) for a in args))
            if f == 'Position.from_orientation' and len(args) == 1 and args[0][0] == 'O':
                d = self.g.delta[args[0][1]]
                return ('P', (Aff.const(d[0]), Aff.const(d[1])))
            if isinstance(e.func, ast.Name) and e.func.id in module.functions and depth > 0:
                fn = module.functions[e.func.id]
                names = [a.arg for a in fn.node.args.posonlyargs + fn.node.args.args]
                bound = dict(zip(names, args))
                for k in e.keywords:
                    if k.arg:
                        bound[k.arg] = ev(k.value)
                return self.call(fn, bound, depth - 1)
        raise AnalysisError(f'geometry expression outside the grammar: `{src(e)}`')

    def lookup(self, table, key, depth: int):
        _, node, mod = table
        for k, v in zip(node.keys, node.values):
            try:
                kv = self.eval(k, {}, mod, depth)
            except AnalysisError:
                continue
            if kv == key:
                return self.eval(v, {}, mod, depth)
        raise GeoKeyError(key)

    def holds(self, f, env, module, walk, depth: int) -> bool:
        k = f[0]
        if k == 'true':
            return True
        if k == 'false':
            return False
        if k == 'iter':
            return True
        if k == 'not':
            return not self.holds(f[1], env, module, walk, depth)
        if k == 'and':
            return all(self.holds(x, env, module, walk, depth) for x in f[1:])
        if k == 'or':
            return any(self.holds(x, env, module, walk, depth) for x in f[1:])
        if k == 'raises':
            body = f[2].body[0]
            val = body.value if isinstance(body, (ast.Assign, ast.Expr, ast.Return)) else None
            if val is None:
                raise AnalysisError('unmodelled try body')
            try:
                self.eval(walk.expand(val), env, module, depth)
                return False
            except GeoKeyError:
                return 'KeyError' in f[1]
        if k == 'atom':
            e = f[1]
            if isinstance(e, ast.Call) and src(e.func) == 'isinstance' and len(e.args) == 2:
                v = self.eval(walk.expand(e.args[0]), env, module, depth)
                t = e.args[1]
                names = [src(x) for x in (t.elts if isinstance(t, ast.Tuple) else [t])]
                tag = {'O': 'Orientation', 'P': 'Position', 'A': 'Area', 'T': 'Transform'}
                return tag.get(v[0]) in names
            if isinstance(e, ast.Compare) and len(e.ops) == 1 and \
                    isinstance(e.ops[0], (ast.Is, ast.Eq)):
                a = self.eval(walk.expand(e.left), env, module, depth)
                b = self.eval(walk.expand(e.comparators[0]), env, module, depth)
                return a == b
        raise AnalysisError(f'geometry guard outside the grammar: `{show(f)}`')

    def call(self, fn, bound: Dict[str, tuple], depth: int = 3):
        """denotation of a small pure function: the value of the first return whose guard
        holds for the given (concrete-enum, symbolic-coordinate) arguments"""
        w = walk_function(fn.node)
        for e in w.events:
            if e.kind in ('return', 'raise'):
                if self.holds(strip_iter(e.guard), bound, fn.module, w, depth):
                    if e.kind == 'raise' or e.value is None:
                        return ('X', src(e.value) if e.value is not None else 'None')
                    return self.eval(w.expand(e.value), bound, fn.module, depth)
        return ('X', 'falls off the end')


class GeoKeyError(Exception):
    pass


def P(y: str, x: str):
    return ('P', (Aff.sym(y), Aff.sym(x)))


def A(prefix: str = ''):
    return ('A', ((Aff.sym(prefix + 'ymin'), Aff.sym(prefix + 'ymax')),
                  (Aff.sym(prefix + 'xmin'), Aff.sym(prefix + 'xmax'))))
