"""Light type inference for set-typed expressions and classification of their consumers as
order-free or order-dependent (C02.R5: enum members hash by name, so iteration order of a
set of enums changes with PYTHONHASHSEED)."""
from __future__ import annotations

import ast
from typing import Dict, List, Optional, Set, Tuple

from .core import src
from .index import PKG, Cls, Func, Module, RepoIndex

ORDER_FREE_CALLS = {'len', 'max', 'min', 'sum', 'any', 'all', 'set', 'frozenset', 'sorted',
                    'bool', 'isinstance', 'repr', 'str', 'print', 'hash', 'id', 'type',
                    'Counter', 'dict.fromkeys'}
ORDER_DEP_CALLS = {'list', 'tuple', 'enumerate', 'zip', 'iter', 'next', 'reversed', 'map',
                   'filter', 'np.array', 'np.asarray', 'numpy.array', 'choice', 'choices',
                   'shuffle', 'deque', 'itt.chain', 'itt.cycle', 'itt.islice',
                   'mitt.pairwise', 'mitt.one', 'mitt.first', 'first'}
SET_METHODS_FREE = {'issubset', 'issuperset', 'isdisjoint', 'union', 'intersection',
                    'difference', 'symmetric_difference', 'copy', 'add', 'discard', 'remove',
                    'update', '__contains__', 'clear'}
SET_RETURNING = {'union', 'intersection', 'difference', 'symmetric_difference', 'copy'}


def ann_is_set(ann: Optional[ast.AST]) -> bool:
    if ann is None:
        return False
    s = src(ann).replace('typing.', '')
    for pre in ('Optional[', ):
        if s.startswith(pre) and s.endswith(']'):
            s = s[len(pre):-1]
    return s.split('[')[0] in ('Set', 'FrozenSet', 'AbstractSet', 'MutableSet', 'set',
                               'frozenset')


def ann_class(ann: Optional[ast.AST]) -> Optional[str]:
    if ann is None:
        return None
    s = src(ann)
    if s.startswith('Optional[') and s.endswith(']'):
        s = s[len('Optional['):-1]
    if s.startswith("'") or s.startswith('"'):
        s = s[1:-1]
    return s if s.isidentifier() else None


class SetTypes:
    def __init__(self, index: RepoIndex):
        self.index = index
        self.extra_params: Dict[str, Set[str]] = {}   # func qualname -> params made set-typed
        self._attr_cache: Dict[Tuple[str, str], Optional[str]] = {}

    # ------------------------------------------------------------- typing
    def attr_type(self, c: Cls, attr: str, depth: int = 3) -> Optional[str]:
        """'set', a class name, or None for `self.<attr>` of class c"""
        key = (c.name, attr)
        if key in self._attr_cache:
            return self._attr_cache[key]
        self._attr_cache[key] = None
        res = None
        inits = []
        seen, stack = set(), [c]
        while stack:
            k = stack.pop(0)
            if k.name in seen:
                continue
            seen.add(k.name)
            if '__init__' in k.methods:
                inits.append(k.methods['__init__'])
            for b in k.bases:
                r = self.index.resolve_name(k.module, b.split('[')[0].split('.')[-1])
                if isinstance(r, Cls):
                    stack.append(r)
        for init in inits:
            if res is not None:
                break
            for n in ast.walk(init.node):
                tgt, val = None, None
                if isinstance(n, ast.Assign) and len(n.targets) == 1:
                    tgt, val = n.targets[0], n.value
                elif isinstance(n, ast.AnnAssign) and n.value is not None:
                    tgt, val = n.target, n.value
                if isinstance(tgt, ast.Attribute) and src(tgt.value) == 'self' \
                        and tgt.attr == attr and val is not None:
                    res = self.type_of(val, init, depth - 1)
        if res is None and attr in c.methods and c.methods[attr].is_property():
            r = c.methods[attr].node.returns
            res = 'set' if ann_is_set(r) else ann_class(r)
        self._attr_cache[key] = res
        return res

    def type_of(self, e: ast.AST, f: Func, depth: int = 4) -> Optional[str]:
        if depth < 0:
            return None
        if isinstance(e, (ast.Set, ast.SetComp)):
            return 'set'
        if isinstance(e, ast.Call):
            fs = src(e.func)
            if fs in ('set', 'frozenset'):
                return 'set'
            if isinstance(e.func, ast.Attribute) and e.func.attr in SET_RETURNING and \
                    self.type_of(e.func.value, f, depth - 1) == 'set':
                return 'set'
            r = self.index.resolve_callee(f.module, e.func, f.cls)
            if isinstance(r, Func):
                if ann_is_set(r.node.returns):
                    return 'set'
                return ann_class(r.node.returns)
            if isinstance(r, Cls):
                return r.name
            if isinstance(e.func, ast.Attribute):
                bt = self.type_of(e.func.value, f, depth - 1)
                c = self.index.find_class(bt) if bt and bt != 'set' else None
                if c is not None:
                    m = self.index.method(c, e.func.attr)
                    if m is not None:
                        return 'set' if ann_is_set(m.node.returns) else ann_class(m.node.returns)
            return None
        if isinstance(e, ast.BinOp) and isinstance(e.op, (ast.BitOr, ast.BitAnd, ast.Sub,
                                                         ast.BitXor)):
            if self.type_of(e.left, f, depth - 1) == 'set' or \
                    self.type_of(e.right, f, depth - 1) == 'set':
                return 'set'
            return None
        if isinstance(e, ast.IfExp):
            a, b = self.type_of(e.body, f, depth - 1), self.type_of(e.orelse, f, depth - 1)
            return 'set' if 'set' in (a, b) else a or b
        if isinstance(e, ast.Name):
            if e.id == 'self' and f.cls is not None:
                return f.cls.name
            for p in f.params():
                if p.arg == e.id:
                    if ann_is_set(p.annotation) or e.id in self.extra_params.get(f.qualname, ()):
                        # rebinding inside the function takes precedence below
                        rebound = self._local_defs(f, e.id)
                        if not rebound:
                            return 'set'
                    rebound = self._local_defs(f, e.id)
                    if not rebound:
                        return ann_class(p.annotation)
            defs = self._local_defs(f, e.id)
            if defs:
                ts = {self.type_of(v, f, depth - 1) for v in defs}
                if ts == {'set'}:
                    return 'set'
                if len(ts) == 1:
                    return ts.pop()
                return 'set' if 'set' in ts else None
            vals = f.module.assigns.get(e.id)
            if vals and len(vals) == 1 and isinstance(vals[0], (ast.Set, ast.SetComp)):
                return 'set'
            return None
        if isinstance(e, ast.Attribute):
            bt = self.type_of(e.value, f, depth - 1)
            if bt and bt != 'set':
                c = self.index.find_class(bt)
                if c is not None:
                    return self.attr_type(c, e.attr, depth - 1)
            return None
        return None

    def _local_defs(self, f: Func, name: str) -> List[ast.AST]:
        out = []
        for n in ast.walk(f.node):
            if isinstance(n, ast.Assign):
                for t in n.targets:
                    if isinstance(t, ast.Name) and t.id == name:
                        out.append(n.value)
            elif isinstance(n, ast.AnnAssign) and isinstance(n.target, ast.Name) \
                    and n.target.id == name and n.value is not None:
                out.append(n.value)
        return out

    # ---------------------------------------------------------- consumers
    def scan_function(self, f: Func) -> List[Tuple[str, int, str, str]]:
        """[(verdict, line, construct, reason)] for every use of a set-typed expression;
        verdict in {'ok', 'order-dependent', 'unknown', 'passes'}"""
        parents: Dict[int, ast.AST] = {}
        for n in ast.walk(f.node):
            for ch in ast.iter_child_nodes(n):
                parents[id(ch)] = n
        out: List[Tuple[str, int, str, str]] = []
        for n in ast.walk(f.node):
            if not isinstance(n, ast.expr) or isinstance(n, (ast.Set, ast.SetComp)):
                continue
            if isinstance(n, ast.Name) and not isinstance(n.ctx, ast.Load):
                continue
            if isinstance(n, ast.Attribute) and not isinstance(n.ctx, ast.Load):
                continue
            if not isinstance(n, (ast.Name, ast.Attribute, ast.Call, ast.BinOp)):
                continue
            if self.type_of(n, f) != 'set':
                continue
            out.append(self.consumer(n, parents, f))
        return out

    def consumer(self, n: ast.AST, parents: Dict[int, ast.AST], f: Func,
                 tainted_seq: bool = False) -> Tuple[str, int, str, str]:
        """judge how the value `n` (a set, or a sequence derived from a set in set order) is
        consumed by its parent"""
        p = parents.get(id(n))
        line = getattr(n, 'lineno', 0)
        text = src(p)[:120] if p is not None else src(n)
        what = 'set' if not tainted_seq else 'sequence in set order'
        if p is None:
            return ('ok', line, text, 'unused')
        if isinstance(p, ast.Call):
            if n is p.func:
                return ('ok', line, text, 'callee')
            fs = src(p.func)
            if isinstance(p.func, ast.Attribute) and p.func.value is n:
                return ('ok', line, text, 'method receiver')
            if fs in ORDER_FREE_CALLS or fs.split('.')[-1] in ('issubset', 'issuperset',
                                                                'isdisjoint', 'union',
                                                                'intersection', 'difference',
                                                                'update'):
                return ('ok', line, text, f'order-free consumer {fs}')
            if fs in ORDER_DEP_CALLS or fs.split('.')[-1] in ('choice', 'shuffle',
                                                               'permutation', 'choices'):
                if fs in ('list', 'tuple', 'reversed', 'map', 'filter', 'enumerate', 'zip',
                          'iter'):
                    # the resulting sequence is in set order: judged by *its* consumer
                    v = self.consumer(p, parents, f, tainted_seq=True)
                    if v[0] == 'ok':
                        return v
                    return ('order-dependent', line, text,
                            f'{fs}(<{what}>) materialises the hash order of the set: {v[3]}')
                return ('order-dependent', line, text,
                        f'{fs}(<{what}>) depends on the hash order of the set')
            # package function: parameter becomes set-typed
            r = self.index.resolve_callee(f.module, p.func, f.cls)
            if isinstance(r, Cls):
                r = self.index.method(r, '__init__')
            if isinstance(r, Func):
                pos = r.positional()
                pname = None
                for i, a in enumerate(p.args):
                    if a is n and i < len(pos):
                        pname = pos[i].arg
                for k in p.keywords:
                    if k.value is n:
                        pname = k.arg
                if pname:
                    return ('passes', line, text, f'{r.qualname}|{pname}')
            if tainted_seq:
                return ('order-dependent', line, text,
                        f'a {what} is passed to `{fs}`')
            return ('unknown', line, text, f'passed to unresolved `{fs}`')
        if isinstance(p, ast.keyword):
            pp = parents.get(id(p))
            if isinstance(pp, ast.Call):
                r = self.index.resolve_callee(f.module, pp.func, f.cls)
                if isinstance(r, Cls):
                    r = self.index.method(r, '__init__')
                if isinstance(r, Func) and p.arg:
                    return ('passes', line, src(pp)[:120], f'{r.qualname}|{p.arg}')
                if src(pp.func) == 'sorted':
                    return ('ok', line, src(pp)[:120], 'sorted')
            return ('unknown', line, text, 'keyword argument of an unresolved call')
        if isinstance(p, ast.Compare):
            return ('ok', line, text, 'comparison / membership')
        if isinstance(p, ast.BinOp) and isinstance(p.op, (ast.BitOr, ast.BitAnd, ast.Sub,
                                                         ast.BitXor)) and not tainted_seq:
            return ('ok', line, text, 'set algebra')
        if isinstance(p, ast.BoolOp) or isinstance(p, ast.UnaryOp) or isinstance(p, ast.If) \
                or isinstance(p, ast.IfExp) and n is p.test:
            return ('ok', line, text, 'truth test')
        if isinstance(p, (ast.Assign, ast.AnnAssign, ast.Return, ast.Expr)):
            if isinstance(p, ast.Assign) and any(isinstance(t, (ast.Tuple, ast.List))
                                                 for t in p.targets):
                return ('order-dependent', line, text, f'unpacking a {what}')
            if tainted_seq and isinstance(p, ast.Assign) and len(p.targets) == 1 and \
                    isinstance(p.targets[0], ast.Name):
                # follow the local: every use of it is a use of the tainted sequence
                name = p.targets[0].id
                worst = ('ok', line, text, 'tainted local never used order-sensitively')
                for m in ast.walk(f.node):
                    if isinstance(m, ast.Name) and m.id == name and isinstance(m.ctx, ast.Load):
                        v = self.consumer(m, parents, f, tainted_seq=True)
                        if v[0] != 'ok':
                            return ('order-dependent', line, text, v[3])
                return worst
            if tainted_seq and isinstance(p, ast.Return):
                return ('order-dependent', line, text, f'returns a {what}')
            return ('ok', line, text, 'stored / returned as a set')
        if isinstance(p, ast.comprehension) and n is p.iter:
            comp = parents.get(id(p))
            if isinstance(comp, ast.SetComp):
                return ('ok', line, src(comp)[:120], 'set comprehension')
            if isinstance(comp, (ast.ListComp, ast.GeneratorExp)):
                v = self.consumer(comp, parents, f, tainted_seq=True)
                if v[0] == 'ok':
                    return v
                return ('order-dependent', line, src(comp)[:120],
                        f'comprehension over a {what}: {v[3]}')
            return ('order-dependent', line, src(comp)[:120] if comp else text,
                    f'dict comprehension over a {what}')
        if isinstance(p, ast.For) and n is p.iter:
            only_checks = all(isinstance(s, (ast.Raise, ast.Pass)) or
                              (isinstance(s, ast.If) and all(isinstance(b, ast.Raise)
                                                            for b in s.body) and not s.orelse)
                              for s in p.body)
            if only_checks:
                return ('ok', line, f'for {src(p.target)} in {src(p.iter)}', 'validation loop')
            return ('order-dependent', line, f'for {src(p.target)} in {src(p.iter)}',
                    f'statement loop over a {what}')
        if isinstance(p, ast.Starred):
            return ('order-dependent', line, text, f'unpacking a {what}')
        if isinstance(p, ast.Subscript) and n is p.value and tainted_seq:
            return ('order-dependent', line, text, f'indexing a {what}')
        if isinstance(p, (ast.FormattedValue, ast.JoinedStr)):
            return ('ok', line, text, 'interpolated into a message')
        if isinstance(p, ast.Attribute):
            pp = parents.get(id(p))
            if p.attr == 'pop' and isinstance(pp, ast.Call):
                return ('order-dependent', line, src(pp), f'pop() from a {what}')
            return ('ok', line, text, 'attribute of a set')
        if isinstance(p, (ast.Tuple, ast.List, ast.Dict, ast.Set)) and not tainted_seq:
            return ('ok', line, text, 'stored in a container')
        return ('unknown', line, text, f'consumer {type(p).__name__} not classified')
