"""Constant folding of module-level data tables: literals, f-strings, comprehensions over other
literal tables (`{f"GV-{fam}-{size}-v0": f"{stem}.{size}.yaml" for fam, (stem, sizes) in
FAMILIES.items() for size in sizes}`).  Only data is folded -- displays, string operations,
comprehensions, the dict / sequence readers -- never a function of the repository."""
from __future__ import annotations

import ast
from typing import Any, Dict, Optional


class CannotFold(Exception):
    pass


_METHODS = {'items', 'keys', 'values', 'lower', 'upper', 'title', 'format', 'replace', 'strip',
            'split', 'join', 'startswith', 'endswith', 'get', 'capitalize', 'removesuffix',
            'removeprefix'}
_FUNCS = {'dict': dict, 'list': list, 'tuple': tuple, 'sorted': sorted, 'zip': zip,
          'enumerate': enumerate, 'range': range, 'str': str, 'len': len, 'set': set,
          'frozenset': frozenset, 'reversed': reversed, 'int': int}


def module_constant(mod, name: str) -> Optional[ast.AST]:
    """the value expression of a module-level name assigned exactly once"""
    hits = []
    for st in mod.tree.body:
        if isinstance(st, ast.Assign):
            for t in st.targets:
                if isinstance(t, ast.Name) and t.id == name:
                    hits.append(st.value)
        elif isinstance(st, ast.AnnAssign) and isinstance(st.target, ast.Name) and \
                st.target.id == name and st.value is not None:
            hits.append(st.value)
        elif isinstance(st, (ast.AugAssign,)) and isinstance(st.target, ast.Name) and \
                st.target.id == name:
            hits.append(None)
    return hits[0] if len(hits) == 1 else None


def fold(mod, e: ast.AST, env: Optional[Dict[str, Any]] = None, depth: int = 12) -> Any:
    env = env or {}
    if depth < 0:
        raise CannotFold('too deep')

    def rec(x, en=None):
        return fold(mod, x, env if en is None else en, depth - 1)
    if isinstance(e, ast.Constant):
        return e.value
    if isinstance(e, ast.Name):
        if e.id in env:
            return env[e.id]
        v = module_constant(mod, e.id)
        if v is None:
            raise CannotFold(f'`{e.id}` is not a module-level constant')
        return fold(mod, v, {}, depth - 1)
    if isinstance(e, ast.Tuple):
        return tuple(rec(x) for x in e.elts)
    if isinstance(e, ast.List):
        return [rec(x) for x in e.elts]
    if isinstance(e, ast.Set):
        return {rec(x) for x in e.elts}
    if isinstance(e, ast.Dict):
        out = {}
        for k, v in zip(e.keys, e.values):
            if k is None:
                out.update(rec(v))
            else:
                out[rec(k)] = rec(v)
        return out
    if isinstance(e, ast.JoinedStr):
        parts = []
        for p in e.values:
            if isinstance(p, ast.Constant):
                parts.append(str(p.value))
            elif isinstance(p, ast.FormattedValue) and p.conversion == -1 and \
                    p.format_spec is None:
                parts.append(format(rec(p.value)))
            else:
                raise CannotFold('f-string with a conversion / format spec')
        return ''.join(parts)
    if isinstance(e, ast.BinOp) and isinstance(e.op, (ast.Add, ast.Mult, ast.Mod, ast.BitOr)):
        a, b = rec(e.left), rec(e.right)
        try:
            if isinstance(e.op, ast.Add):
                return a + b
            if isinstance(e.op, ast.Mult):
                return a * b
            if isinstance(e.op, ast.BitOr):
                return a | b
            return a % b
        except Exception as x:      # noqa: BLE001
            raise CannotFold(str(x))
    if isinstance(e, ast.IfExp):
        return rec(e.body) if rec(e.test) else rec(e.orelse)
    if isinstance(e, ast.BoolOp):
        vals = [rec(v) for v in e.values]
        return all(vals) if isinstance(e.op, ast.And) else any(vals)
    if isinstance(e, ast.UnaryOp) and isinstance(e.op, ast.Not):
        return not rec(e.operand)
    if isinstance(e, ast.Compare) and len(e.ops) == 1:
        a, b, op = rec(e.left), rec(e.comparators[0]), e.ops[0]
        table = {ast.Eq: lambda: a == b, ast.NotEq: lambda: a != b, ast.In: lambda: a in b,
                 ast.NotIn: lambda: a not in b, ast.Lt: lambda: a < b, ast.LtE: lambda: a <= b,
                 ast.Gt: lambda: a > b, ast.GtE: lambda: a >= b}
        if type(op) in table:
            return table[type(op)]()
    if isinstance(e, ast.Subscript):
        v, k = rec(e.value), rec(e.slice) if not isinstance(e.slice, ast.Slice) else None
        if k is None:
            raise CannotFold('slice')
        try:
            return v[k]
        except Exception as x:      # noqa: BLE001
            raise CannotFold(str(x))
    if isinstance(e, ast.Call):
        if isinstance(e.func, ast.Attribute) and e.func.attr in _METHODS and not e.keywords:
            recv = rec(e.func.value)
            if not isinstance(recv, (dict, str)):
                raise CannotFold(f'method of {type(recv).__name__}')
            args = [rec(a) for a in e.args]
            r = getattr(recv, e.func.attr)(*args)
            return list(r) if e.func.attr in ('items', 'keys', 'values') else r
        if isinstance(e.func, ast.Name) and e.func.id in _FUNCS and e.func.id not in env and \
                module_constant(mod, e.func.id) is None:
            args = [rec(a) for a in e.args]
            kw = {k.arg: rec(k.value) for k in e.keywords if k.arg}
            try:
                r = _FUNCS[e.func.id](*args, **kw)
            except Exception as x:      # noqa: BLE001
                raise CannotFold(str(x))
            return list(r) if e.func.id in ('zip', 'enumerate', 'range', 'reversed') else r
        raise CannotFold(f'call `{ast.unparse(e)[:50]}`')
    if isinstance(e, (ast.ListComp, ast.SetComp, ast.GeneratorExp, ast.DictComp)):
        out = []

        def bind(t, v, en):
            if isinstance(t, ast.Name):
                en[t.id] = v
            elif isinstance(t, (ast.Tuple, ast.List)):
                vs = list(v)
                if len(vs) != len(t.elts):
                    raise CannotFold('unpacking')
                for tt, vv in zip(t.elts, vs):
                    bind(tt, vv, en)
            else:
                raise CannotFold('target')

        def gen(i, en):
            if i == len(e.generators):
                if isinstance(e, ast.DictComp):
                    out.append((rec(e.key, en), rec(e.value, en)))
                else:
                    out.append(rec(e.elt, en))
                return
            g = e.generators[i]
            for v in rec(g.iter, en):
                en2 = dict(en)
                bind(g.target, v, en2)
                if all(rec(c, en2) for c in g.ifs):
                    gen(i + 1, en2)
        gen(0, dict(env))
        if isinstance(e, ast.DictComp):
            d = {}
            for k, v in out:
                d[k] = v
            return d
        return set(out) if isinstance(e, ast.SetComp) else out
    raise CannotFold(f'`{ast.unparse(e)[:60]}`')
