#!/usr/bin/env python3
"""tools/mkctl.py <controls|seeded>/<name>: scratch copy of /repo with the patch applied (prints the dir)"""
import os, sys
HERE = os.path.dirname(os.path.dirname(os.path.abspath(__file__)))
sys.path.insert(0, HERE)
from gvstatic import selftest
d = selftest._make_patched(os.environ.get('VERIF_REPO', '/repo'), os.path.join(HERE, sys.argv[1], 'patch.diff'))
print(d)
