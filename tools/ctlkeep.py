#!/usr/bin/env python3
"""tools/ctlkeep.py <worktree> <prop-id> <X>...: validate a behaviour-preserving change, run all
checks on it; keep it under /verif/controls/<prop-id>-<X>/ when valid (silent or not: an
alarmed control is a false alarm to be fixed in the machinery)."""
import io, json, os, shutil, sys, contextlib
HERE = os.path.dirname(os.path.dirname(os.path.abspath(__file__)))
sys.path.insert(0, os.path.join(HERE, 'tools'))
import seedcheck

wt, pid = sys.argv[1], sys.argv[2]
for x in sys.argv[3:]:
    src = os.path.join(wt, '_seed', x)
    if not os.path.exists(os.path.join(src, 'patch.diff')):
        print(f'{pid}-{x}: no patch'); continue
    sys.argv = ['seedcheck', src, '--validate', wt, '--control']
    buf = io.StringIO()
    with contextlib.redirect_stdout(buf):
        out = seedcheck.main()
    if not out.get('valid'):
        print(f'{pid}-{x}: NOT VALID as a control ({out.get("demo_clean_exit")}/{out.get("demo_patched_exit")}, {out.get("baseline_with_patch")})')
        continue
    det = out.get('detected_by', {})
    dst = os.path.join(HERE, 'controls', f'{pid}-{x}')
    os.makedirs(dst, exist_ok=True)
    for fn in ('patch.diff', 'demo.py', 'notes.md'):
        if os.path.exists(os.path.join(src, fn)):
            shutil.copy(os.path.join(src, fn), dst)
    notes = open(os.path.join(src, 'notes.md')).read() if os.path.exists(os.path.join(src, 'notes.md')) else ''
    meta = {
        'name': f'{pid}-{x}: ' + next((l.strip('# *-').strip() for l in notes.splitlines() if len(l.strip()) > 25), '')[:200],
        'props': ['C01', 'C02', 'C03', 'C04', 'C05', 'C06', 'C07', 'C08', 'C09', 'C10', 'C11', 'C12',
                  'C13', 'C15', 'C16', 'C17', 'C18', 'C19', 'C20'],
        'written_against': pid[:3],
        'origin': 'independent sub-agent asked for a behaviour-preserving refactoring; given only the property text and a scratch worktree',
        'validated': {'demo_exit_clean_tree': out['demo_clean_exit'],
                      'demo_exit_with_patch': out['demo_patched_exit'],
                      'pinned_suite_with_patch': out['baseline_with_patch']},
        'alarms_when_first_run': {k: {'exit': v['exit'], 'rules': v['rules'], 'first': v['first']} for k, v in det.items()},
    }
    json.dump(meta, open(os.path.join(dst, 'meta.json'), 'w'), indent=1)
    if det:
        print(f'{pid}-{x}: FALSE ALARM by {sorted(det)}')
        for k, v in det.items():
            print(f'     {k} exit={v["exit"]} {v["first"][:230]}')
    else:
        print(f'{pid}-{x}: silent')
