#!/usr/bin/env python3
"""tools/seedrun.py [name-prefix ...]: run every check on every kept seeded change (or those
whose directory name starts with / contains a prefix) and print, per change, which checks report a
violation (exit 1, with the first finding) and which only stop with an analysis error (exit 2)."""
import json
import multiprocessing
import os
import shutil
import sys

HERE = os.path.dirname(os.path.dirname(os.path.abspath(__file__)))
sys.path.insert(0, HERE)
from gvstatic import selftest  # noqa: E402

ALL = ['C01', 'C02', 'C03', 'C04', 'C05', 'C06', 'C07', 'C08', 'C09', 'C10', 'C11', 'C12', 'C13',
       'C15', 'C16', 'C17', 'C18', 'C19', 'C20']


def work(args):
    repo, name, patch = args
    from gvstatic.main import analyse
    d = selftest._make_patched(repo, patch)
    if d is None:
        return name, {'-': (9, [], 'patch does not apply')}
    out = {}
    try:
        for pid in ALL:
            code, rep, msg = analyse(pid, d)
            if code != 0:
                first = ''
                rules = []
                if rep is not None and rep.findings:
                    f = rep.findings[0]
                    first = f'{f.rule} {f.file}:{f.line} in {f.function}: {f.reason}'
                    rules = sorted({x.rule for x in rep.findings})
                out[pid] = (code, rules, (first or msg)[:300])
    finally:
        shutil.rmtree(d, ignore_errors=True)
    return name, out


def main():
    repo = os.environ.get('VERIF_REPO', '/repo')
    pre = [a for a in sys.argv[1:] if not a.startswith('--')]
    update = '--update' in sys.argv
    base = os.path.join(HERE, 'seeded')
    names = [n for n in sorted(os.listdir(base))
             if os.path.exists(os.path.join(base, n, 'patch.diff'))
             and (not pre or any(p in n for p in pre))]
    with multiprocessing.Pool(min(16, max(1, len(names))), maxtasksperchild=4) as pool:
        res = pool.map(work, [(repo, n, os.path.join(base, n, 'patch.diff')) for n in names])
    missed = own_missed = 0
    for name, out in res:
        viol = {k: v for k, v in out.items() if v[0] == 1}
        err = {k: v for k, v in out.items() if v[0] == 2}
        own = name[:3]
        tag = 'DETECTED' if viol else ('ANALYSIS-ERROR only' if err else 'MISSED')
        if not viol:
            missed += 1
        if own not in viol:
            own_missed += 1
        print(f'{name}: {tag} violations={sorted(viol)} errors={sorted(err)}'
              f'{"" if own in viol else "   [own check silent]"}')
        for k, v in sorted(out.items()):
            print(f'    {k} exit={v[0]} {v[2]}')
        if update:
            mp = os.path.join(base, name, 'meta.json')
            m = json.load(open(mp))
            m['detected_by'] = {k: v[1] for k, v in viol.items()}
            m['analysis_error_in'] = sorted(err)
            m['first_report'] = {k: v[2] for k, v in viol.items()}
            m['detected'] = bool(viol)
            m['own_property_check_detects'] = own in viol
            json.dump(m, open(mp, 'w'), indent=1)
    print(f'{len(res) - missed}/{len(res)} reported as violations; '
          f'{len(res) - own_missed}/{len(res)} by the check of the property they break')


if __name__ == '__main__':
    main()
