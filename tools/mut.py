#!/usr/bin/env python3
"""ad-hoc mutation probe: tools/mut.py <ID[,ID..]> <relpath> <old> <new>   (textual, one occurrence)
copies the analysed part of /repo to a temp dir, applies the edit, runs the checks."""
import os, shutil, subprocess, sys, tempfile

ids, rel, old, new = sys.argv[1], sys.argv[2], sys.argv[3], sys.argv[4]
old = old.encode().decode('unicode_escape'); new = new.encode().decode('unicode_escape')
src = os.environ.get('VERIF_REPO', '/repo')
d = tempfile.mkdtemp(prefix='gvmut-')
try:
    for sub in ('gym_gridverse', 'yaml', 'examples', 'scripts', 'docs/tutorial'):
        shutil.copytree(os.path.join(src, sub), os.path.join(d, sub),
                        ignore=shutil.ignore_patterns('__pycache__', '*.pyc'))
    shutil.copy(os.path.join(src, 'setup.py'), d)
    p = os.path.join(d, rel)
    s = open(p).read()
    n = s.count(old)
    if n != 1:
        print(f'old text occurs {n} times'); sys.exit(3)
    open(p, 'w').write(s.replace(old, new))
    import ast; ast.parse(open(p).read()) if p.endswith('.py') else None
    env = dict(os.environ, VERIF_EVIDENCE_DIR=os.path.join(d, 'ev'))
    here = os.path.dirname(os.path.dirname(os.path.abspath(__file__)))
    for pid in ids.split(','):
        r = subprocess.run([os.path.join(here, 'check'), pid, '--repo', d], env=env,
                           capture_output=True, text=True)
        out = [l for l in r.stdout.splitlines() if not l.startswith('VIOLATION')]
        print(f'--- {pid} exit={r.returncode}')
        print('\n'.join(out[:12]))
        if r.stderr.strip(): print(r.stderr[-800:])
finally:
    shutil.rmtree(d, ignore_errors=True)
