#!/usr/bin/env python3
"""tools/gen_pinned_params.py [repo]: print the PARAMS table of gvstatic/pinned_names.py -- the
parameter names of every module-level function and method of the package on the pinned tree
(the `fix:` commits do not change any signature).  Not consulted for any verdict: it tells the
index which *optional* parameters were added later, so that they are read at their default."""
import ast
import glob
import os
import sys

repo = sys.argv[1] if len(sys.argv) > 1 else '/repo'
out = {}
for path in sorted(glob.glob(os.path.join(repo, 'gym_gridverse/**/*.py'), recursive=True)):
    rel = os.path.relpath(path, repo)
    tree = ast.parse(open(path).read())

    def add(prefix, fn):
        a = fn.args
        ps = [x.arg for x in a.posonlyargs + a.args + a.kwonlyargs]
        out[f'{rel}:{prefix}{fn.name}'] = ps

    def cls(prefix, c):
        for s in c.body:
            if isinstance(s, ast.FunctionDef):
                add(prefix + c.name + '.', s)
            elif isinstance(s, ast.ClassDef):
                cls(prefix + c.name + '.', s)
    for st in tree.body:
        if isinstance(st, ast.FunctionDef):
            add('', st)
        elif isinstance(st, ast.ClassDef):
            cls('', st)
print('PARAMS = {')
for k in sorted(out):
    print(f'    {k!r}: {out[k]!r},')
print('}')
