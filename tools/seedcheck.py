#!/usr/bin/env python3
"""tools/seedcheck.py <seed-dir> [--validate <worktree>] [--ids C01,C02,...]

Runs every check (or the listed ones) against a scratch copy of /repo with <seed-dir>/patch.diff
applied and prints which properties/rules report it.  With --validate, first confirms in the
given clean worktree that demo.py exits 0 without the patch, non-zero with it, and that the
pinned test suite still passes with the patch."""
import argparse, json, os, shutil, subprocess, sys, tempfile

HERE = os.path.dirname(os.path.dirname(os.path.abspath(__file__)))
ALL = ['C01', 'C02', 'C03', 'C04', 'C05', 'C06', 'C07', 'C08', 'C09', 'C10', 'C11', 'C12', 'C13',
       'C15', 'C16', 'C17', 'C18', 'C19', 'C20']


def sh(cmd, cwd=None, env=None):
    r = subprocess.run(cmd, cwd=cwd, env=env, capture_output=True, text=True)
    return r.returncode, r.stdout, r.stderr


def main():
    ap = argparse.ArgumentParser()
    ap.add_argument('seed')
    ap.add_argument('--validate')
    ap.add_argument('--ids')
    ap.add_argument('--repo', default='/repo')
    ap.add_argument('--control', action='store_true', help='behaviour-preserving change: demo must exit 0 with and without it')
    a = ap.parse_args()
    patch = os.path.abspath(os.path.join(a.seed, 'patch.diff'))
    demo = os.path.abspath(os.path.join(a.seed, 'demo.py'))
    out = {'seed': a.seed}
    if a.validate:
        wt = a.validate
        c, o, e = sh(['git', '-C', wt, 'status', '--porcelain', '--untracked-files=no'])
        if o.strip():
            print('worktree not clean:', o); sys.exit(3)
        c0, _, e0 = sh(['/venv/bin/python', '-W', 'ignore', demo], cwd=wt)
        ca, _, ea = sh(['git', '-C', wt, 'apply', patch])
        if ca != 0:
            print('patch does not apply:', ea); sys.exit(3)
        try:
            c1, _, e1 = sh(['/venv/bin/python', '-W', 'ignore', demo], cwd=wt)
            cb, ob, _ = sh(['python3', os.path.join(HERE, 'tools', 'baseline_check.py'), wt])
        finally:
            sh(['git', '-C', wt, 'checkout', '--', '.'])
        out['demo_clean_exit'] = c0
        out['demo_patched_exit'] = c1
        out['baseline_with_patch'] = ob.strip().splitlines()[0] if ob.strip() else ''
        out['valid'] = (c0 == 0 and (c1 == 0 if a.control else c1 != 0) and cb == 0)
        print(f'validate: demo clean={c0} patched={c1} baseline_exit={cb} -> '
              f'{"VALID" if out["valid"] else "INVALID"}')
        if c0 != 0:
            print(e0[-400:])
    d = tempfile.mkdtemp(prefix='gvseed-')
    try:
        for sub in ('gym_gridverse', 'yaml', 'examples', 'scripts'):
            shutil.copytree(os.path.join(a.repo, sub), os.path.join(d, sub),
                            ignore=shutil.ignore_patterns('__pycache__', '*.pyc'))
        shutil.copy(os.path.join(a.repo, 'setup.py'), d)
        c, o, e = sh(['git', 'apply', '--unsafe-paths', f'--directory={d}', patch], cwd=d)
        if c != 0:
            c, o, e = sh(['patch', '-p1', '-i', patch], cwd=d)
            if c != 0:
                print('cannot apply patch to scratch copy:', e or o); sys.exit(3)
        env = dict(os.environ, VERIF_EVIDENCE_DIR=os.path.join(d, '_ev'))
        hits = {}
        for pid in (a.ids.split(',') if a.ids else ALL):
            c, o, e = sh([os.path.join(HERE, 'check'), pid, '--repo', d], env=env)
            rules = sorted({l.split()[0] for l in o.splitlines()
                            if l.startswith('  C') and ' in ' in l})
            if c != 0:
                hits[pid] = {'exit': c, 'rules': rules,
                             'first': next((l.strip() for l in o.splitlines()
                                            if l.startswith('  C') or 'ANALYSIS-ERROR' in l), '')[:300]}
        out['detected_by'] = hits
        for pid, h in hits.items():
            print(f'  {pid} exit={h["exit"]} {h["rules"]}: {h["first"][:220]}')
        if not hits:
            print('  silent: no check reports it' if a.control else '  NOT DETECTED by any check')
    finally:
        shutil.rmtree(d, ignore_errors=True)
    print(json.dumps({k: v for k, v in out.items() if k != 'detected_by'}))
    return out


if __name__ == '__main__':
    main()
