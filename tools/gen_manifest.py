#!/usr/bin/env python3
"""regenerate MANIFEST.json from the table below (kept in one place so it stays valid)"""
import json, os
HERE = os.path.dirname(os.path.dirname(os.path.abspath(__file__)))
CHECKS = json.load(open(os.path.join(HERE, 'tools', 'manifest_checks.json')))
props = [json.loads(l)['id'] for l in open(os.path.join(HERE, 'properties.jsonl'))]
checks = []
na = []
for pid in props:
    c = CHECKS.get(pid)
    if c is None or c.get('not_applicable'):
        na.append({'property_id': pid, 'reason': (c or {}).get('not_applicable', 'check not built yet')})
        continue
    checks.append({
        'property_id': pid,
        'quick_cmd': f'./check {pid} --tier quick',
        'thorough_cmd': f'./check {pid} --tier thorough',
        'evidence_file': f'/verif/evidence/{pid}.json',
        'replay_cmd_template': f'./check {pid} --replay {{path}}',
        'engine': 'gvstatic',
        'level_claimed': {'category': 'other', 'text': c['text'], 'design_ref': c['design_ref']},
        'level_note': c['note'],
        'technique': c['technique'],
    })
m = {
    'version': 1,
    'setup_cmd': 'python3 -B -c "import ast, sys; assert sys.version_info >= (3, 9); import gvstatic.main"',
    'hooks': {
        'guard': 'GYM_GRIDVERSE_VERIF',
        'enable': 'none needed: the checks parse /repo\'s working tree with the standard-library ast module; nothing in /repo is instrumented',
        'baseline_off_cmd': 'python3 tools/baseline_check.py /repo',
        'source_commits': [],
        'add_only': True,
    },
    'engines': [{
        'name': 'gvstatic', 'path': '/verif/gvstatic',
        'serves_properties': [c['property_id'] for c in checks],
        'kind_free_text': 'repository-specific static analysis on the Python ast of /repo: repository index and call graph, guarded-event extraction (dominating guards), finite world-model evaluation of extracted guards, affine forms and index maps, effect summaries, YAML-subset reader; no code of gym_gridverse is imported or executed',
    }],
    'checks': checks,
    'not_applicable': na,
    'notes': 'All checks are static (technique family: static analysis). Exit 0 = all rule instances held; exit 1 + VIOLATION lines = a rule instance is broken; exit 2 + ANALYSIS-ERROR = the analysis could not be carried out (anchor vanished / construct outside the grammar). Genuine defects found and repaired are listed in known_findings.json (fixed entries only).',
}
json.dump(m, open(os.path.join(HERE, 'MANIFEST.json'), 'w'), indent=1)
print('checks', [c['property_id'] for c in checks], 'n/a', [n['property_id'] for n in na])
