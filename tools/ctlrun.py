#!/usr/bin/env python3
"""tools/ctlrun.py [name-prefix ...]: run every check on every kept control (or those whose
directory name starts with a prefix) and print the alarms, with the first finding each."""
import multiprocessing
import os
import shutil
import sys

HERE = os.path.dirname(os.path.dirname(os.path.abspath(__file__)))
sys.path.insert(0, HERE)
from gvstatic import selftest  # noqa: E402


def work(args):
    repo, v = args
    from gvstatic.main import analyse
    d = selftest._make_patched(repo, v['patch'])
    if d is None:
        return v['name'], {'-': (9, 'patch does not apply')}
    out = {}
    try:
        for pid in v['props']:
            code, rep, msg = analyse(pid, d)
            if code != 0:
                first = ''
                if rep is not None and rep.findings:
                    f = rep.findings[0]
                    first = f'{f.rule} {f.file}:{f.line} in {f.function}: {f.reason}'
                out[pid] = (code, (first or msg)[:330])
    finally:
        shutil.rmtree(d, ignore_errors=True)
    return v['name'], out


def main():
    repo = os.environ.get('VERIF_REPO', '/repo')
    pre = sys.argv[1:]
    vs = [v for v in selftest.patch_variants() if v['kind'] == 'control'
          and (not pre or any(os.path.basename(v['name']).startswith(p) for p in pre))]
    with multiprocessing.Pool(min(16, max(1, len(vs))), maxtasksperchild=4) as pool:
        res = pool.map(work, [(repo, v) for v in vs])
    bad = 0
    for name, out in sorted(res):
        if not out:
            print(f'{name}: silent')
            continue
        bad += 1
        print(f'{name}: ALARM {sorted(out)}')
        for pid, (code, first) in sorted(out.items()):
            print(f'    {pid} exit={code} {first}')
    print(f'{len(res) - bad}/{len(res)} controls silent')


if __name__ == '__main__':
    main()
