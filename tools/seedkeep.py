#!/usr/bin/env python3
"""tools/seedkeep.py <worktree> <prop-id> <X> [<X> ...]: validate <worktree>/_seed/<X>, run all
checks on it and keep it as /verif/seeded/<prop-id>-<X>/ (patch.diff, demo.py, notes.md, meta.json)"""
import io, json, os, shutil, subprocess, sys, contextlib
HERE = os.path.dirname(os.path.dirname(os.path.abspath(__file__)))
sys.path.insert(0, os.path.join(HERE, 'tools'))
import seedcheck

def needs(notes: str) -> str:
    """the text under the heading about what the change needs in order to manifest"""
    lines = notes.splitlines()
    for i, l in enumerate(lines):
        if l.lstrip().startswith('#') and ('manifest' in l.lower() or 'need' in l.lower()):
            body = []
            for m in lines[i + 1:]:
                if m.lstrip().startswith('#'):
                    break
                if m.strip():
                    body.append(m.strip())
            if body:
                return ' '.join(body)[:500]
    return next((l.strip() for l in lines if ('need' in l.lower() or 'manifest' in l.lower())
                 and len(l) > 30 and not l.lstrip().startswith('#')), '')[:500]


wt, pid = sys.argv[1], sys.argv[2]
for x in sys.argv[3:]:
    src = os.path.join(wt, '_seed', x)
    sys.argv = ['seedcheck', src, '--validate', wt]
    buf = io.StringIO()
    with contextlib.redirect_stdout(buf):
        out = seedcheck.main()
    if not out.get('valid'):
        print(f'{pid}-{x}: NOT VALID, not kept\n{buf.getvalue()[-500:]}')
        continue
    dst = os.path.join(HERE, 'seeded', f'{pid}-{x}')
    os.makedirs(dst, exist_ok=True)
    for fn in ('patch.diff', 'demo.py', 'notes.md'):
        if os.path.exists(os.path.join(src, fn)):
            shutil.copy(os.path.join(src, fn), dst)
    notes = open(os.path.join(src, 'notes.md')).read() if os.path.exists(os.path.join(src, 'notes.md')) else ''
    det = out.get('detected_by', {})
    meta = {
        'id': f'{pid}-{x}',
        'breaks_property': pid[:3],
        'origin': 'independent sub-agent given only the property text and a scratch worktree',
        'needs_to_manifest': needs(notes),
        'validated': {
            'demo_exit_clean_tree': out['demo_clean_exit'],
            'demo_exit_with_patch': out['demo_patched_exit'],
            'pinned_suite_with_patch': out['baseline_with_patch'],
            'how': 'tools/seedcheck.py --validate <worktree>: git apply patch.diff; '
                   '/venv/bin/python -W ignore demo.py; tools/baseline_check.py; git checkout -- .',
        },
        'detected_by': {k: v['rules'] for k, v in det.items()},
        'first_report': {k: v['first'] for k, v in det.items()},
        'detected': bool(det) and all(v['exit'] == 1 for v in det.values()) or any(v['exit'] == 1 for v in det.values()),
    }
    json.dump(meta, open(os.path.join(dst, 'meta.json'), 'w'), indent=1)
    print(f'{pid}-{x}: kept; detected by {sorted(det)}')
