#!/bin/bash
# run all quick checks against a repo (default /repo), in parallel
cd /verif
R=${1:-/repo}
for p in C01 C02 C03 C04 C05 C06 C07 C08 C09 C10 C11 C12 C13 C15 C16 C17 C18 C19 C20; do
  ( VERIF_EVIDENCE_DIR=/tmp/ev-$$ ./check $p --tier quick --repo $R > /tmp/runall-$p.out 2>&1; echo "$p exit=$? $(tail -1 /tmp/runall-$p.out | cut -c1-150)" ) &
done
wait
rm -rf /tmp/ev-$$
