#!/usr/bin/env python3
"""print the markdown tables of DESIGN.md §12/§13 from the kept metas"""
import glob
import json
import os
import re
import sys

ROOT = os.path.dirname(os.path.dirname(os.path.abspath(__file__)))


def first_change_line(d):
    p = os.path.join(d, 'notes.md')
    if not os.path.exists(p):
        return ''
    t = open(p).read()
    m = re.search(r'##\s*Change\s*\n(.*?)(?:\n##|\Z)', t, re.S)
    body = (m.group(1) if m else t).strip().split('\n\n')[0]
    body = ' '.join(x.strip() for x in body.splitlines())
    return body[:95].replace('|', '/')


def seeded(wave):
    print('| Id | Written against | Change (from the author\'s notes) | Needs | Reported by | exit 2 in |')
    print('|----|----|----|----|----|----|')
    for d in sorted(glob.glob(os.path.join(ROOT, 'seeded', f'*{wave}-*'))):
        m = json.load(open(os.path.join(d, 'meta.json')))
        det = ', '.join('/'.join(v) if len(v) > 1 and False else
                        (v[0] if len(v) == 1 else v[0] + '/' + '/'.join(x.split('.')[1] for x in v[1:]))
                        for k, v in sorted(m.get('detected_by', {}).items()) if v)
        own = '' if m.get('own_property_check_detects') else ' (own check silent)'
        needs = ' '.join(m.get('needs_to_manifest', '').split())[:75].replace('|', '/')
        print(f"| {m['id']} | {m['breaks_property']} | {first_change_line(d)} | {needs} | {det or '—'}{own} | "
              f"{', '.join(m.get('analysis_error_in', [])) or '—'} |")


def controls(wave):
    print('| Control | Refactoring | Alarmed when first run (now silent) |')
    print('|---------|-------------|-------------------------------------|')
    for d in sorted(glob.glob(os.path.join(ROOT, 'controls', f'*{wave}-*'))):
        m = json.load(open(os.path.join(d, 'meta.json')))
        name = m.get('name', os.path.basename(d))
        name = re.sub(r'^\S+:\s*', '', name)
        name = re.sub(r'^Refactoring [AB]\s*(--|:|-)?\s*', '', name)[:110].replace('|', '/')
        al = m.get('alarms_when_first_run', {})
        txt = ', '.join(f"{k}{' (exit 2)' if v.get('exit') == 2 else ''}" for k, v in sorted(al.items()))
        print(f"| {os.path.basename(d)} | {name} | {txt or '—'} |")


if __name__ == '__main__':
    kind, wave = sys.argv[1], sys.argv[2]
    (seeded if kind == 'seeded' else controls)(wave)
