#!/usr/bin/env python3
"""Run the repository's pinned test suite and compare with /root/.vp/BASELINE.json stable_pass.

Usage: baseline_check.py [repo_dir]   (default /repo)
Exit 0 iff every stable_pass test passed.
"""
import json, os, subprocess, sys, tempfile
import xml.etree.ElementTree as ET

repo = sys.argv[1] if len(sys.argv) > 1 else '/repo'
base = json.load(open('/root/.vp/BASELINE.json'))
want = set(base['stable_pass'])
with tempfile.TemporaryDirectory() as d:
    xml = os.path.join(d, 'j.xml')
    env = dict(os.environ)
    env.pop('GYM_GRIDVERSE_VERIF', None)
    subprocess.run(
        ['/venv/bin/python', '-m', 'pytest', '-ra', '-q', '-p', 'no:cacheprovider',
         '--timeout=900', '--continue-on-collection-errors', f'--junitxml={xml}'],
        cwd=repo, env=env, stdout=subprocess.DEVNULL, stderr=subprocess.DEVNULL)
    passed = set()
    for tc in ET.parse(xml).getroot().iter('testcase'):
        if not any(ch.tag in ('failure', 'error', 'skipped') for ch in tc):
            passed.add(f"{tc.get('classname')}::{tc.get('name')}")
missing = sorted(want - passed)
print(f'stable_pass={len(want)} passed_now={len(passed)} missing={len(missing)}')
for m in missing[:20]:
    print('  MISSING', m)
sys.exit(1 if missing else 0)
