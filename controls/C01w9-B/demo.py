"""Demo for change B (`Grid.colors()` used by the space-membership predicates).

Runs on the pristine tree and on the patched tree alike: it embeds reference
implementations (the pristine spelling) of `StateSpace.contains` and
`ObservationSpace.contains`, and compares the library predicates against them
and against hard-coded expectations on conforming and non-conforming states
and observations (wrong shape, undeclared type / colour in any cell, colour
NONE, empty colour list, agent outside the grid, undeclared held item, ...).
Then it checks the C01 property itself (closure + totality of
`GridWorld.functional_step`, observation membership, the debug gates that call
the predicates, rejection of actions outside the action space) on random
states and on random walks from the shipped reset functions.

`Grid.colors()` itself is only exercised when it exists.

Run from the worktree root:  /venv/bin/python _seed/B/demo.py
"""
import math
import os
import sys
from functools import partial

# run as `python _seed/B/demo.py` from the worktree root: import that tree
sys.path.insert(0, os.getcwd())

import numpy as np  # noqa: E402

from gym_gridverse.action import Action  # noqa: E402
from gym_gridverse.agent import Agent  # noqa: E402
from gym_gridverse.debugging import gv_debug, reset_gv_debug  # noqa: E402
from gym_gridverse.envs import observation_functions as obs_fs  # noqa: E402
from gym_gridverse.envs import reset_functions as reset_fs  # noqa: E402
from gym_gridverse.envs import reward_functions as reward_fs  # noqa: E402
from gym_gridverse.envs import terminating_functions as term_fs  # noqa: E402
from gym_gridverse.envs import transition_functions as trans_fs  # noqa: E402
from gym_gridverse.envs.gridworld import GridWorld  # noqa: E402
from gym_gridverse.geometry import (  # noqa: E402
    Area,
    Orientation,
    Position,
    Shape,
)
from gym_gridverse.grid import Grid  # noqa: E402
from gym_gridverse.grid_object import (  # noqa: E402
    Beacon,
    Box,
    Color,
    Door,
    Exit,
    Floor,
    Hidden,
    Key,
    MovingObstacle,
    NoneGridObject,
    Telepod,
    Wall,
)
from gym_gridverse.observation import Observation  # noqa: E402
from gym_gridverse.spaces import (  # noqa: E402
    ActionSpace,
    ObservationSpace,
    StateSpace,
)
from gym_gridverse.state import State  # noqa: E402

ALL_ACTIONS = list(Action)
ALL_ORIENTATIONS = [
    Orientation.FORWARD,
    Orientation.BACKWARD,
    Orientation.LEFT,
    Orientation.RIGHT,
]
ALL_TYPES = [
    Floor,
    Wall,
    Exit,
    Door,
    Key,
    MovingObstacle,
    Box,
    Telepod,
    Beacon,
]
ALL_COLORS = list(Color)

n_checks = 0


def check(condition, *info):
    global n_checks
    n_checks += 1
    if not condition:
        print('FAILED:', *info)
        sys.exit(1)


# --------------------------------------------------------------------------
# reference predicates: the pristine spelling, verbatim
# --------------------------------------------------------------------------


def ref_state_contains(space, state):
    return (
        state.grid.shape == space.grid_shape
        and state.grid.object_types().issubset(space.object_types)
        and set(
            state.grid[position].color
            for position in state.grid.area.positions()
        ).issubset(space.colors)
        and state.grid.area.contains(state.agent.position)
        and isinstance(state.agent.orientation, Orientation)
        and type(state.agent.grid_object) in space._agent_object_types
        and state.agent.grid_object.color in space.colors
    )


def ref_observation_contains(space, observation):
    have_same_shape = observation.grid.shape == space.grid_shape
    y_in_grid = 0 <= observation.agent.position.y < space.area.height
    x_in_grid = 0 <= observation.agent.position.x < space.area.width
    agent_obj_type_in_space = (
        type(observation.agent.grid_object) in space._agent_object_types
    )
    grid_objs_in_space = observation.grid.object_types().issubset(
        space._grid_object_types
    )
    grid_objs_colors_in_space = set(
        observation.grid[pos].color
        for pos in observation.grid.area.positions()
    ).issubset(space.colors)
    agent_obj_color_in_space = (
        observation.agent.grid_object.color in space.colors
    )

    return all(
        [
            have_same_shape,
            grid_objs_in_space,
            grid_objs_colors_in_space,
            y_in_grid,
            x_in_grid,
            agent_obj_type_in_space,
            agent_obj_color_in_space,
        ]
    )


def ref_grid_colors(grid):
    return {obj.color for row in grid.objects for obj in row}


def both_state(space, state, expected=None, *info):
    """library predicate == reference predicate (== expectation)"""
    got = space.contains(state)
    check(isinstance(got, bool), 'contains is not a bool', got, *info)
    check(got == ref_state_contains(space, state), 'state', state, *info)
    if expected is not None:
        check(got == expected, 'state expectation', expected, state, *info)
    # repeated call, same answer
    check(space.contains(state) == got)
    if hasattr(state.grid, 'colors'):
        colors = state.grid.colors()
        check(isinstance(colors, set))
        check(colors == ref_grid_colors(state.grid), 'Grid.colors', state)
    return got


def both_observation(space, observation, expected=None, *info):
    got = space.contains(observation)
    check(isinstance(got, bool), 'contains is not a bool', got, *info)
    check(
        got == ref_observation_contains(space, observation),
        'observation',
        observation,
        *info,
    )
    if expected is not None:
        check(got == expected, 'observation expectation', expected, *info)
    check(space.contains(observation) == got)
    if hasattr(observation.grid, 'colors'):
        check(observation.grid.colors() == ref_grid_colors(observation.grid))
    return got


# --------------------------------------------------------------------------
# part 1: hand-made states against hard-coded expectations
# --------------------------------------------------------------------------


def part1_states():
    shape = Shape(2, 3)  # non-square
    types = [Floor, Wall, Key, Door]

    def state(cells=(), position=Position(1, 1), orientation=None, held=None,
              grid_shape=shape):
        grid = Grid.from_shape(grid_shape)
        for p, obj in cells:
            grid[p] = obj
        return State(
            grid,
            Agent(
                position,
                Orientation.FORWARD if orientation is None else orientation,
                held,
            ),
        )

    red = StateSpace(shape, types, [Color.RED])
    nocolors = StateSpace(shape, types, [])  # only Color.NONE is declared
    everything = StateSpace(shape, types, ALL_COLORS)
    check(nocolors.colors == {Color.NONE})
    check(red.colors == {Color.NONE, Color.RED})

    corners = [Position(0, 0), Position(0, 2), Position(1, 0), Position(1, 2)]

    # plain conforming states
    for space in (red, nocolors, everything):
        for position in Grid.from_shape(shape).area.positions():
            for orientation in ALL_ORIENTATIONS:
                both_state(
                    space, state(position=position, orientation=orientation), True
                )

    # a coloured object in any single cell (corners, last cell, ...)
    for p in Grid.from_shape(shape).area.positions():
        both_state(red, state([(p, Key(Color.RED))]), True)
        both_state(red, state([(p, Key(Color.NONE))]), True)
        both_state(red, state([(p, Key(Color.BLUE))]), False)
        both_state(red, state([(p, Door(Door.Status.LOCKED, Color.BLUE))]), False)
        both_state(nocolors, state([(p, Key(Color.RED))]), False)
        both_state(nocolors, state([(p, Key(Color.NONE))]), True)
        both_state(everything, state([(p, Key(Color.YELLOW))]), True)
        # undeclared type, declared colour
        both_state(red, state([(p, Telepod(Color.RED))]), False)
        both_state(red, state([(p, Exit())]), False)
        both_state(red, state([(p, Hidden())]), False)
        both_state(red, state([(p, NoneGridObject())]), False)

    # one good colour and one bad colour, far apart
    both_state(
        red,
        state([(corners[0], Key(Color.RED)), (corners[3], Key(Color.GREEN))]),
        False,
    )
    both_state(
        red,
        state([(corners[0], Key(Color.RED)), (corners[3], Key(Color.RED))]),
        True,
    )

    # wrong shapes (transposed, larger, smaller), with and without bad colours
    for grid_shape in (Shape(3, 2), Shape(2, 4), Shape(1, 3), Shape(1, 1)):
        both_state(everything, state(grid_shape=grid_shape, position=Position(0, 0)), False)
        both_state(
            red,
            state(
                [(Position(0, 0), Key(Color.BLUE))],
                grid_shape=grid_shape,
                position=Position(0, 0),
            ),
            False,
        )

    # agent outside the grid
    for position in (
        Position(-1, 0),
        Position(0, -1),
        Position(2, 0),
        Position(0, 3),
        Position(2, 3),
    ):
        both_state(everything, state(position=position), False)

    # orientation that is not an Orientation
    both_state(everything, state(orientation=0), False)
    both_state(everything, state(orientation='N'), False)

    # held items
    both_state(red, state(held=Key(Color.RED)), True)
    both_state(red, state(held=Key(Color.NONE)), True)
    both_state(red, state(held=Key(Color.BLUE)), False)
    both_state(nocolors, state(held=Key(Color.RED)), False)
    both_state(red, state(held=Wall()), True)  # declared type
    both_state(red, state(held=Telepod(Color.RED)), False)
    both_state(red, state(held=Hidden()), False)
    both_state(red, state(held=NoneGridObject()), True)

    # box contents are not looked into (Box declared)
    boxes = StateSpace(shape, [Floor, Box], [])
    both_state(boxes, state([(corners[1], Box(Key(Color.RED)))]), True)


def part1_observations():
    shape = Shape(3, 5)
    types = [Floor, Wall, Key]
    red = ObservationSpace(shape, types, [Color.RED])
    nocolors = ObservationSpace(shape, types, [])
    check(nocolors.colors == {Color.NONE})

    def observation(cells=(), position=Position(2, 2), held=None,
                    grid_shape=shape, factory=Floor):
        grid = Grid.from_shape(grid_shape, factory=factory)
        for p, obj in cells:
            grid[p] = obj
        return Observation(grid, Agent(position, Orientation.FORWARD, held))

    both_observation(red, observation(), True)
    both_observation(red, observation(factory=Hidden), True)
    both_observation(nocolors, observation(factory=Hidden), True)
    for p in Grid.from_shape(shape).area.positions():
        both_observation(red, observation([(p, Key(Color.RED))]), True)
        both_observation(red, observation([(p, Key(Color.GREEN))]), False)
        both_observation(nocolors, observation([(p, Key(Color.RED))]), False)
        both_observation(nocolors, observation([(p, Key(Color.NONE))]), True)
        both_observation(red, observation([(p, Hidden())]), True)
        both_observation(red, observation([(p, NoneGridObject())]), False)
        both_observation(red, observation([(p, Exit())]), False)
        # the agent anywhere in the view
        both_observation(red, observation(position=p), True)

    for position in (Position(-1, 2), Position(3, 2), Position(0, 5), Position(0, -1)):
        both_observation(red, observation(position=position), False)

    for grid_shape in (Shape(5, 3), Shape(3, 3), Shape(1, 1)):
        both_observation(
            red, observation(grid_shape=grid_shape, position=Position(0, 0)), False
        )

    both_observation(red, observation(held=Key(Color.RED)), True)
    both_observation(red, observation(held=Key(Color.BLUE)), False)
    both_observation(red, observation(held=Hidden()), False)
    both_observation(red, observation(held=Telepod(Color.RED)), False)

    # even widths are rejected at construction, as before
    try:
        ObservationSpace(Shape(3, 4), types, [Color.RED])
    except ValueError:
        check(True)
    else:
        check(False, 'even width accepted')


# --------------------------------------------------------------------------
# part 2: random states / observations, many spaces
# --------------------------------------------------------------------------


def random_state(shape, rng, types=None, colors=None):
    height, width = shape.height, shape.width
    colors = ALL_COLORS if colors is None else colors
    types = ALL_TYPES if types is None else types

    def random_color():
        return colors[rng.integers(len(colors))]

    def random_object(depth=0):
        object_type = types[rng.integers(len(types))]
        if rng.integers(3) == 0 and Floor in types:
            object_type = Floor
        if object_type is Exit:
            return Exit(random_color())
        if object_type is Door:
            status = list(Door.Status)[rng.integers(3)]
            return Door(status, random_color())
        if object_type in (Key, Telepod, Beacon):
            return object_type(random_color())
        if object_type is Box:
            return Box(random_object(depth + 1) if depth < 2 else Wall())
        return object_type()

    grid = Grid(
        [[random_object() for _ in range(width)] for _ in range(height)]
    )
    position = Position(int(rng.integers(height)), int(rng.integers(width)))
    orientation = ALL_ORIENTATIONS[rng.integers(4)]
    held = [
        None,
        Key(random_color()) if Key in types else None,
        random_object(2),
    ][rng.integers(3)]
    return State(grid, Agent(position, orientation, held))


def part2_random_membership():
    rng = np.random.default_rng(99)
    shapes = [Shape(1, 1), Shape(1, 5), Shape(4, 1), Shape(3, 6)]
    type_sets = [
        ALL_TYPES,
        [Floor, Wall],
        [Floor, Key, Door, Telepod],
        [Wall],
    ]
    color_sets = [
        [],
        [Color.NONE],
        [Color.RED],
        [Color.BLUE, Color.YELLOW],
        ALL_COLORS,
        [Color.RED, Color.RED],  # duplicates are fine
    ]
    answers = {True: 0, False: 0}
    for shape in shapes:
        spaces = [
            StateSpace(shape, types, colors)
            for types in type_sets
            for colors in color_sets
        ]
        other_shape_space = StateSpace(
            Shape(shape.width, shape.height + 1), ALL_TYPES, ALL_COLORS
        )
        for k in range(60):
            gen_types = type_sets[k % len(type_sets)]
            gen_colors = color_sets[(k // 4) % len(color_sets)] or [Color.NONE]
            state = random_state(shape, rng, gen_types, gen_colors)
            for space in spaces:
                answers[both_state(space, state)] += 1
            both_state(other_shape_space, state, False)
            # the generating space accepts its own states
            gen_space = StateSpace(shape, gen_types + [Wall], gen_colors)
            both_state(gen_space, state, True)
    # the sample exercises both answers plenty
    check(answers[True] > 200 and answers[False] > 200, answers)


def part2_random_observations():
    rng = np.random.default_rng(5)
    view_areas = [
        ('fully_transparent', Area((0, 0), (0, 0))),
        ('fully_transparent', Area((-2, 1), (-1, 3))),  # asymmetric
        ('partially_occluded', Area((-3, 0), (-1, 3))),
        ('raytracing', Area((-6, 0), (-3, 3))),
        ('stochastic_raytracing', Area((-1, 2), (-2, 2))),
    ]
    color_sets = [[], [Color.RED], ALL_COLORS]
    type_sets = [ALL_TYPES, [Floor, Wall, Key]]
    for name, area in view_areas:
        view_shape = Shape(area.height, area.width)
        observation_function = partial(getattr(obs_fs, name), area=area)
        spaces = [
            ObservationSpace(view_shape, types, colors)
            for types in type_sets
            for colors in color_sets
        ]
        full = ObservationSpace(view_shape, ALL_TYPES, ALL_COLORS)
        for shape in (Shape(1, 1), Shape(2, 5), Shape(6, 3)):
            for k in range(20):
                gen_colors = color_sets[k % 3] or [Color.NONE]
                gen_types = type_sets[k % 2]
                state = random_state(shape, rng, gen_types, gen_colors)
                observation = observation_function(
                    state, rng=np.random.default_rng(k)
                )
                both_observation(full, observation, True)
                for space in spaces:
                    both_observation(space, observation)
                tight = ObservationSpace(
                    view_shape, gen_types + [Wall], gen_colors
                )
                both_observation(tight, observation, True)


# --------------------------------------------------------------------------
# part 3: the property on assembled environments
# --------------------------------------------------------------------------


def make_env(shape, reset_function, view_area, observation_name, actions,
             types=None, colors=None):
    types = ALL_TYPES if types is None else types
    colors = ALL_COLORS if colors is None else colors
    state_space = StateSpace(shape, types, colors)
    action_space = ActionSpace(actions)
    observation_space = ObservationSpace(
        Shape(view_area.height, view_area.width), types, colors
    )
    transition_function = partial(
        trans_fs.chain,
        transition_functions=[
            trans_fs.move_obstacles,
            trans_fs.move_agent,
            trans_fs.turn_agent,
            trans_fs.actuate_door,
            trans_fs.actuate_box,
            trans_fs.pickndrop,
            trans_fs.teleport,
        ],
    )
    observation_function = partial(
        getattr(obs_fs, observation_name), area=view_area
    )
    reward_function = partial(
        reward_fs.reduce_sum,
        reward_functions=[
            partial(reward_fs.living_reward, reward=-0.25),
            partial(reward_fs.reach_exit, reward_on=5.0),
            partial(reward_fs.bump_moving_obstacle, reward=-3.0),
            partial(reward_fs.bump_into_wall, reward=-2.0),
            partial(reward_fs.actuate_door, reward_open=1.5),
            partial(reward_fs.pickndrop, object_type=Key),
        ],
    )
    termination_function = partial(
        term_fs.reduce_any,
        terminating_functions=[
            term_fs.reach_exit,
            term_fs.bump_moving_obstacle,
            term_fs.bump_into_wall,
        ],
    )
    return GridWorld(
        state_space,
        action_space,
        observation_space,
        reset_function,
        transition_function,
        observation_function,
        reward_function,
        termination_function,
    )


def check_step(env, state, seed):
    """the C01 property for one state, all actions"""
    both_state(env.state_space, state, True)
    before = repr(state)
    for action in ALL_ACTIONS:
        if not env.action_space.contains(action):
            try:
                env.functional_step(state, action)
            except ValueError:
                check(repr(state) == before)
            else:
                check(False, 'action outside the space accepted', action)
            continue

        env.set_seed(seed)
        next_state, reward, terminal = env.functional_step(state, action)
        check(repr(state) == before, 'input state modified', action)
        both_state(env.state_space, next_state, True, 'not closed', action)
        check(next_state.grid.shape == state.grid.shape)
        check(next_state.grid.area.contains(next_state.agent.position))
        check(isinstance(reward, float) and math.isfinite(reward), reward)
        check(isinstance(terminal, bool), terminal)
        observation = env.functional_observation(next_state)
        both_observation(env.observation_space, observation, True)

    for bogus in (None, 7, 'PICK_N_DROP', Orientation.FORWARD):
        try:
            env.functional_step(state, bogus)
        except ValueError:
            check(repr(state) == before)
        else:
            check(False, 'bogus action accepted', bogus)


def part3_random_states():
    rng = np.random.default_rng(20240926)
    configs = [
        (Shape(1, 1), Area((-2, 0), (-1, 1)), 'fully_transparent'),
        (Shape(1, 5), Area((-3, 0), (-1, 3)), 'partially_occluded'),
        (Shape(4, 1), Area((-6, 0), (-3, 3)), 'raytracing'),
        (Shape(3, 6), Area((-1, 1), (-2, 2)), 'stochastic_raytracing'),
    ]
    action_sets = [ALL_ACTIONS, [Action.PICK_N_DROP, Action.TURN_LEFT]]
    unused_reset = partial(reset_fs.empty, shape=Shape(4, 4))
    for ci, (shape, view_area, observation_name) in enumerate(configs):
        for ai, actions in enumerate(action_sets):
            env = make_env(
                shape, unused_reset, view_area, observation_name, actions
            )
            for k in range(20):
                check_step(env, random_state(shape, rng), 100 * ci + k)

            # a colour-restricted environment: states generated inside it
            # stay inside it (no component invents colours)
            colors = [Color.GREEN]
            env = make_env(
                shape,
                unused_reset,
                view_area,
                observation_name,
                actions,
                colors=colors,
            )
            for k in range(20):
                state = random_state(shape, rng, colors=[Color.GREEN, Color.NONE])
                check_step(env, state, 100 * ci + k)


def part3_debug_gates():
    """the debug gates of GridWorld are driven by the predicates"""
    shape = Shape(2, 3)
    env = make_env(
        shape,
        partial(reset_fs.empty, shape=Shape(4, 4)),  # wrong shape on purpose
        Area((-2, 0), (-1, 1)),
        'fully_transparent',
        ALL_ACTIONS,
        types=[Floor, Wall, Key, Exit],
        colors=[Color.RED],
    )
    check(gv_debug() is True)

    def bad_states():
        grid = Grid.from_shape(shape)
        grid[Position(1, 2)] = Key(Color.BLUE)  # undeclared colour, last cell
        yield State(grid, Agent(Position(0, 0), Orientation.RIGHT))
        grid = Grid.from_shape(shape)
        grid[Position(0, 2)] = Telepod(Color.RED)  # undeclared type
        yield State(grid, Agent(Position(0, 0), Orientation.RIGHT))
        grid = Grid.from_shape(shape)
        yield State(grid, Agent(Position(0, 0), Orientation.RIGHT, Key(Color.GREEN)))
        yield State(Grid.from_shape(shape), Agent(Position(2, 0), Orientation.RIGHT))
        yield State(Grid.from_shape((3, 2)), Agent(Position(0, 0), Orientation.RIGHT))

    try:
        for state in bad_states():
            both_state(env.state_space, state, False)
            before = repr(state)
            reset_gv_debug(True)
            for action in ALL_ACTIONS:
                try:
                    env.functional_step(state, action)
                except ValueError:
                    check(repr(state) == before)
                else:
                    check(False, 'non-conforming state accepted in debug mode')

        # reset function producing states of another shape: caught in debug mode
        env.set_seed(0)
        try:
            env.functional_reset()
        except ValueError:
            check(True)
        else:
            check(False, 'non-conforming reset state accepted in debug mode')

        # an observation with an undeclared colour: caught in debug mode only
        grid = Grid.from_shape(shape)
        grid[Position(0, 1)] = Key(Color.BLUE)
        state = State(grid, Agent(Position(1, 1), Orientation.FORWARD))
        try:
            env.functional_observation(state)
        except ValueError:
            check(True)
        else:
            check(False, 'non-conforming observation accepted in debug mode')

        reset_gv_debug(False)
        observation = env.functional_observation(state)
        both_observation(env.observation_space, observation, False)
        check(env.functional_reset().grid.shape == Shape(4, 4))
    finally:
        reset_gv_debug(True)


def part3_reachable_states():
    """random walks from the shipped reset functions, tight spaces"""
    resets = [
        (Shape(4, 7), partial(reset_fs.empty, shape=Shape(4, 7))),
        (
            Shape(5, 5),
            partial(
                reset_fs.empty,
                shape=Shape(5, 5),
                random_agent=True,
                random_exit=True,
            ),
        ),
        (Shape(7, 9), partial(reset_fs.keydoor, shape=Shape(7, 9))),
        (Shape(7, 9), partial(reset_fs.teleport, shape=Shape(7, 9))),
        (
            Shape(6, 8),
            partial(
                reset_fs.dynamic_obstacles,
                shape=Shape(6, 8),
                num_obstacles=3,
                random_agent=True,
            ),
        ),
        (
            Shape(7, 9),
            partial(
                reset_fs.crossing,
                shape=Shape(7, 9),
                num_rivers=2,
                object_type=Wall,
            ),
        ),
        (
            Shape(5, 9),
            partial(
                reset_fs.memory,
                shape=Shape(5, 9),
                colors={Color.RED, Color.GREEN},
            ),
        ),
    ]
    view_areas = [Area((-6, 0), (-3, 3)), Area((-2, 1), (-1, 3))]
    walk_rng = np.random.default_rng(7)
    for ri, (shape, reset_function) in enumerate(resets):
        # the tight declaration: what the reset function can produce, found
        # by sampling it, plus Floor (left behind when picking up)
        types, colors = {Floor}, set()
        for seed in range(30):
            state = reset_function(rng=np.random.default_rng(seed))
            types |= state.grid.object_types()
            colors |= ref_grid_colors(state.grid)
        types = sorted(types, key=lambda t: t.__name__)
        colors = sorted(colors, key=lambda c: c.value)

        for vi, view_area in enumerate(view_areas):
            env = make_env(
                shape,
                reset_function,
                view_area,
                'raytracing',
                ALL_ACTIONS,
                types=types,
                colors=colors,
            )
            other = make_env(
                shape, reset_function, view_area, 'raytracing', ALL_ACTIONS
            )
            for seed in (0, 1, 1, 29):
                env.set_seed(seed)
                other.set_seed(seed)
                env.reset()
                other.reset()
                check(env.state == other.state)
                both_state(env.state_space, env.state, True)
                both_state(other.state_space, other.state, True)
                both_observation(env.observation_space, env.observation, True)
                for t in range(30):
                    check_step(env, env.state, seed=100 * ri + t)
                    action = ALL_ACTIONS[walk_rng.integers(len(ALL_ACTIONS))]
                    env.set_seed(t)
                    other.set_seed(t)
                    reward, terminal = env.step(action)
                    reward_o, terminal_o = other.step(action)
                    check(env.state == other.state)
                    check(reward == reward_o and terminal == terminal_o)
                    both_state(env.state_space, env.state, True)
                    both_observation(
                        env.observation_space, env.observation, True
                    )
                    both_observation(
                        other.observation_space, other.observation, True
                    )


def main():
    part1_states()
    part1_observations()
    part2_random_membership()
    part2_random_observations()
    part3_debug_gates()
    part3_random_states()
    part3_reachable_states()
    print(f'OK ({n_checks} checks)')


if __name__ == '__main__':
    main()
