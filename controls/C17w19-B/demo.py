"""Demo for change B (utils/registry.py: FunctionRegistry.get_nonprotocol_keys,
used by the six component factories).

Exits 0 on the pristine tree and with the change applied.  It checks that

* for every registered component name in every registry, ``factory(name,
  **parameters)`` is exactly ``functools.partial(underlying, **accepted)``
  where ``accepted`` holds the parameters the component takes (in the order
  they were given) and everything else is ignored;  the accepted / required
  names are recomputed here from the signature by an independent reference,
  and compared with a hard-coded table;
* a missing required parameter is a ``ValueError`` naming the first missing
  one (signature order), an unknown name is a ``ValueError``; neither modifies
  the parameters given;
* the same holds for freshly registered components with awkward signatures
  (positional-only, defaults in between, ``None`` defaults, var-keyword);
* components obtained by name behave like the underlying function called with
  those parameters (seeded, on non-square grids, all headings, borders);
* every shipped configuration builds (twice, input untouched) an environment
  which behaves like the one assembled by hand from the underlying functions
  bound with ``functools.partial`` -- no factory involved;
* corrupted configurations are rejected with a schema or value error.
"""
import copy
import functools
import glob
import inspect
import itertools as itt
import os
import sys
import warnings

warnings.filterwarnings('ignore')

ROOT = os.getcwd()
sys.path.insert(0, ROOT)
sys.path.insert(0, os.path.join(ROOT, 'examples'))  # coin_env.yaml

import numpy.random as rnd  # noqa: E402
from schema import SchemaError  # noqa: E402

from gym_gridverse.action import Action  # noqa: E402
from gym_gridverse.agent import Agent  # noqa: E402
from gym_gridverse.envs import (  # noqa: E402
    observation_functions as observation_fs,
    reset_functions as reset_fs,
    reward_functions as reward_fs,
    terminating_functions as terminating_fs,
    transition_functions as transition_fs,
    visibility_functions as visibility_fs,
)
from gym_gridverse.envs.gridworld import GridWorld  # noqa: E402
from gym_gridverse.envs.yaml import factory as yaml_factory  # noqa: E402
from gym_gridverse.geometry import (  # noqa: E402
    Area,
    Orientation,
    Position,
    Shape,
    distance_function_factory,
)
from gym_gridverse.grid_object import (  # noqa: E402
    Color,
    Exit,
    Key,
    Wall,
    grid_object_registry,
)
from gym_gridverse.spaces import (  # noqa: E402
    ActionSpace,
    ObservationSpace,
    StateSpace,
)
from gym_gridverse.state import State  # noqa: E402
from gym_gridverse.utils.custom import import_if_custom  # noqa: E402

checks = 0


def check(condition, message):
    global checks
    checks += 1
    if not condition:
        print('FAIL:', message)
        sys.exit(1)


# kind -> (module, registry, number of positional protocol parameters)
KINDS = {
    'reset': (reset_fs, reset_fs.reset_function_registry, 0),
    'transition': (transition_fs, transition_fs.transition_function_registry, 2),
    'reward': (reward_fs, reward_fs.reward_function_registry, 3),
    'observation': (
        observation_fs,
        observation_fs.observation_function_registry,
        1,
    ),
    'visibility': (visibility_fs, visibility_fs.visibility_function_registry, 2),
    'terminating': (
        terminating_fs,
        terminating_fs.terminating_function_registry,
        3,
    ),
}


def reference_keys(kind, function):
    """independent of the registry: the protocol is the first n parameters
    and the parameter named `rng`"""
    n = KINDS[kind][2]
    parameters = list(inspect.signature(function).parameters.values())
    rest = [p for p in parameters[n:] if p.name != 'rng']
    required = [p.name for p in rest if p.default is inspect.Parameter.empty]
    optional = [p.name for p in rest if p.default is not inspect.Parameter.empty]
    return required, optional


def pristine_keys(registry, function):
    """the two comprehensions of the pristine factories, verbatim"""
    signature = inspect.signature(function)
    required_keys = [
        parameter.name
        for parameter in registry.get_nonprotocol_parameters(signature)
        if parameter.default is inspect.Parameter.empty
    ]
    optional_keys = [
        parameter.name
        for parameter in registry.get_nonprotocol_parameters(signature)
        if parameter.default is not inspect.Parameter.empty
    ]
    return required_keys, optional_keys


EXPECTED_KEYS = {
    ('observation', 'from_visibility'): (['area', 'visibility_function'], []),
    ('observation', 'fully_transparent'): (['area'], []),
    ('observation', 'partially_occluded'): (['area'], []),
    ('observation', 'raytracing'): (['area'], []),
    ('observation', 'stochastic_raytracing'): (['area'], []),
    ('reset', 'crossing'): (['shape', 'num_rivers', 'object_type'], []),
    ('reset', 'dynamic_obstacles'): (
        ['shape', 'num_obstacles'],
        ['random_agent'],
    ),
    ('reset', 'empty'): (['shape'], ['random_agent', 'random_exit']),
    ('reset', 'keydoor'): (['shape'], []),
    ('reset', 'memory'): (['shape', 'colors'], []),
    ('reset', 'memory_rooms'): (
        ['shape', 'layout', 'colors', 'num_beacons', 'num_exits'],
        [],
    ),
    ('reset', 'rooms'): (['shape', 'layout'], []),
    ('reset', 'teleport'): (['shape'], []),
    ('reward', 'actuate_door'): ([], ['reward_open', 'reward_close']),
    ('reward', 'bump_into_wall'): ([], ['reward']),
    ('reward', 'bump_moving_obstacle'): ([], ['reward']),
    ('reward', 'getting_closer'): (
        ['object_type'],
        ['distance_function', 'reward_closer', 'reward_further'],
    ),
    ('reward', 'getting_closer_shortest_path'): (
        ['object_type'],
        ['reward_closer', 'reward_further'],
    ),
    ('reward', 'living_reward'): ([], ['reward']),
    ('reward', 'overlap'): (['object_type'], ['reward_on', 'reward_off']),
    ('reward', 'pickndrop'): (['object_type'], ['reward_pick', 'reward_drop']),
    ('reward', 'proportional_to_distance'): (
        ['object_type'],
        ['distance_function', 'reward_per_unit_distance'],
    ),
    ('reward', 'reach_exit'): ([], ['reward_on', 'reward_off']),
    ('reward', 'reach_exit_memory'): ([], ['reward_good', 'reward_bad']),
    ('reward', 'reduce'): (['reward_functions', 'reduction'], []),
    ('reward', 'reduce_sum'): (['reward_functions'], []),
    ('terminating', 'bump_into_wall'): ([], []),
    ('terminating', 'bump_moving_obstacle'): ([], []),
    ('terminating', 'overlap'): (['object_type'], []),
    ('terminating', 'reach_exit'): ([], []),
    ('terminating', 'reduce'): (['terminating_functions', 'reduction'], []),
    ('terminating', 'reduce_all'): (['terminating_functions'], []),
    ('terminating', 'reduce_any'): (['terminating_functions'], []),
    ('transition', 'actuate_box'): ([], []),
    ('transition', 'actuate_door'): ([], []),
    ('transition', 'chain'): (['transition_functions'], []),
    ('transition', 'move_agent'): ([], []),
    ('transition', 'move_obstacles'): ([], []),
    ('transition', 'pickndrop'): ([], []),
    ('transition', 'teleport'): ([], []),
    ('transition', 'turn_agent'): ([], []),
    ('visibility', 'fully_transparent'): ([], []),
    ('visibility', 'partially_occluded'): ([], []),
    ('visibility', 'raytracing'): ([], ['absolute_counts', 'threshold']),
    ('visibility', 'stochastic_raytracing'): ([], []),
}

# --------------------------------------------------------------------------
# awkward components, registered under names nobody else uses
# --------------------------------------------------------------------------


def _demo_reset_awkward(
    shape, flag=None, *, scale, rng=None, offset=0, **extra
):  # pragma: no cover
    raise AssertionError('never called')


def _demo_reward_awkward(
    state, action, next_state, /, bonus, *, rng=None, zeta=None, alpha
):  # pragma: no cover
    raise AssertionError('never called')


def _demo_transition_awkward(state, action, a=1, b=None, *, rng=None, c):
    state.agent.orientation = Orientation.BACKWARD if b is None else b


def _demo_terminating_awkward(state, action, next_state, *, rng=None):
    return True


def _demo_observation_awkward(state, *, rng=None, area=None, rng_=3):
    raise AssertionError('never called')


def _demo_visibility_awkward(grid, position, rng=None, *, level=0):
    raise AssertionError('never called')


AWKWARD = {
    ('reset', '_demo_b_awkward'): (
        _demo_reset_awkward,
        (['shape', 'scale', 'extra'], ['flag', 'offset']),
    ),
    ('reward', '_demo_b_awkward'): (
        _demo_reward_awkward,
        (['bonus', 'alpha'], ['zeta']),
    ),
    ('transition', '_demo_b_awkward'): (
        _demo_transition_awkward,
        (['c'], ['a', 'b']),
    ),
    ('terminating', '_demo_b_awkward'): (_demo_terminating_awkward, ([], [])),
    ('observation', '_demo_b_awkward'): (
        _demo_observation_awkward,
        ([], ['area', 'rng_']),
    ),
    ('visibility', '_demo_b_awkward'): (
        _demo_visibility_awkward,
        ([], ['level']),
    ),
}
for (kind, name), (function, keys) in AWKWARD.items():
    registry = KINDS[kind][1]
    if name not in registry:
        registry.register(function, name=name)
    EXPECTED_KEYS[kind, name] = keys

# custom (`module:name`) components of the example
import coin_env  # noqa: E402,F401

# --------------------------------------------------------------------------
# 1. factory(name, **parameters) == partial(underlying, **accepted)
# --------------------------------------------------------------------------


class Sentinel:
    def __init__(self, label):
        self.label = label

    def __repr__(self):
        return f'Sentinel({self.label})'


def same_partial(made, function, accepted):
    return (
        isinstance(made, functools.partial)
        and made.func is function
        and made.args == ()
        and list(made.keywords.items()) == list(accepted.items())
        and all(made.keywords[k] is accepted[k] for k in accepted)
    )


JUNK = ['junk', 'rng_', 'Shape', 'nome', 'self', 'kwargs', '']

n_components = 0
for kind, (module, registry, _) in KINDS.items():
    for name, function in list(registry.items()):
        n_components += 1
        required, optional = reference_keys(kind, function)
        check(
            pristine_keys(registry, function) == (required, optional),
            f'{kind} {name}: reference implementations disagree',
        )
        if (kind, name) in EXPECTED_KEYS:
            check(
                (required, optional) == EXPECTED_KEYS[kind, name],
                f'{kind} {name}: keys {required} {optional}',
            )
        if hasattr(registry, 'get_nonprotocol_keys'):
            for _ in range(2):  # repeated calls, fresh lists
                keys = registry.get_nonprotocol_keys(
                    inspect.signature(function)
                )
                check(
                    isinstance(keys, tuple)
                    and len(keys) == 2
                    and all(type(k) is list for k in keys)
                    and tuple(keys) == (required, optional),
                    f'{kind} {name}: get_nonprotocol_keys {keys}',
                )
                keys[0].append('poison')
                keys[1].append('poison')
        # the protocol parameters never count
        check(
            'rng' not in required + optional
            and 'rng' in inspect.signature(function).parameters,
            f'{kind} {name}: rng',
        )

        everything = required + optional
        # parameter sets: orders, subsets of the optional ones, junk mixed in
        orders = [everything, everything[::-1], optional + required]
        parameter_sets = []
        for order in orders:
            parameter_sets.append({k: Sentinel(k) for k in order})
            mixed = {}
            for k, junk in itt.zip_longest(order, JUNK):
                if junk is not None:
                    mixed[junk] = Sentinel(junk)
                if k is not None:
                    mixed[k] = Sentinel(k)
            parameter_sets.append(mixed)
        for r in range(len(optional) + 1):
            for subset in itt.combinations(optional, r):
                parameter_sets.append(
                    {k: Sentinel(k) for k in list(subset) + required + ['zzz']}
                )
        parameter_sets.append({k: None for k in everything})  # None is a value

        for parameters in parameter_sets:
            snapshot = dict(parameters)
            made = module.factory(name, **parameters)
            accepted = {
                k: v for k, v in parameters.items() if k in everything
            }
            check(
                same_partial(made, function, accepted),
                f'{kind} {name}: factory({list(parameters)}) -> {made}',
            )
            check(parameters == snapshot, f'{kind} {name}: parameters changed')
            # repeatable, independent objects
            again = module.factory(name, **parameters)
            check(
                same_partial(again, function, accepted) and again is not made,
                f'{kind} {name}: second factory call',
            )

        # missing required parameters: the first missing one is reported
        for r in range(1, len(required) + 1):
            for missing in itt.combinations(required, r):
                parameters = {
                    k: Sentinel(k)
                    for k in ['junk'] + optional + required
                    if k not in missing
                }
                snapshot = dict(parameters)
                try:
                    module.factory(name, **parameters)
                except ValueError as error:
                    check(
                        str(error) == f'missing keyword argument `{missing[0]}`',
                        f'{kind} {name}: missing {missing}: {error}',
                    )
                else:
                    check(False, f'{kind} {name}: built without {missing}')
                check(parameters == snapshot, f'{kind} {name}: changed')
        if not required:
            check(
                same_partial(module.factory(name), function, {}),
                f'{kind} {name}: no parameters',
            )

    # unknown names
    for bad in ['', 'no_such_component', 'Empty', ' empty', 'empty ', 'rng']:
        if bad in registry:
            continue
        try:
            module.factory(bad, shape=Shape(3, 3))
        except ValueError as error:
            check(
                str(error) == f'invalid {kind} function name {bad}',
                f'{kind}: unknown name message {error}',
            )
        else:
            check(False, f'{kind}: unknown name {bad!r} accepted')

built_in = {key for key in EXPECTED_KEYS}
registered = {(kind, name) for kind in KINDS for name in KINDS[kind][1]}
check(built_in <= registered, f'not registered: {built_in - registered}')
check(n_components >= len(EXPECTED_KEYS), 'components')

# custom names go through the same path
made = reset_fs.factory('coin_env:coin_maze', junk=1)
check(
    same_partial(made, reset_fs.reset_function_registry['coin_maze'], {}),
    'custom reset',
)
try:
    reset_fs.factory('coin_env:no_such_component')
except ValueError as error:
    check(
        str(error) == 'invalid reset function name no_such_component',
        f'custom unknown: {error}',
    )
else:
    check(False, 'custom unknown name accepted')

# awkward components really are called with what was given
made = transition_fs.factory('_demo_b_awkward', c=1, b=Orientation.LEFT, d=4)
state = reset_fs.empty(Shape(4, 6))
made(state, Action.TURN_LEFT)
check(state.agent.orientation is Orientation.LEFT, 'awkward transition b')
made = transition_fs.factory('_demo_b_awkward', c=1, b=None)
made(state, Action.TURN_LEFT)
check(state.agent.orientation is Orientation.BACKWARD, 'awkward transition None')

# --------------------------------------------------------------------------
# 2. behaviour: by name == underlying function with those parameters
# --------------------------------------------------------------------------


def outcome(f):
    try:
        return ('ok', f())
    except Exception as error:  # pylint: disable=broad-except
        return (type(error).__name__, str(error))


COLORS = [
    {Color.RED},
    {Color.RED, Color.GREEN, Color.BLUE, Color.YELLOW},
    {Color.NONE, Color.BLUE},
    {Color.RED, Color.GREEN},
    {Color.YELLOW, Color.GREEN, Color.BLUE},
]
RESET_PARAMETERS = {
    'empty': [
        dict(shape=Shape(h, w), random_agent=a, random_exit=e)
        for (h, w), a, e in itt.product(
            [(3, 3), (4, 9), (9, 4), (4, 4), (6, 7), (1, 5)],
            [False, True],
            [False, True],
        )
    ]
    + [dict(shape=Shape(5, 6)), dict(shape=Shape(5, 6), random_exit=True)],
    'rooms': [
        dict(shape=Shape(h, w), layout=layout)
        for (h, w), layout in [
            ((7, 7), (2, 2)),
            ((7, 10), (2, 3)),
            ((13, 9), (3, 2)),
            ((5, 9), (1, 2)),
            ((4, 4), (2, 2)),
            ((3, 3), (1, 1)),
        ]
    ],
    'dynamic_obstacles': [
        dict(shape=Shape(h, w), num_obstacles=n, **extra)
        for (h, w), n, extra in itt.product(
            [(5, 5), (4, 7), (8, 5), (3, 3)],
            [0, 1, 3, 50],
            [{}, {'random_agent': True}, {'random_agent': False}],
        )
    ],
    'keydoor': [
        dict(shape=Shape(h, w))
        for h, w in [(5, 5), (3, 5), (5, 9), (9, 6), (3, 4), (2, 9), (4, 6), (6, 4), (3, 6)]
    ],
    'crossing': [
        dict(shape=Shape(h, w), num_rivers=n, object_type=t)
        for (h, w), n, t in itt.product(
            [(5, 5), (7, 9), (9, 5), (6, 6), (5, 8), (11, 7)], [0, 1, 3], [Wall, Exit, Key]
        )
    ],
    'teleport': [
        dict(shape=Shape(h, w))
        for h, w in [(5, 5), (4, 7), (7, 4), (3, 3), (2, 2)]
    ],
    'memory': [
        dict(shape=Shape(h, w), colors=c)
        for (h, w), c in itt.product([(5, 5), (5, 8), (9, 5), (4, 4), (5, 9), (7, 7)], COLORS)
    ]
    + [dict(shape=Shape(5, 5), colors=set())],
    'memory_rooms': [
        dict(
            shape=Shape(h, w),
            layout=layout,
            colors=c,
            num_beacons=nb,
            num_exits=ne,
        )
        for ((h, w), layout), c, (nb, ne) in itt.product(
            [((7, 7), (2, 2)), ((7, 10), (2, 3)), ((10, 10), (3, 3))],
            COLORS,
            [(1, 1), (1, 2), (3, 2), (2, 4)],
        )
    ],
}
check(
    set(RESET_PARAMETERS)
    == {name for kind, name in EXPECTED_KEYS if kind == 'reset'}
    - {'_demo_b_awkward'},
    'reset parameter sets do not cover the registry',
)

states = []
for name, parameter_sets in RESET_PARAMETERS.items():
    function = reset_fs.reset_function_registry[name]
    required, optional = EXPECTED_KEYS['reset', name]
    for parameters, seed in itt.product(parameter_sets, [0, 3]):
        given = dict(parameters, ignored_parameter=17, area='ignored too')
        snapshot = copy.deepcopy(given)
        by_name = reset_fs.factory(name, **given)
        a = outcome(lambda: by_name(rng=rnd.default_rng(seed)))
        b = outcome(lambda: function(**parameters, rng=rnd.default_rng(seed)))
        check(a == b, f'reset {name} {parameters}: {a[0]} != {b[0]}')
        check(given == snapshot, f'reset {name}: parameters changed')
        # repeatable
        check(
            a == outcome(lambda: by_name(rng=rnd.default_rng(seed))),
            f'reset {name} {parameters}: not repeatable',
        )
        if a[0] == 'ok':
            states.append(a[1])
check(len(states) > 200, f'only {len(states)} states')

# a spread of states: every heading, borders and corners
probe_states = []
for state in states[::7]:
    h, w = state.grid.shape.height, state.grid.shape.width
    for position, orientation in zip(
        [
            Position(0, 0),
            Position(0, w - 1),
            Position(h - 1, 0),
            Position(h - 1, w - 1),
            Position(h // 2, w // 2),
            state.agent.position,
        ],
        itt.cycle(Orientation),
    ):
        probe = copy.deepcopy(state)
        probe.agent.position = position
        probe.agent.orientation = orientation
        probe_states.append(probe)
check(len(probe_states) > 150, 'probe states')

AREAS = [
    Area((-6, 0), (-3, 3)),
    Area((-2, 1), (-1, 4)),
    Area((0, 0), (0, 0)),
    Area((-3, 3), (-3, 3)),
    Area((-1, 5), (-4, 0)),
]
VISIBILITY_PARAMETERS = {
    'fully_transparent': [{}],
    'partially_occluded': [{}],
    'raytracing': [
        {},
        {'absolute_counts': False},
        {'threshold': 3},
        {'absolute_counts': False, 'threshold': 0.3},
    ],
    'stochastic_raytracing': [{}],
}
for name, parameter_sets in VISIBILITY_PARAMETERS.items():
    function = visibility_fs.visibility_function_registry[name]
    for parameters in parameter_sets:
        by_name = visibility_fs.factory(name, **parameters, area=AREAS[0])
        for state in probe_states[::5]:
            grid = state.grid
            position = state.agent.position
            a = outcome(
                lambda: by_name(grid, position, rng=rnd.default_rng(1)).tolist()
            )
            b = outcome(
                lambda: function(
                    grid, position, **parameters, rng=rnd.default_rng(1)
                ).tolist()
            )
            check(a == b, f'visibility {name} {parameters}')

for name in ['fully_transparent', 'partially_occluded', 'raytracing', 'stochastic_raytracing']:
    function = observation_fs.observation_function_registry[name]
    for area in AREAS:
        by_name = observation_fs.factory(
            name, area=area, shape=Shape(3, 3), visibility_function=None
        )
        for state in probe_states[::3]:
            a = outcome(lambda: by_name(state, rng=rnd.default_rng(2)))
            b = outcome(lambda: function(state, area=area, rng=rnd.default_rng(2)))
            check(a == b, f'observation {name} {area}')
for visibility_name, parameter_sets in VISIBILITY_PARAMETERS.items():
    for parameters in parameter_sets:
        visibility_function = visibility_fs.factory(visibility_name, **parameters)
        by_name = observation_fs.factory(
            'from_visibility',
            visibility_function=visibility_function,
            area=AREAS[1],
        )
        for state in probe_states[::9]:
            a = outcome(lambda: by_name(state, rng=rnd.default_rng(2)))
            b = outcome(
                lambda: observation_fs.from_visibility(
                    state,
                    area=AREAS[1],
                    visibility_function=functools.partial(
                        visibility_fs.visibility_function_registry[
                            visibility_name
                        ],
                        **parameters,
                    ),
                    rng=rnd.default_rng(2),
                )
            )
            check(a == b, f'from_visibility {visibility_name} {parameters}')

TRANSITION_NAMES = [
    'move_agent',
    'turn_agent',
    'actuate_door',
    'actuate_box',
    'pickndrop',
    'move_obstacles',
    'teleport',
]
for name in TRANSITION_NAMES:
    function = transition_fs.transition_function_registry[name]
    by_name = transition_fs.factory(name, shape=Shape(2, 2), p=0.5)
    for state, action in zip(probe_states, itt.cycle(Action)):
        s_a, s_b = copy.deepcopy(state), copy.deepcopy(state)
        a = outcome(lambda: by_name(s_a, action, rng=rnd.default_rng(4)))
        b = outcome(lambda: function(s_b, action, rng=rnd.default_rng(4)))
        check(a == b and s_a == s_b, f'transition {name} {action}')
chain_names = ['move_agent', 'turn_agent', 'pickndrop', 'move_obstacles']
by_name = transition_fs.factory(
    'chain',
    transition_functions=[transition_fs.factory(n) for n in chain_names],
    ignored=1,
)
for state, action in zip(probe_states, itt.cycle(Action)):
    s_a, s_b = copy.deepcopy(state), copy.deepcopy(state)
    by_name(s_a, action, rng=rnd.default_rng(4))
    transition_fs.chain(
        s_b,
        action,
        transition_functions=[
            transition_fs.transition_function_registry[n] for n in chain_names
        ],
        rng=rnd.default_rng(4),
    )
    check(s_a == s_b, f'transition chain {action}')

manhattan = distance_function_factory('manhattan')
euclidean = distance_function_factory('euclidean')
REWARD_PARAMETERS = {
    'living_reward': [{}, {'reward': -0.5}, {'reward': 0.0}],
    'reach_exit': [{}, {'reward_on': 5.0}, {'reward_off': -1.0, 'reward_on': 2.0}],
    'bump_moving_obstacle': [{}, {'reward': -3.0}],
    'bump_into_wall': [{}, {'reward': -3.0}],
    'actuate_door': [{}, {'reward_open': 2.0}, {'reward_close': -2.0, 'reward_open': 3.0}],
    'overlap': [{'object_type': Exit}, {'object_type': Wall, 'reward_on': 3.0, 'reward_off': 1.0}],
    'pickndrop': [{'object_type': Key}, {'object_type': Key, 'reward_pick': 2.0, 'reward_drop': -3.0}],
    'getting_closer': [
        {'object_type': Exit},
        {'object_type': Exit, 'distance_function': euclidean, 'reward_closer': 0.5},
        {'object_type': Exit, 'distance_function': manhattan, 'reward_further': -0.5},
    ],
    'getting_closer_shortest_path': [
        {'object_type': Exit},
        {'object_type': Exit, 'reward_closer': 0.5, 'reward_further': -0.25},
    ],
    'proportional_to_distance': [
        {'object_type': Exit},
        {'object_type': Exit, 'distance_function': euclidean, 'reward_per_unit_distance': -0.5},
    ],
    'reach_exit_memory': [{}, {'reward_good': 3.0, 'reward_bad': -4.0}],
}
TERMINATING_PARAMETERS = {
    'reach_exit': [{}],
    'bump_moving_obstacle': [{}],
    'bump_into_wall': [{}],
    'overlap': [{'object_type': Exit}, {'object_type': Wall}],
}
step = transition_fs.factory(
    'chain',
    transition_functions=[
        transition_fs.factory('move_agent'),
        transition_fs.factory('turn_agent'),
        transition_fs.factory('move_obstacles'),
    ],
)
transitions = []
for state, action in zip(probe_states, itt.cycle(Action)):
    next_state = copy.deepcopy(state)
    step(next_state, action, rng=rnd.default_rng(5))
    transitions.append((state, action, next_state))

for module, registry, table in (
    (reward_fs, reward_fs.reward_function_registry, REWARD_PARAMETERS),
    (
        terminating_fs,
        terminating_fs.terminating_function_registry,
        TERMINATING_PARAMETERS,
    ),
):
    for name, parameter_sets in table.items():
        function = registry[name]
        for parameters in parameter_sets:
            by_name = module.factory(
                name, **parameters, shape=Shape(1, 1), ignored=None
            )
            for state, action, next_state in transitions:
                a = outcome(
                    lambda: by_name(
                        state, action, next_state, rng=rnd.default_rng(6)
                    )
                )
                b = outcome(
                    lambda: function(
                        state,
                        action,
                        next_state,
                        **parameters,
                        rng=rnd.default_rng(6),
                    )
                )
                check(
                    a == b and type(a[1]) is type(b[1]),
                    f'{name} {parameters}: {a} != {b}',
                )

# reductions: every part evaluated, in order
calls = []


def recorder(label, value):
    def function(state, action, next_state, *, rng=None):
        calls.append(label)
        return value

    return function


for values in itt.product([False, True], repeat=3):
    parts = [recorder(i, v) for i, v in enumerate(values)]
    state, action, next_state = transitions[0]
    for name, reduction in (('reduce_any', any), ('reduce_all', all)):
        by_name = terminating_fs.factory(
            name, terminating_functions=parts, reduction='ignored'
        )
        calls.clear()
        result = by_name(state, action, next_state)
        calls_by_name = list(calls)
        calls.clear()
        expected = terminating_fs.terminating_function_registry[name](
            state, action, next_state, terminating_functions=parts
        )
        check(
            result is expected is reduction(values)
            and calls_by_name == calls,
            f'{name} {values}',
        )
    by_name = terminating_fs.factory(
        'reduce', terminating_functions=parts, reduction=lambda i: list(i)
    )
    check(by_name(state, action, next_state) == list(values), 'reduce')

    rewards = [recorder(i, float(v) + i) for i, v in enumerate(values)]
    by_name = reward_fs.factory('reduce_sum', reward_functions=rewards)
    check(
        by_name(state, action, next_state)
        == reward_fs.reduce_sum(
            state, action, next_state, reward_functions=rewards
        )
        == sum(float(v) + i for i, v in enumerate(values)),
        f'reduce_sum {values}',
    )
for name in ('reduce_any', 'reduce_all'):
    by_name = terminating_fs.factory(name, terminating_functions=[])
    check(
        by_name(*transitions[0]) is (name == 'reduce_all'), f'{name} of nothing'
    )
check(
    reward_fs.factory('reduce_sum', reward_functions=[])(*transitions[0]) == 0,
    'reduce_sum of nothing',
)


# --------------------------------------------------------------------------
# minimal YAML reader (PyYAML may be missing;  `import yaml` from the worktree
# root then finds the `yaml/` directory of configurations instead).  Handles
# what the shipped configurations use: block mappings, block sequences, flow
# sequences, ints, floats, booleans, plain strings.
# --------------------------------------------------------------------------


def _scalar(text):
    text = text.strip()
    if text.startswith('['):
        value, rest = _flow(text)
        assert not rest.strip(), text
        return value
    if text in ('True', 'true'):
        return True
    if text in ('False', 'false'):
        return False
    if text in ('null', '~'):
        return None
    for convert in (int, float):
        try:
            return convert(text)
        except ValueError:
            pass
    assert not any(c in text for c in '#\'"{}&*!|>'), text
    return text


def _flow(text):
    assert text[0] == '['
    text = text[1:]
    items = []
    while True:
        text = text.lstrip()
        if text[0] == ']':
            return items, text[1:]
        if text[0] == '[':
            item, text = _flow(text)
            items.append(item)
        else:
            end = min(i for i in (text.find(','), text.find(']')) if i >= 0)
            items.append(_scalar(text[:end]))
            text = text[end:]
        text = text.lstrip()
        if text[0] == ',':
            text = text[1:]


def _block(lines, i, indent):
    """parses the block starting at lines[i] with the given indent"""
    if lines[i][1].startswith('- '):
        items = []
        while i < len(lines) and lines[i][0] == indent:
            assert lines[i][1].startswith('- '), lines[i]
            content = lines[i][1][2:]
            if ':' in content and not content.lstrip().startswith('['):
                lines[i] = (indent + 2, content)
                item, i = _block(lines, i, indent + 2)
            else:
                item, i = _scalar(content), i + 1
            items.append(item)
        assert i == len(lines) or lines[i][0] < indent, lines[i]
        return items, i

    mapping = {}
    while i < len(lines) and lines[i][0] == indent:
        key, _, rest = lines[i][1].partition(':')
        assert _ == ':' and key not in mapping, lines[i]
        if rest.strip():
            mapping[key], i = _scalar(rest), i + 1
        else:
            assert lines[i + 1][0] > indent, lines[i]
            mapping[key], i = _block(lines, i + 1, lines[i + 1][0])
    assert i == len(lines) or lines[i][0] < indent, lines[i]
    return mapping, i


def mini_yaml_load(text):
    lines = [
        (len(line) - len(line.lstrip(' ')), line.strip())
        for line in text.splitlines()
        if line.strip() and not line.strip().startswith('#')
    ]
    value, i = _block(lines, 0, 0)
    assert i == len(lines)
    return value


def load(path):
    with open(path) as f:
        text = f.read()
    data = mini_yaml_load(text)
    try:
        import yaml

        safe_load = yaml.safe_load
    except (ImportError, AttributeError):
        pass
    else:
        assert safe_load(text) == data, path
    return data

# --------------------------------------------------------------------------
# 3. shipped configurations == assembled by hand, without any factory
# --------------------------------------------------------------------------

config_paths = sorted(
    glob.glob(os.path.join(ROOT, 'yaml', '*.yaml'))
    + glob.glob(os.path.join(ROOT, 'gym_gridverse', 'registered_envs', '*.yaml'))
    + glob.glob(os.path.join(ROOT, 'examples', '*.yaml'))
)
check(len(config_paths) >= 43, f'only {len(config_paths)} configurations found')
configs = {path: load(path) for path in config_paths}

for path in glob.glob(os.path.join(ROOT, 'yaml', '*.yaml')):
    packaged = os.path.join(
        ROOT, 'gym_gridverse', 'registered_envs', os.path.basename(path)
    )
    check(os.path.exists(packaged), f'no packaged copy of {path}')
    with open(path, 'rb') as f, open(packaged, 'rb') as g:
        check(f.read() == g.read(), f'packaged copy of {path} differs')


def hand_component(kind, data):
    """the underlying function, bound to the parameters it accepts"""
    data = dict(data)
    name = import_if_custom(data.pop('name'))
    for key, sub_kind in (
        ('transition_functions', 'transition'),
        ('reward_functions', 'reward'),
        ('terminating_functions', 'terminating'),
    ):
        if key in data:
            data[key] = [hand_component(sub_kind, d) for d in data[key]]
    if 'reward_function' in data:
        data['reward_function'] = hand_component(
            'reward', data['reward_function']
        )
    if 'distance_function' in data:
        data['distance_function'] = distance_function_factory(
            data['distance_function']
        )
    if 'visibility_function' in data:
        data['visibility_function'] = hand_component(
            'visibility', data['visibility_function']
        )
    if 'shape' in data:
        data['shape'] = Shape(*data['shape'])
    if 'layout' in data:
        data['layout'] = tuple(data['layout'])
    if 'area' in data:
        data['area'] = Area(*data['area'])
    if 'object_type' in data:
        data['object_type'] = grid_object_registry.from_name(
            data['object_type']
        )
    if 'colors' in data:
        data['colors'] = {Color[c] for c in data['colors']}

    function = KINDS[kind][1][name]
    required, optional = reference_keys(kind, function)
    assert all(key in data for key in required), (kind, name)
    accepted = {k: v for k, v in data.items() if k in required + optional}
    return functools.partial(function, **accepted)


def hand_env(data):
    def object_types(names):
        return [
            grid_object_registry.from_name(import_if_custom(n)) for n in names
        ]

    def colors(names):
        return [Color[n] for n in names]

    action_space = (
        ActionSpace([Action[n] for n in data['action_space']])
        if 'action_space' in data
        else ActionSpace(list(Action))
    )
    reset_function = hand_component('reset', data['reset_function'])
    transition_function = functools.partial(
        transition_fs.chain,
        transition_functions=[
            hand_component('transition', d)
            for d in data['transition_functions']
        ],
    )
    reward_function = functools.partial(
        reward_fs.reduce_sum,
        reward_functions=[
            hand_component('reward', d) for d in data['reward_functions']
        ],
    )
    observation_function = hand_component(
        'observation', data['observation_function']
    )
    terminating_function = hand_component(
        'terminating', data['terminating_function']
    )
    state = reset_function()
    observation = observation_function(state)
    return GridWorld(
        StateSpace(
            state.grid.shape,
            object_types(data['state_space']['objects']),
            colors(data['state_space']['colors']),
        ),
        action_space,
        ObservationSpace(
            observation.grid.shape,
            object_types(data['observation_space']['objects']),
            colors(data['observation_space']['colors']),
        ),
        reset_function,
        transition_function,
        observation_function,
        reward_function,
        terminating_function,
    )


def same_space(a, b):
    return (
        type(a) is type(b)
        and a.grid_shape == b.grid_shape
        and list(a.object_types) == list(b.object_types)
        and list(a.colors) == list(b.colors)
    )


def rollout(env, seed, actions):
    env.set_seed(seed)
    env.reset()
    trace = [(env.state, env.observation)]
    for action in actions:
        reward, done = env.step(action)
        trace.append((env.state, env.observation, reward, done))
        if done:
            env.reset()
            trace.append((env.state, env.observation))
    return trace


def action_sequences(actions):
    yield [actions[i % len(actions)] for i in range(24)]
    yield [actions[(i * i + 3 * i) % len(actions)] for i in range(40)]
    forward = (
        Action.MOVE_FORWARD if Action.MOVE_FORWARD in actions else actions[0]
    )
    yield [forward] * 12
    yield []


for path, data in configs.items():
    label = os.path.relpath(path, ROOT)
    pristine = copy.deepcopy(data)
    env_1 = yaml_factory.factory_env_from_data(data)
    check(data == pristine, f'{label}: building modified its input')
    env_2 = yaml_factory.factory_env_from_data(data)
    check(data == pristine, f'{label}: second build modified its input')
    env_hand = hand_env(data)
    envs = [env_1, env_2, env_hand]
    for env in envs[1:]:
        check(same_space(env.state_space, env_1.state_space), f'{label} state space')
        check(
            same_space(env.observation_space, env_1.observation_space),
            f'{label} observation space',
        )
        check(
            list(env.action_space.actions) == list(env_1.action_space.actions),
            f'{label} action space',
        )
    actions = list(env_1.action_space.actions)
    for seed in (0, 1, 17):
        for sequence in action_sequences(actions):
            traces = [rollout(env, seed, sequence) for env in envs]
            for trace in traces[1:]:
                check(trace == traces[0], f'{label} seed {seed}: rollouts differ')
        check(
            rollout(env_1, seed, actions[:1] * 5)
            == rollout(env_1, seed, actions[:1] * 5),
            f'{label} seed {seed}: not repeatable',
        )

# --------------------------------------------------------------------------
# 4. corruptions of the parameters: rejected, or ignored when not accepted
# --------------------------------------------------------------------------


def function_dicts(data):
    """(kind, path) of every function description in a configuration"""
    yield 'reset', ('reset_function',)
    for i in range(len(data['transition_functions'])):
        yield 'transition', ('transition_functions', i)
    for i in range(len(data['reward_functions'])):
        yield 'reward', ('reward_functions', i)
    yield 'observation', ('observation_function',)
    yield 'terminating', ('terminating_function',)
    for i in range(
        len(data['terminating_function'].get('terminating_functions', []))
    ):
        yield 'terminating', ('terminating_function', 'terminating_functions', i)


def at(data, path):
    for key in path:
        data = data[key]
    return data


n_rejected = n_ignored = 0
for path, data in configs.items():
    label = os.path.relpath(path, ROOT)
    reference_trace = None
    for kind, where in function_dicts(data):
        description = at(data, where)
        name = import_if_custom(description['name'])
        required, optional = reference_keys(kind, KINDS[kind][1][name])

        # every required parameter is needed
        for key in required:
            if key not in description:
                continue  # given by the factory (e.g. never for shipped ones)
            document = copy.deepcopy(data)
            del at(document, where)[key]
            snapshot = copy.deepcopy(document)
            try:
                yaml_factory.factory_env_from_data(document)
            except ValueError as error:
                n_rejected += 1
                check(
                    str(error) == f'missing keyword argument `{key}`',
                    f'{label} {where} without {key}: {error}',
                )
            else:
                check(False, f'{label} {where} built without {key}')
            check(document == snapshot, f'{label}: rejection modified input')

        # unknown component names
        document = copy.deepcopy(data)
        at(document, where)['name'] = 'no_such_component'
        try:
            yaml_factory.factory_env_from_data(document)
        except ValueError as error:
            n_rejected += 1
            check(
                str(error) == f'invalid {kind} function name no_such_component',
                f'{label} {where} unknown name: {error}',
            )
        else:
            check(False, f'{label} {where} unknown name was built')

        # a parameter the component does not accept is ignored
        document = copy.deepcopy(data)
        at(document, where)['not_a_parameter'] = [1, 2, 3]
        if 'layout' not in required + optional:
            at(document, where)['layout'] = [7, 9]
        env = yaml_factory.factory_env_from_data(document)
        env_0 = yaml_factory.factory_env_from_data(data)
        actions = list(env.action_space.actions)
        sequence = [actions[(i * i + i) % len(actions)] for i in range(20)]
        check(
            rollout(env, 3, sequence) == rollout(env_0, 3, sequence),
            f'{label} {where}: unaccepted parameter was not ignored',
        )
        n_ignored += 1

    # malformed values are schema errors
    for key, bad in (
        ('shape', [0, 3]),
        ('shape', [3]),
        ('layout', [2, 2, 2]),
        ('colors', ['PURPLE']),
        ('colors', []),
        ('object_type', 3),
    ):
        document = copy.deepcopy(data)
        document['reset_function'][key] = bad
        try:
            yaml_factory.factory_env_from_data(document)
        except SchemaError:
            n_rejected += 1
        else:
            check(False, f'{label}: reset {key}={bad} was built')
    document = copy.deepcopy(data)
    document['action_space'] = ['MOVE_FORWARD', 'FLY']
    try:
        yaml_factory.factory_env_from_data(document)
    except SchemaError:
        n_rejected += 1
    else:
        check(False, f'{label}: unknown action was built')

check(n_rejected > 800 and n_ignored > 300, f'{n_rejected} {n_ignored}')

print(
    f'OK ({checks} checks, {n_components} components, {len(states)} reset '
    f'states, {n_rejected} rejected builds, {n_ignored} ignored parameters)'
)
