"""shared part of the demos (pasted verbatim into each demo.py)"""
import hashlib
import itertools as itt
import os
import sys

sys.path.insert(0, os.getcwd())

import numpy as np  # noqa: E402

from gym_gridverse import rng as gv_rng  # noqa: E402
from gym_gridverse.envs import reset_functions as rf  # noqa: E402
from gym_gridverse.geometry import Orientation, Position, Shape  # noqa: E402
from gym_gridverse.grid_object import (  # noqa: E402
    Beacon,
    Color,
    Door,
    Exit,
    Floor,
    Key,
    MovingObstacle,
    NoneGridObject,
    Telepod,
    Wall,
)
from gym_gridverse.state import State  # noqa: E402

# ---------------------------------------------------------------- utilities


def summarize(state):
    """a plain, comparable and hashable description of a state"""
    grid = state.grid
    return (
        grid.shape.as_tuple,
        tuple(
            tuple(repr(grid[y, x]) for x in range(grid.shape.width))
            for y in range(grid.shape.height)
        ),
        state.agent.position.yx,
        state.agent.orientation.name,
        repr(state.agent.grid_object),
    )


def run(function, *args, seed, **kwargs):
    """outcome of a reset function:  state + stream position, or the error"""
    rng = np.random.default_rng(seed)
    try:
        state = function(*args, rng=rng, **kwargs)
    except Exception as error:  # pylint: disable=broad-except
        return ('error', type(error).__name__, str(error)), None
    assert isinstance(state, State), state
    stream = rng.bit_generator.state['state']
    return ('state', summarize(state), (stream['state'], stream['inc'])), state


def cells(state, object_type):
    grid = state.grid
    return [
        position
        for position in grid.area.positions()
        if type(grid[position]) is object_type
    ]


# ------------------------------------------------------- the property (C13)


def check_wellformed(state, shape):
    grid, agent = state.grid, state.agent
    assert grid.shape == shape, (grid.shape, shape)
    assert len(grid.objects) == shape.height
    assert all(len(row) == shape.width for row in grid.objects)

    # unbroken wall boundary
    for y in range(shape.height):
        for x in range(shape.width):
            if y in (0, shape.height - 1) or x in (0, shape.width - 1):
                assert type(grid[y, x]) is Wall, (y, x, grid[y, x])

    # agent inside, empty-handed, on a harmless cell
    assert isinstance(agent.position, Position)
    assert grid.area.contains(agent.position), agent.position
    assert isinstance(agent.orientation, Orientation)
    assert isinstance(agent.grid_object, NoneGridObject)
    under = grid[agent.position]
    assert not under.blocks_movement, under
    assert not isinstance(under, (Exit, MovingObstacle, Telepod)), under


def check_inventory(name, params, state):
    grid = state.grid
    exits = cells(state, Exit)

    if name in ('empty', 'rooms', 'dynamic_obstacles', 'keydoor', 'crossing', 'teleport'):
        assert len(exits) == 1, exits

    if name == 'empty':
        shape = params['shape']
        inside = (shape.height - 2) * (shape.width - 2)
        assert len(cells(state, Floor)) == inside - 1
        assert len(cells(state, Wall)) == shape.height * shape.width - inside
        if not params.get('random_exit', False):
            assert exits == [Position(shape.height - 2, shape.width - 2)]
        if not params.get('random_agent', False):
            assert state.agent.position == Position(1, 1)
            assert state.agent.orientation is Orientation.R

    if name == 'dynamic_obstacles':
        shape = params['shape']
        obstacles = cells(state, MovingObstacle)
        assert len(obstacles) == params['num_obstacles'], obstacles
        inside = (shape.height - 2) * (shape.width - 2)
        assert len(cells(state, Floor)) == inside - 1 - len(obstacles)

    if name == 'keydoor':
        doors, keys = cells(state, Door), cells(state, Key)
        assert len(doors) == 1 and len(keys) == 1, (doors, keys)
        (door,), (key,) = doors, keys
        assert grid[door].is_locked and grid[door].color is Color.YELLOW
        assert grid[key].color is Color.YELLOW
        # the door sits in a wall which divides the grid
        for y in range(grid.shape.height):
            if y != door.y:
                assert type(grid[y, door.x]) is Wall, (y, door.x)
        assert key.x < door.x and state.agent.position.x < door.x
        assert exits[0].x > door.x

    if name == 'crossing':
        # the exit is reachable from the agent through non-river cells
        river = params['object_type']
        seen, todo = {state.agent.position}, [state.agent.position]
        while todo:
            position = todo.pop()
            for dy, dx in ((0, 1), (1, 0), (0, -1), (-1, 0)):
                q = Position(position.y + dy, position.x + dx)
                if q in seen or not grid.area.contains(q):
                    continue
                if type(grid[q]) in (Wall, river):
                    continue
                seen.add(q)
                todo.append(q)
        assert exits[0] in seen

    if name == 'teleport':
        telepods = cells(state, Telepod)
        assert len(telepods) == 2, telepods
        assert grid[telepods[0]].color is grid[telepods[1]].color
        assert state.agent.position == Position(1, 1)

    if name in ('memory', 'memory_rooms'):
        num_exits = params.get('num_exits', 2)
        assert len(exits) == num_exits, exits
        exit_colors = [grid[position].color for position in exits]
        assert len(set(exit_colors)) == len(exit_colors), exit_colors
        assert set(exit_colors) <= set(params['colors'])
        assert Color.NONE not in exit_colors
        beacons = cells(state, Beacon)
        assert len(beacons) == params.get('num_beacons', 2), beacons
        beacon_colors = {grid[position].color for position in beacons}
        assert len(beacon_colors) == 1, beacon_colors
        assert exit_colors.count(beacon_colors.pop()) == 1


def check(name, params, seed):
    """the reset function returns a well-formed state or raises ValueError"""
    outcome, state = run(getattr(rf, name), seed=seed, **params)
    if state is None:
        assert outcome[1] == 'ValueError', (name, params, seed, outcome)
    else:
        try:
            check_wellformed(state, params['shape'])
            check_inventory(name, params, state)
        except AssertionError:
            print('MALFORMED', name, params, seed, file=sys.stderr)
            raise
    return outcome


# ---------------------------------------------------------------- scenarios

SMALL_SHAPES = [Shape(h, w) for h in range(1, 10) for w in range(1, 10)]
BIG_SHAPES = [Shape(4, 17), Shape(17, 4), Shape(11, 13), Shape(13, 11), Shape(15, 15)]
SHAPES = SMALL_SHAPES + BIG_SHAPES
LAYOUTS = [(1, 1), (1, 2), (2, 1), (2, 2), (1, 3), (3, 1), (2, 3), (3, 2), (3, 3)]
COLOR_SETS = [
    set(),
    {Color.RED},
    {Color.RED, Color.NONE},
    {Color.RED, Color.GREEN},
    {Color.YELLOW, Color.BLUE},
    {Color.RED, Color.GREEN, Color.BLUE},
    {Color.RED, Color.GREEN, Color.BLUE, Color.YELLOW},
    set(Color),
]
BOOLS = [False, True]

# ------------------------------------ reference implementation (pristine)
#
# `rooms` and `memory_rooms` as they are spelled in the pristine tree, each
# with its own inlined copy of the split computation and the passage loops.

import more_itertools as mitt  # noqa: E402

from gym_gridverse.agent import Agent  # noqa: E402
from gym_gridverse.design import draw_room_grid  # noqa: E402
from gym_gridverse.grid import Grid  # noqa: E402
from gym_gridverse.rng import choice, choices, get_gv_rng_if_none  # noqa: E402


def reference_rooms(shape, layout, *, rng=None):
    rng = get_gv_rng_if_none(rng)

    layout_height, layout_width = layout

    y_splits = np.linspace(0, shape.height - 1, num=layout_height + 1, dtype=int)
    if len(y_splits) != len(set(y_splits)):
        raise ValueError(
            f'insufficient height ({shape.height}) for layout ({layout})'
        )

    x_splits = np.linspace(0, shape.width - 1, num=layout_width + 1, dtype=int)
    if len(x_splits) != len(set(x_splits)):
        raise ValueError(
            f'insufficient width ({shape.width}) for layout ({layout})'
        )

    grid = Grid.from_shape((shape.height, shape.width))
    draw_room_grid(grid, y_splits, x_splits, Wall)

    for y in y_splits[1:-1]:
        for x_from, x_to in mitt.pairwise(x_splits):
            x = rng.integers(x_from + 1, x_to)
            grid[y, x] = Floor()

    for y_from, y_to in mitt.pairwise(y_splits):
        for x in x_splits[1:-1]:
            y = rng.integers(y_from + 1, y_to)
            grid[y, x] = Floor()

    positions = [
        position
        for position in grid.area.positions()
        if isinstance(grid[position], Floor)
    ]
    agent_position, exit_position = choices(
        rng, positions, size=2, replace=False
    )
    agent_orientation = choice(rng, list(Orientation))

    grid[exit_position] = Exit()
    return State(grid, Agent(agent_position, agent_orientation))


def reference_memory_rooms(
    shape, layout, colors, num_beacons, num_exits, *, rng=None
):
    if Color.NONE in colors:
        raise ValueError(f'colors ({colors}) must not include NONE')
    if len(colors) < 2:
        raise ValueError(f'colors ({colors}) must have at least 2 colors')
    if num_beacons < 1:
        raise ValueError(f'num_beacons ({num_beacons}) must be positive')
    if num_exits < 2:
        raise ValueError(f'num_exits ({num_exits}) must be >= 2')

    rng = get_gv_rng_if_none(rng)

    layout_height, layout_width = layout

    y_splits = np.linspace(0, shape.height - 1, num=layout_height + 1, dtype=int)
    if len(y_splits) != len(set(y_splits)):
        raise ValueError(
            f'insufficient shape.height ({shape.height}) for layout ({layout})'
        )

    x_splits = np.linspace(0, shape.width - 1, num=layout_width + 1, dtype=int)
    if len(x_splits) != len(set(x_splits)):
        raise ValueError(
            f'insufficient shape.width ({shape.width}) for layout ({layout})'
        )

    grid = Grid.from_shape((shape.height, shape.width))
    draw_room_grid(grid, y_splits, x_splits, Wall)

    for y in y_splits[1:-1]:
        for x_from, x_to in mitt.pairwise(x_splits):
            x = rng.integers(x_from + 1, x_to)
            grid[y, x] = Floor()

    for y_from, y_to in mitt.pairwise(y_splits):
        for x in x_splits[1:-1]:
            y = rng.integers(y_from + 1, y_to)
            grid[y, x] = Floor()

    positions = [
        position
        for position in grid.area.positions()
        if isinstance(grid[position], Floor)
    ]
    positions = choices(
        rng, positions, size=1 + num_beacons + num_exits, replace=False
    )

    agent = Agent(positions[0], choice(rng, list(Orientation)))

    sorted_colors = sorted(colors, key=lambda color: color.value)
    sample_colors = choices(rng, sorted_colors, size=num_exits, replace=False)

    for beacon_position in positions[1 : 1 + num_beacons]:
        grid[beacon_position] = Beacon(sample_colors[0])

    for exit_position, exit_color in zip(
        positions[1 + num_beacons :], sample_colors
    ):
        grid[exit_position] = Exit(exit_color)

    return State(grid, agent)


# ------------------------------------------------------------------- checks

digest = hashlib.sha256()
counts = {'state': 0, 'error': 0}


def canonical(params):
    """parameters spelled independently of the hash order of sets"""
    return sorted(
        (
            key,
            sorted(color.name for color in value)
            if isinstance(value, (set, frozenset))
            else repr(value),
        )
        for key, value in params.items()
    )


def canonical_outcome(outcome):
    """messages which print a set of colours are not stable across processes"""
    if outcome[0] == 'error' and outcome[2].startswith('colors ('):
        return outcome[:2] + (outcome[2].split(')')[-1],)
    return outcome


def record(name, params, seed):
    outcome = check(name, params, seed)
    digest.update(repr((name, canonical(params), seed)).encode())
    digest.update(repr(canonical_outcome(outcome)).encode())
    counts[outcome[0]] += 1
    return outcome


def same_as_reference(name, reference, params, seed):
    outcome = record(name, params, seed)
    expected, _ = run(reference, seed=seed, **params)
    assert outcome == expected, (name, params, seed, outcome, expected)


ROOMS_SEEDS = range(6)

# 1. rooms:  every shape from 1x1 up, every layout
for shape, layout in itt.product(SHAPES, LAYOUTS):
    for seed in ROOMS_SEEDS:
        same_as_reference(
            'rooms', reference_rooms, dict(shape=shape, layout=layout), seed
        )

# many seeds on the tightest layouts which still fit (one-cell rooms)
for shape, layout in [
    (Shape(3, 4), (1, 1)),
    (Shape(3, 5), (1, 2)),
    (Shape(5, 3), (2, 1)),
    (Shape(5, 5), (2, 2)),
    (Shape(7, 7), (3, 3)),
    (Shape(5, 9), (2, 4)),
    (Shape(8, 6), (3, 2)),
]:
    for seed in range(60):
        same_as_reference(
            'rooms', reference_rooms, dict(shape=shape, layout=layout), seed
        )

# 2. memory_rooms:  shapes x layouts x colour sets x counts
for shape, layout in itt.product(SHAPES[::2] + BIG_SHAPES, LAYOUTS):
    for colors, num_beacons, num_exits in [
        (COLOR_SETS[0], 1, 2),
        (COLOR_SETS[1], 1, 2),
        (COLOR_SETS[2], 1, 2),
        (COLOR_SETS[3], 1, 2),
        (COLOR_SETS[3], 0, 2),
        (COLOR_SETS[3], 1, 1),
        (COLOR_SETS[3], 2, 3),
        (COLOR_SETS[4], 3, 2),
        (COLOR_SETS[5], 1, 3),
        (COLOR_SETS[6], 2, 4),
        (COLOR_SETS[6], 40, 2),
        (COLOR_SETS[7], 1, 2),
    ]:
        for seed in range(3):
            same_as_reference(
                'memory_rooms',
                reference_memory_rooms,
                dict(
                    shape=shape,
                    layout=layout,
                    colors=colors,
                    num_beacons=num_beacons,
                    num_exits=num_exits,
                ),
                seed,
            )

# every free cell of a one-cell-per-room grid is used
for seed in range(40):
    same_as_reference(
        'memory_rooms',
        reference_memory_rooms,
        dict(
            shape=Shape(5, 5),
            layout=(2, 2),
            colors={Color.RED, Color.GREEN, Color.BLUE},
            num_beacons=4,
            num_exits=3,
        ),
        seed,
    )

# 3. layouts which are not layouts:  same failure as the reference, whatever
#    it is (not part of the property, only of "nothing else changed")
for layout in [(0, 0), (0, 1), (1, 0), (-1, 1), (1, -1), (1,), (1, 2, 3), ()]:
    for shape in [Shape(1, 1), Shape(5, 5), Shape(6, 9)]:
        ours, _ = run(rf.rooms, seed=0, shape=shape, layout=layout)
        theirs, _ = run(reference_rooms, seed=0, shape=shape, layout=layout)
        assert ours == theirs, (shape, layout, ours, theirs)
        kwargs = dict(
            shape=shape,
            layout=layout,
            colors={Color.RED, Color.BLUE},
            num_beacons=1,
            num_exits=2,
        )
        ours, _ = run(rf.memory_rooms, seed=0, **kwargs)
        theirs, _ = run(reference_memory_rooms, seed=0, **kwargs)
        assert ours == theirs, (shape, layout, ours, theirs)

# 4. argument checks of memory_rooms still come before anything else:  no
#    random number is drawn and the layout is not even unpacked
for kwargs, message in [
    (dict(colors={Color.NONE, Color.RED}, num_beacons=1, num_exits=2), 'NONE'),
    (dict(colors={Color.RED}, num_beacons=1, num_exits=2), 'at least 2'),
    (dict(colors={Color.RED, Color.BLUE}, num_beacons=0, num_exits=2), 'num_beacons'),
    (dict(colors={Color.RED, Color.BLUE}, num_beacons=1, num_exits=1), 'num_exits'),
]:
    rng = np.random.default_rng(7)
    before = rng.bit_generator.state
    try:
        rf.memory_rooms(Shape(1, 1), None, rng=rng, **kwargs)
    except ValueError as error:
        assert message in str(error), error
    else:
        assert False
    assert rng.bit_generator.state == before

# 5. repeated calls on one stream, two interleaved streams, library stream
#    with re-seeding
for shape, layout in [(Shape(7, 9), (2, 2)), (Shape(9, 6), (3, 1))]:
    rng_a, rng_b = np.random.default_rng(11), np.random.default_rng(11)
    rng_c, rng_d = np.random.default_rng(12), np.random.default_rng(12)
    for _ in range(10):
        s_a = rf.rooms(shape, layout, rng=rng_a)
        s_c = rf.memory_rooms(shape, layout, set(Color) - {Color.NONE}, 2, 3, rng=rng_c)
        s_b = reference_rooms(shape, layout, rng=rng_b)
        s_d = reference_memory_rooms(shape, layout, set(Color) - {Color.NONE}, 2, 3, rng=rng_d)
        assert summarize(s_a) == summarize(s_b)
        assert summarize(s_c) == summarize(s_d)
        assert s_a.grid is not s_c.grid
        check_wellformed(s_a, shape)
        check_wellformed(s_c, shape)
    assert rng_a.bit_generator.state == rng_b.bit_generator.state
    assert rng_c.bit_generator.state == rng_d.bit_generator.state

    for seed in (0, 1, 0):
        gv_rng.reset_gv_rng(seed)
        ours = [summarize(rf.rooms(shape, layout)) for _ in range(3)]
        ours.append(summarize(rf.memory_rooms(shape, layout, {Color.RED, Color.BLUE}, 1, 2)))
        gv_rng.reset_gv_rng(seed)
        theirs = [summarize(reference_rooms(shape, layout)) for _ in range(3)]
        theirs.append(summarize(reference_memory_rooms(shape, layout, {Color.RED, Color.BLUE}, 1, 2)))
        assert ours == theirs

# 6. through the factory, as environments are built from configuration
function = rf.factory('rooms', shape=Shape(9, 9), layout=(2, 3))
for seed in range(5):
    outcome, _ = run(function, seed=seed)
    expected, _ = run(reference_rooms, seed=seed, shape=Shape(9, 9), layout=(2, 3))
    assert outcome == expected

# 7. the other six reset functions:  property + digest of the outcomes
for shape in SHAPES:
    for seed in range(3):
        for random_agent, random_exit in itt.product(BOOLS, BOOLS):
            record('empty', dict(shape=shape, random_agent=random_agent, random_exit=random_exit), seed)
        for num_obstacles, random_agent in itt.product((0, 1, 3, 30), BOOLS):
            record('dynamic_obstacles', dict(shape=shape, num_obstacles=num_obstacles, random_agent=random_agent), seed)
        record('keydoor', dict(shape=shape), seed)
        for num_rivers, object_type in itt.product((0, 1, 2, 5), (Wall, MovingObstacle)):
            record('crossing', dict(shape=shape, num_rivers=num_rivers, object_type=object_type), seed)
        record('teleport', dict(shape=shape), seed)
        for colors in COLOR_SETS:
            record('memory', dict(shape=shape, colors=colors), seed)

EXPECTED_DIGEST = '8930d7214ff98b134f91c471cb287788194629fe0de2a017477faf2a12f0cec8'
EXPECTED_COUNTS = "{'state': 6451, 'error': 21945}"

print('outcomes:', counts, digest.hexdigest())
assert counts['state'] > 3000 and counts['error'] > 3000, counts
assert repr(counts) == EXPECTED_COUNTS, counts
assert digest.hexdigest() == EXPECTED_DIGEST, digest.hexdigest()
print('OK')
