"""Demo for change B (rng.shuffle shuffles a copy instead of a list of indices).

Run from the worktree root:  /venv/bin/python _seed/B/demo.py

Exits 0 both on the pristine tree and with the patch applied.  Checks

1. `gym_gridverse.rng.shuffle` against an embedded copy of the historical
   implementation: same result (same objects, by identity), same generator
   state afterwards, input never modified, new list returned;  on empty and
   one-element inputs (no draw at all), tuples, strings, ranges, numpy arrays,
   lists of tuples / sentinel objects / nested lists, repeated calls on one
   generator, plus a few hard-coded expectations;
2. the `crossing` reset function (the only shipped consumer of `shuffle`)
   with the library's `shuffle` against the very same function with the
   embedded reference bound in its place: same state and same generator state,
   over non-square shapes, one river, all rivers, more rivers than fit;
3. property C02 on whole environments: same seed => same trajectory, with the
   debug flag on or off, interleaved with other live environments, after
   re-seeding, with the library-level / numpy / stdlib generators perturbed in
   between and never touched by the seeded environments;
4. the same digests in fresh interpreters with different PYTHONHASHSEED values,
   and equal to the digests hard-coded below.
"""
import hashlib
import os
import random
import subprocess
import sys
import warnings
from functools import partial

warnings.filterwarnings('ignore')
sys.path.insert(0, os.getcwd())

import numpy as np  # noqa: E402

from gym_gridverse.action import Action  # noqa: E402
from gym_gridverse.debugging import reset_gv_debug  # noqa: E402
from gym_gridverse.envs import observation_functions as observation_fs
from gym_gridverse.envs import reset_functions as reset_fs  # noqa: E402
from gym_gridverse.envs import reward_functions as reward_fs  # noqa: E402
from gym_gridverse.envs import terminating_functions as terminating_fs
from gym_gridverse.envs import transition_functions as transition_fs
from gym_gridverse.envs.gridworld import GridWorld  # noqa: E402
from gym_gridverse.geometry import Area, Position, Shape  # noqa: E402
from gym_gridverse.grid_object import (  # noqa: E402
    Beacon,
    Color,
    Door,
    Exit,
    Floor,
    Key,
    MovingObstacle,
    Telepod,
    Wall,
)
from gym_gridverse.rng import (  # noqa: E402
    get_gv_rng,
    make_rng,
    reset_gv_rng,
    shuffle,
)
from gym_gridverse.spaces import (  # noqa: E402
    ActionSpace,
    ObservationSpace,
    StateSpace,
)

# digest of all trajectories of `property_digest()`, computed on the pristine
# tree (numpy 2.x, PCG64)
EXPECTED_DIGEST = '39711fcb5463537d7a33c491af358d817a25cbc60a70dd405b47e96fb0c365a5'

ALL_COLORS = [Color.NONE, Color.RED, Color.GREEN, Color.BLUE, Color.YELLOW]
OBJECTS = [Wall, Floor, Exit, MovingObstacle, Telepod, Door, Key, Beacon]


# --------------------------------------------------------------------------
# reference implementations (verbatim historical behaviour)
# --------------------------------------------------------------------------


def ref_shuffle(rng, data):
    indices = list(range(len(data)))
    rng.shuffle(indices)
    return [data[i] for i in indices]


# --------------------------------------------------------------------------
# fingerprints (independent of hashing and of object identity)
# --------------------------------------------------------------------------


def fp_object(obj):
    return (type(obj).__name__, int(obj.state_index), obj.color.name)


def fp_grid(grid):
    return tuple(
        tuple(fp_object(grid[y, x]) for x in range(grid.shape.width))
        for y in range(grid.shape.height)
    )


def fp_agent(agent):
    return (
        int(agent.position.y),
        int(agent.position.x),
        agent.orientation.name,
        fp_object(agent.grid_object),
    )


def fp_state(state):
    return (fp_grid(state.grid), fp_agent(state.agent))


def rng_state(rng):
    return repr(rng.bit_generator.state)


# --------------------------------------------------------------------------
# 1. unit equivalence of shuffle
# --------------------------------------------------------------------------


def same_items(xs, ys):
    """same length, and pairwise the very same objects (or equal arrays)"""
    return len(xs) == len(ys) and all(
        x is y
        or (
            isinstance(x, (np.ndarray, np.generic))
            and type(x) is type(y)
            and np.array_equal(x, y)
        )
        or (type(x) in (int, str) and type(x) is type(y) and x == y)
        for x, y in zip(xs, ys)
    )


def check_shuffle():
    h, v = object(), object()
    rivers = [(h, 2), (h, 4), (v, 2), (v, 4), (v, 6)]
    inputs = [
        [],
        (),
        '',
        range(0),
        np.arange(0),
        [h],
        (v,),
        'x',
        range(5, 6),
        [h, v],
        [h, h, h, v, v],
        rivers,
        tuple(rivers),
        [[1, 2], [3, 4], [5, 6], [7, 8]],
        'gridverse',
        range(13),
        np.arange(9),
        np.arange(12).reshape(4, 3),
        [Floor(), Wall(), Exit(), Floor()],
        list(Color),
        list(range(100)),
    ]
    count = 0
    for data in inputs:
        snapshot = list(data)
        for seed in list(range(25)) + [1337, 0xDEADBEEF]:
            rng, rng_ref = make_rng(seed), make_rng(seed)
            # repeated calls on the same generator
            for _ in range(3):
                before = rng_state(rng)
                got = shuffle(rng, data)
                want = ref_shuffle(rng_ref, data)
                assert type(got) is list
                assert got is not data
                assert same_items(got, want), (data, seed, got, want)
                assert rng_state(rng) == rng_state(rng_ref), (data, seed)
                # the input is left as it was
                assert same_items(list(data), snapshot)
                # nothing to shuffle, nothing drawn
                if len(data) <= 1:
                    assert rng_state(rng) == before
                    assert same_items(got, snapshot)
                # a permutation of the input, made of the very same objects
                if isinstance(data, (list, tuple)):
                    assert sorted(map(id, got)) == sorted(map(id, data))
                    assert all(x is y for x, y in zip(got, want))
                # the result is the caller's:  mutating it is harmless
                got.clear()
                assert same_items(list(data), snapshot)
            count += 1

    # hard-coded expectations (pristine tree, PCG64)
    assert shuffle(make_rng(0), list(range(10))) == [
        4, 6, 2, 7, 3, 5, 9, 0, 8, 1,
    ]  # fmt: skip
    assert shuffle(make_rng(1337), 'gridverse') == list('rdeisvegr')
    rng = make_rng(42)
    assert shuffle(rng, (1, 2, 3)) == [3, 2, 1]
    assert shuffle(rng, (1, 2, 3)) == [1, 3, 2]
    assert shuffle(rng, range(5)) == [3, 0, 1, 2, 4]

    # the library-level generator is not involved
    reset_gv_rng(3)
    before = rng_state(get_gv_rng())
    shuffle(make_rng(3), list(range(20)))
    assert rng_state(get_gv_rng()) == before
    return count


# --------------------------------------------------------------------------
# 2. crossing with the library shuffle vs. with the reference shuffle
# --------------------------------------------------------------------------


def check_crossing():
    assert reset_fs.shuffle is shuffle
    count = 0
    shapes = [(5, 5), (5, 9), (9, 5), (7, 7), (7, 11), (11, 7), (13, 13)]
    for height, width in shapes:
        shape = Shape(height, width)
        max_rivers = (height - 3) // 2 + (width - 3) // 2
        for num_rivers in sorted({1, 2, max_rivers, max_rivers + 3, 100}):
            for object_type in (Wall, MovingObstacle):
                for seed in range(12):
                    rng, rng_ref = make_rng(seed), make_rng(seed)
                    # repeated resets on the same generator
                    for _ in range(3):
                        state = reset_fs.crossing(
                            shape, num_rivers, object_type, rng=rng
                        )
                        reset_fs.shuffle = ref_shuffle
                        try:
                            state_ref = reset_fs.crossing(
                                shape, num_rivers, object_type, rng=rng_ref
                            )
                        finally:
                            reset_fs.shuffle = shuffle
                        assert fp_state(state) == fp_state(state_ref)
                        assert rng_state(rng) == rng_state(rng_ref)
                        assert state.agent.position == Position(1, 1)
                        assert isinstance(
                            state.grid[height - 2, width - 2], Exit
                        )
                    count += 1
    return count


# --------------------------------------------------------------------------
# 3. whole environments
# --------------------------------------------------------------------------


def make_env(reset_name, reset_kwargs, transitions, observation, area):
    """builds a GridWorld through the python API (no yaml)"""
    shape = reset_kwargs['shape']
    reset_function = reset_fs.factory(reset_name, **reset_kwargs)
    transition_function = partial(
        transition_fs.chain,
        transition_functions=[transition_fs.factory(n) for n in transitions],
    )
    reward_function = partial(
        reward_fs.reduce_sum,
        reward_functions=[
            reward_fs.factory('reach_exit', reward_on=5.0, reward_off=0.0),
            reward_fs.factory('bump_moving_obstacle', reward=-1.0),
            reward_fs.factory('bump_into_wall', reward=-1.0),
            reward_fs.factory('living_reward', reward=-0.05),
        ],
    )
    terminating_function = partial(
        terminating_fs.reduce_any,
        terminating_functions=[
            terminating_fs.factory('reach_exit'),
            terminating_fs.factory('bump_moving_obstacle'),
        ],
    )
    observation_function = observation_fs.factory(observation, area=area)
    return GridWorld(
        StateSpace(shape, OBJECTS, ALL_COLORS),
        ActionSpace(list(Action)),
        ObservationSpace(Shape(area.height, area.width), OBJECTS, ALL_COLORS),
        reset_function,
        transition_function,
        observation_function,
        reward_function,
        terminating_function,
    )


MOVES = ['move_agent', 'turn_agent']

CONFIGS = {
    # shipped configurations (python spelling of yaml/gv_crossing.*)
    'crossing.5x5': (
        'crossing',
        dict(shape=Shape(5, 5), num_rivers=1, object_type=Wall),
        MOVES,
        'partially_occluded',
        Area((-6, 0), (-3, 3)),
    ),
    'crossing.7x7': (
        'crossing',
        dict(shape=Shape(7, 7), num_rivers=2, object_type=Wall),
        MOVES,
        'partially_occluded',
        Area((-6, 0), (-3, 3)),
    ),
    # non-square, rivers of (moving) obstacles, every river, more rivers than fit
    'crossing.5x11.obstacle_rivers': (
        'crossing',
        dict(shape=Shape(5, 11), num_rivers=3, object_type=MovingObstacle),
        MOVES + ['move_obstacles'],
        'stochastic_raytracing',
        Area((-4, 0), (-1, 1)),
    ),
    'crossing.11x5.all': (
        'crossing',
        dict(shape=Shape(11, 5), num_rivers=5, object_type=Wall),
        MOVES,
        'raytracing',
        Area((-2, 0), (-2, 2)),
    ),
    'crossing.9x9.too_many': (
        'crossing',
        dict(shape=Shape(9, 9), num_rivers=50, object_type=Wall),
        MOVES + ['move_obstacles'],
        'stochastic_raytracing',
        Area((-3, 0), (-3, 3)),
    ),
    'crossing.7x13.narrow_view': (
        'crossing',
        dict(shape=Shape(7, 13), num_rivers=4, object_type=MovingObstacle),
        MOVES,
        'partially_occluded',
        Area((-1, 0), (0, 0)),
    ),
    # other stochastic environments, live at the same time
    'dynamic_obstacles.5x9.crowded': (
        'dynamic_obstacles',
        dict(shape=Shape(5, 9), num_obstacles=12, random_agent=True),
        MOVES + ['move_obstacles'],
        'stochastic_raytracing',
        Area((-4, 0), (-1, 1)),
    ),
    'teleport.7x7': (
        'teleport',
        dict(shape=Shape(7, 7)),
        MOVES + ['teleport'],
        'partially_occluded',
        Area((-6, 0), (-3, 3)),
    ),
    'rooms.9x11': (
        'rooms',
        dict(shape=Shape(9, 11), layout=(2, 2)),
        MOVES,
        'partially_occluded',
        Area((-3, 0), (-2, 2)),
    ),
    'keydoor.5x8': (
        'keydoor',
        dict(shape=Shape(5, 8)),
        MOVES + ['actuate_door', 'pickndrop'],
        'raytracing',
        Area((-6, 0), (-3, 3)),
    ),
    'memory_rooms.9x9': (
        'memory_rooms',
        dict(
            shape=Shape(9, 9),
            layout=(2, 2),
            colors={Color.RED, Color.GREEN, Color.BLUE, Color.YELLOW},
            num_beacons=2,
            num_exits=3,
        ),
        MOVES,
        'fully_transparent',
        Area((-4, 0), (-3, 3)),
    ),
}

SEEDS = [0, 1, 2, 1337, 0xDEADBEEF]
NUM_STEPS = 40


def actions_for(name, seed):
    gen = random.Random(f'{name}/{seed}')
    actions = list(Action)
    return [actions[gen.randrange(len(actions))] for _ in range(NUM_STEPS)]


def rollout_iter(env, seed, actions):
    """yields the fingerprints of one seeded episode, one step at a time"""
    env.set_seed(seed)
    env.reset()
    yield ('reset', fp_state(env.state), fp_state(env.observation))
    for action in actions:
        reward, done = env.step(action)
        yield (
            action.name,
            fp_state(env.state),
            fp_state(env.observation),
            float(reward),
            bool(done),
        )
        if done:
            env.reset()
            yield ('reset', fp_state(env.state), fp_state(env.observation))


def rollout(env, seed, actions):
    return list(rollout_iter(env, seed, actions))


def global_sources():
    return (
        rng_state(get_gv_rng()),
        repr(np.random.get_state()),
        repr(random.getstate()),
    )


def check_environments():
    trajectories = {}

    # library-level / global generators in a known state
    reset_gv_rng(99)
    np.random.seed(99)
    random.seed(99)
    before = global_sources()

    for name, config in CONFIGS.items():
        for seed in SEEDS:
            actions = actions_for(name, seed)

            reset_gv_debug(True)
            env = make_env(*config)
            trajectory = rollout(env, seed, actions)

            # a second environment from the same configuration
            assert rollout(make_env(*config), seed, actions) == trajectory

            # the same environment, re-seeded
            assert rollout(env, seed, actions) == trajectory

            # debug flag off
            reset_gv_debug(False)
            assert rollout(make_env(*config), seed, actions) == trajectory
            reset_gv_debug(True)

            trajectories[name, seed] = trajectory

    # seeded environments never touch the global sources
    assert global_sources() == before

    # ... nor depend on them
    reset_gv_rng(12345)
    np.random.seed(12345)
    random.seed(12345)
    get_gv_rng().random(17)
    for name, config in CONFIGS.items():
        seed = SEEDS[-1]
        actions = actions_for(name, seed)
        assert rollout(make_env(*config), seed, actions) == trajectories[
            name, seed
        ]

    # interleavings of several live environments (round-robin and random)
    gen = random.Random(5)
    keys = list(trajectories)
    for _ in range(6):
        sample = gen.sample(keys, 5)
        sample.append(sample[0])  # two live copies of the very same env+seed
        iterators = [
            rollout_iter(make_env(*CONFIGS[name]), seed, actions_for(name, seed))
            for name, seed in sample
        ]
        results = [[] for _ in sample]
        live = list(range(len(sample)))
        while live:
            i = live[gen.randrange(len(live))]
            try:
                results[i].append(next(iterators[i]))
            except StopIteration:
                live.remove(i)
            else:
                # unseeded use of the library in between
                if gen.random() < 0.2:
                    get_gv_rng().random()
        for key, result in zip(sample, results):
            assert result == trajectories[key], key

    # different seeds do differ (the checks above are not vacuous)
    assert trajectories['crossing.7x7', 0] != trajectories['crossing.7x7', 1]

    return trajectories


def digest_of(trajectories):
    h = hashlib.sha256()
    for key in sorted(trajectories, key=repr):
        h.update(repr(key).encode())
        h.update(repr(trajectories[key]).encode())
    return h.hexdigest()


def property_digest():
    trajectories = {}
    reset_gv_debug(True)
    for name, config in CONFIGS.items():
        for seed in SEEDS:
            trajectories[name, seed] = rollout(
                make_env(*config), seed, actions_for(name, seed)
            )
    return digest_of(trajectories)


# --------------------------------------------------------------------------
# 4. other interpreter processes
# --------------------------------------------------------------------------


def check_processes(digest):
    for hashseed in ['0', '4242', 'random']:
        env = dict(os.environ, PYTHONHASHSEED=hashseed)
        output = subprocess.run(
            [sys.executable, os.path.abspath(__file__), '--child'],
            env=env,
            cwd=os.getcwd(),
            check=True,
            stdout=subprocess.PIPE,
            stderr=subprocess.DEVNULL,
        ).stdout.decode()
        child = output.strip().splitlines()[-1]
        assert child == digest, (hashseed, child, digest)


def main():
    if '--child' in sys.argv:
        print(property_digest())
        return

    n = check_shuffle()
    print(f'shuffle: {n} (input, seed) pairs agree with the reference')
    n = check_crossing()
    print(f'crossing: {n} scenarios agree with the reference shuffle')
    trajectories = check_environments()
    print(f'environments: {len(trajectories)} (configuration, seed) pairs ok')
    digest = digest_of(trajectories)
    assert digest == property_digest()
    check_processes(digest)
    print('processes: digests agree across PYTHONHASHSEED values')
    assert digest == EXPECTED_DIGEST, digest
    print('digest:', digest)
    print('OK')


if __name__ == '__main__':
    main()
