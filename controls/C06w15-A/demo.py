"""C06 demo: hidden cells carry no information (occlusion is non-interfering and monotone).

Run from the worktree root:  /venv/bin/python _seed/A/demo.py

Exits 0 on the pristine tree and with change A applied.  Everything is checked
against reference implementations embedded in this file (they do not import the
code under test) and against a few hard-coded expectations.
"""
import itertools as itt
import math
import random
import sys
import warnings
from functools import lru_cache

import numpy as np

sys.path.insert(0, '.')

from gym_gridverse.agent import Agent  # noqa: E402
from gym_gridverse.envs import observation_functions as ofs  # noqa: E402
from gym_gridverse.envs import visibility_functions as vfs  # noqa: E402
from gym_gridverse.geometry import Area, Orientation, Position  # noqa: E402
from gym_gridverse.grid import Grid  # noqa: E402
from gym_gridverse.grid_object import (  # noqa: E402
    Beacon,
    Box,
    Color,
    Door,
    Exit,
    Floor,
    Hidden,
    Key,
    MovingObstacle,
    Telepod,
    Wall,
)
from gym_gridverse.rng import make_rng, reset_gv_rng  # noqa: E402
from gym_gridverse.state import State  # noqa: E402

CHECKS = 0


def check(condition, *info):
    global CHECKS
    CHECKS += 1
    if not condition:
        print('FAILED', *info)
        sys.exit(1)


# ---------------------------------------------------------------------------
# reference implementations (copies of the original algorithms, self-contained)
# ---------------------------------------------------------------------------


def ref_partially_occluded(opaque, position):
    """opaque: 2D bool array;  position: (y, x);  recursive, as originally written"""
    height, width = opaque.shape
    if position[0] != height - 1:
        raise NotImplementedError

    def fill(visibility, y, x, nexts):
        if 0 <= y < height and 0 <= x < width and not visibility[y, x]:
            visibility[y, x] = True
            if not opaque[y, x]:
                for ny, nx in nexts(y, x):
                    fill(visibility, ny, nx, nexts)

    left = np.zeros((height, width), dtype=bool)
    fill(
        left,
        position[0],
        position[1],
        lambda y, x: [(y - 1, x), (y, x - 1), (y - 1, x - 1)],
    )
    right = np.zeros((height, width), dtype=bool)
    fill(
        right,
        position[0],
        position[1],
        lambda y, x: [(y - 1, x), (y, x + 1), (y - 1, x + 1)],
    )
    return left | right


@lru_cache(maxsize=None)
def ref_rays(position, shape):
    height, width = shape
    py, px = position
    if not (0 <= py < height and 0 <= px < width):
        raise ValueError('position outside of area')

    ys = np.linspace(0, height, num=height + 1) - 0.5 - py
    xs = np.linspace(0, width, num=width + 1) - 0.5 - px
    yys, xxs = np.meshgrid(ys, xs)
    radians = np.sort(np.arctan2(yys, xxs), axis=None)

    rays = []
    for rad in radians:
        dy = 0.01 * math.sin(rad)
        dx = 0.01 * math.cos(rad)
        ray = {}
        for i in itt.count():
            y, x = round(float(py) + i * dy), round(float(px) + i * dx)
            if not (0 <= y < height and 0 <= x < width):
                break
            ray.setdefault((y, x))
        rays.append(tuple(ray))
    return tuple(rays)


def ref_counts(opaque, position):
    num = np.zeros(opaque.shape, dtype=int)
    den = np.zeros(opaque.shape, dtype=int)
    for ray in ref_rays(tuple(position), opaque.shape):
        light = True
        for y, x in ray:
            num[y, x] += int(light)
            den[y, x] += 1
            light = light and not opaque[y, x]
    return num, den


def ref_raytracing(opaque, position):
    num, _ = ref_counts(opaque, position)
    return num >= 1


REF_VISIBILITY = {
    'partially_occluded': ref_partially_occluded,
    'raytracing': ref_raytracing,
}


def ref_observation(state, area, ref_visibility):
    """cell-by-cell reference: observation cell at offset `rel` from the agent
    (in the agent frame) shows world cell `agent.transform * rel`"""
    height, width = area.height, area.width
    world = {}
    objects = []
    opaque = np.zeros((height, width), dtype=bool)
    for oy in range(height):
        row = []
        for ox in range(width):
            w = state.agent.transform * Position(oy + area.ymin, ox + area.xmin)
            if state.grid.area.contains(w):
                obj = state.grid[w]
                world[oy, ox] = w
            else:
                obj = Hidden()
            opaque[oy, ox] = obj.blocks_vision
            row.append(obj)
        objects.append(row)

    visibility = ref_visibility(opaque, (-area.ymin, -area.xmin))
    for oy in range(height):
        for ox in range(width):
            if not visibility[oy, ox]:
                objects[oy][ox] = Hidden()
    return objects, visibility, world


# ---------------------------------------------------------------------------
# scenarios
# ---------------------------------------------------------------------------

PALETTE = [
    Floor,
    Floor,
    Floor,
    Wall,
    Wall,
    Exit,
    MovingObstacle,
    lambda: Door(Door.Status.OPEN, Color.NONE),
    lambda: Door(Door.Status.CLOSED, Color.RED),
    lambda: Door(Door.Status.LOCKED, Color.NONE),
    lambda: Key(Color.NONE),
    lambda: Key(Color.BLUE),
    lambda: Telepod(Color.GREEN),
    lambda: Beacon(Color.NONE),
    lambda: Box(Key(Color.YELLOW)),
]

REPLACEMENTS = [
    Wall,
    Floor,
    lambda: Door(Door.Status.CLOSED, Color.NONE),
    lambda: Door(Door.Status.OPEN, Color.BLUE),
    lambda: Key(Color.NONE),
    lambda: Box(Floor()),
]

SHAPES = [(1, 1), (1, 5), (5, 1), (2, 3), (4, 7), (7, 4), (6, 6), (3, 9)]

AREAS = [
    Area((-6, 0), (-3, 3)),  # default 7x7
    Area((-2, 0), (-1, 1)),
    Area((-3, 0), (0, 2)),  # agent in the bottom-left corner of the view
    Area((-1, 0), (-4, 0)),  # agent in the bottom-right corner of the view
    Area((-4, 0), (-1, 3)),  # asymmetric
    Area((0, 0), (0, 0)),  # 1x1
    Area((-3, 0), (0, 0)),  # column
    Area((0, 0), (-2, 1)),  # row
    Area((-2, 1), (-1, 2)),  # agent not on the bottom row
    Area((-1, 2), (-2, 0)),  # agent not on the bottom row
    Area((-2, 0), (1, 3)),  # agent's column outside of the view
    Area((-3, -1), (0, 2)),  # agent's row outside of the view
]


def random_grid(rnd, shape, wall_bias):
    height, width = shape
    return Grid(
        [
            [
                Wall() if rnd.random() < wall_bias else rnd.choice(PALETTE)()
                for _ in range(width)
            ]
            for _ in range(height)
        ]
    )


def agent_positions(shape):
    height, width = shape
    candidates = [
        (0, 0),
        (0, width - 1),
        (height - 1, 0),
        (height - 1, width - 1),
        (height // 2, 0),
        (0, width // 2),
        (height // 2, width // 2),
        (height - 1, width // 2),
    ]
    return sorted(set(candidates))


def snapshot(grid):
    return [[obj for obj in row] for row in grid.objects]


def observe(name, state, area):
    """returns ('ok', observation) or ('raise', exception type)"""
    function = ofs.factory(name, area=area)
    try:
        return 'ok', function(state)
    except (NotImplementedError, ValueError) as error:
        return 'raise', type(error)


def check_observation(name, state, area, rnd):
    before = snapshot(state.grid)
    before_agent = (state.agent.position, state.agent.orientation)

    try:
        ref_objects, ref_visibility, world = ref_observation(
            state, area, REF_VISIBILITY[name]
        )
    except (NotImplementedError, ValueError) as error:
        check(observe(name, state, area) == ('raise', type(error)), name, area)
        return 0

    kind, observation = observe(name, state, area)
    check(kind == 'ok', name, area, observation)

    # equality with the reference, cell by cell (type, state, colour)
    check(observation.grid.shape.as_tuple == (area.height, area.width))
    check(observation.grid == Grid(ref_objects), name, area, state)
    check(observation.agent.position == Position(-area.ymin, -area.xmin))
    check(observation.agent.orientation is Orientation.F)
    check(observation.agent.grid_object == state.agent.grid_object)

    # the state is not touched, the observation owns its rows
    check(
        all(
            a is b
            for ra, rb in zip(before, state.grid.objects)
            for a, b in zip(ra, rb)
        )
    )
    check((state.agent.position, state.agent.orientation) == before_agent)
    check(observation.grid.objects is not state.grid.objects)
    check(
        all(
            row is not srow
            for row in observation.grid.objects
            for srow in state.grid.objects
        )
    )

    # repeated calls give the same result
    check(observe(name, state, area)[1] == observation)

    agent_cell = (-area.ymin, -area.xmin)
    if area.contains(Position(0, 0)):
        # the agent's own cell is visible
        check(ref_visibility[agent_cell])
        check(world[agent_cell] == state.agent.position)
        check(observation.grid[agent_cell] is state.grid[state.agent.position])

        # visible cells are linked to the agent by visible transparent cells
        check_connected(ref_visibility, observation.grid, agent_cell)
    else:
        # the agent is not part of its own view: nothing can be seen
        check(not ref_visibility.any())

    # non-interference: hidden and out-of-view world cells do not matter
    visible_world = {
        w for cell, w in world.items() if ref_visibility[cell]
    }
    silent = [
        w for w in state.grid.area.positions() if w not in visible_world
    ]
    rnd.shuffle(silent)
    for w in silent[:5]:
        original = state.grid[w]
        for replacement in rnd.sample(REPLACEMENTS, 3):
            state.grid[w] = replacement()
            check(
                observe(name, state, area) == ('ok', observation),
                'interference',
                name,
                area,
                w,
            )
        state.grid[w] = original

    # monotonicity: making a visible opaque cell transparent hides nothing
    opaque_visible = [
        (cell, w)
        for cell, w in world.items()
        if ref_visibility[cell] and state.grid[w].blocks_vision
    ]
    rnd.shuffle(opaque_visible)
    for cell, w in opaque_visible[:3]:
        original = state.grid[w]
        state.grid[w] = Floor()
        _, more = observe(name, state, area)
        for other in observation.grid.area.positions():
            if other.yx in world and ref_visibility[other.yx]:
                check(
                    not isinstance(more.grid[other], Hidden),
                    'monotone',
                    name,
                    area,
                    w,
                    other,
                )
        state.grid[w] = original

    check(observe(name, state, area) == ('ok', observation))
    return 1


def check_connected(visibility, grid, agent_cell):
    """every visible cell has a chain of adjacent visible transparent cells to the agent"""
    height, width = visibility.shape
    reached = {agent_cell}
    frontier = [agent_cell]
    while frontier:
        y, x = frontier.pop()
        # only transparent visible cells (and the agent's cell) extend chains
        if (y, x) != agent_cell and grid[y, x].blocks_vision:
            continue
        for dy, dx in itt.product([-1, 0, 1], repeat=2):
            n = (y + dy, x + dx)
            if (
                0 <= n[0] < height
                and 0 <= n[1] < width
                and visibility[n]
                and n not in reached
            ):
                reached.add(n)
                frontier.append(n)
    check(
        reached == {tuple(c) for c in np.argwhere(visibility)},
        'connectivity',
        visibility,
    )


def check_stochastic(state, area, seed):
    try:
        _, _, _ = ref_observation(state, area, ref_raytracing)
    except ValueError:
        return
    height, width = area.height, area.width
    opaque = np.zeros((height, width), dtype=bool)
    for oy in range(height):
        for ox in range(width):
            w = state.agent.transform * Position(oy + area.ymin, ox + area.xmin)
            opaque[oy, ox] = (
                state.grid[w].blocks_vision
                if state.grid.area.contains(w)
                else True
            )
    num, den = ref_counts(opaque, (-area.ymin, -area.xmin))

    function = ofs.factory('stochastic_raytracing', area=area)
    with warnings.catch_warnings():
        warnings.simplefilter('ignore')
        observation = function(state, rng=make_rng(seed))
        again = function(state, rng=make_rng(seed))
        reset_gv_rng(seed)
        default = function(state)
    check(observation == again, 'stochastic re-seeding')
    check(observation == default, 'stochastic library rng')

    for cell in observation.grid.area.positions():
        w = state.agent.transform * Position(
            cell.y + area.ymin, cell.x + area.xmin
        )
        if not state.grid.area.contains(w):
            continue
        shown = not isinstance(observation.grid[cell], Hidden)
        if shown:
            check(num[cell.yx] >= 1, 'stochastic upper bound', cell)
        if den[cell.yx] > 0 and num[cell.yx] == den[cell.yx]:
            check(shown, 'stochastic lower bound', cell)


# ---------------------------------------------------------------------------
# exhaustive opacity patterns of small views (visibility functions directly)
# ---------------------------------------------------------------------------

SMALL_VIEWS = [
    # (shape, agent cell)
    ((1, 1), (0, 0)),
    ((1, 4), (0, 1)),
    ((4, 1), (3, 0)),
    ((2, 3), (1, 1)),
    ((3, 3), (2, 1)),
    ((3, 3), (2, 0)),
    ((3, 3), (2, 2)),
    ((3, 4), (2, 0)),
    ((4, 3), (3, 2)),
    ((2, 5), (1, 3)),
]

SMALL_VIEWS_RAYTRACING_ONLY = [
    ((3, 3), (1, 1)),
    ((3, 3), (0, 0)),
    ((2, 4), (0, 2)),
]


def grid_from_pattern(opaque):
    return Grid([[Wall() if o else Floor() for o in row] for row in opaque])


def check_exhaustive(name, shape, agent_cell):
    function = vfs.visibility_function_registry[name]
    reference = REF_VISIBILITY[name]
    height, width = shape
    n = height * width
    results = {}
    for bits in range(2 ** n):
        opaque = np.array(
            [(bits >> i) & 1 for i in range(n)], dtype=bool
        ).reshape(shape)
        grid = grid_from_pattern(opaque)
        visibility = function(grid, Position(*agent_cell))
        check(isinstance(visibility, np.ndarray))
        check(visibility.dtype == np.dtype(bool), visibility.dtype)
        check(visibility.shape == shape)
        check(
            np.array_equal(visibility, reference(opaque, agent_cell)),
            name,
            shape,
            agent_cell,
            opaque,
        )
        check(visibility[agent_cell])
        check_connected(visibility, grid, agent_cell)
        results[bits] = visibility

    for bits, visibility in results.items():
        flat = visibility.reshape(-1)
        for i in range(n):
            if not flat[i]:
                # hidden cell: its content does not matter
                check(
                    np.array_equal(results[bits ^ (1 << i)], visibility),
                    'interference',
                    name,
                    shape,
                    bits,
                    i,
                )
            elif (bits >> i) & 1:
                # visible opaque cell made transparent: nothing gets hidden
                more = results[bits ^ (1 << i)]
                check(
                    not (visibility & ~more).any(),
                    'monotone',
                    name,
                    shape,
                    bits,
                    i,
                )
    return len(results)


def check_hardcoded():
    W, F = True, False  # noqa: N806
    opaque = np.array(
        [
            [F, F, W, F, F],
            [F, W, F, W, W],
            [W, W, F, W, F],
            [F, W, F, F, F],
        ]
    )
    grid = grid_from_pattern(opaque)
    # hand-derived: the left sweep shows the walls (3, 1), (2, 1), (1, 1),
    # (0, 2) and slips diagonally from (1, 2) to (0, 1), then (0, 0); the right
    # sweep slips from (1, 2) to (0, 3), then (0, 4); column 0 below the top
    # row is sealed off by walls
    expected = [
        '#####',
        '.####',
        '.####',
        '.####',
    ]
    visibility = vfs.partially_occluded(grid, Position(3, 2))
    got = [''.join('#' if v else '.' for v in row) for row in visibility]
    check(
        np.array_equal(visibility, ref_partially_occluded(opaque, (3, 2))),
        got,
    )
    check(got == expected, got)

    # walls all around the agent: nothing behind them shows
    opaque = np.array([[F, F, F], [W, W, W], [W, F, W]])
    grid = grid_from_pattern(opaque)
    for name in ['partially_occluded', 'raytracing']:
        visibility = vfs.visibility_function_registry[name](
            grid, Position(2, 1)
        )
        got = [''.join('#' if v else '.' for v in row) for row in visibility]
        check(got == ['...', '###', '###'], name, got)

    # the agent's column outside of the view: everything is hidden
    grid = grid_from_pattern(np.zeros((3, 3), dtype=bool))
    for x in [-1, 3, -4, 7]:
        visibility = vfs.partially_occluded(grid, Position(2, x))
        check(visibility.shape == (3, 3) and not visibility.any(), x)

    # the agent not on the bottom row is not supported by partially_occluded
    for y in [0, 1, 3, -1]:
        try:
            vfs.partially_occluded(grid, Position(y, 1))
        except NotImplementedError:
            check(True)
        else:
            check(False, 'expected NotImplementedError', y)

    # numpy integers as coordinates
    visibility = vfs.partially_occluded(
        grid, Position(np.int64(2), np.int64(1))
    )
    check(visibility.all())

    # a large open view (deep sweeps)
    grid = grid_from_pattern(np.zeros((40, 41), dtype=bool))
    check(vfs.partially_occluded(grid, Position(39, 20)).all())
    # a serpentine corridor makes the longest possible chains
    opaque = np.ones((21, 21), dtype=bool)
    opaque[20, :] = False
    opaque[:, 0] = False
    opaque[:, 20] = False
    grid = grid_from_pattern(opaque)
    check(
        np.array_equal(
            vfs.partially_occluded(grid, Position(20, 10)),
            ref_partially_occluded(opaque, (20, 10)),
        )
    )


def main():
    rnd = random.Random(6)
    check_hardcoded()

    patterns = 0
    for shape, agent_cell in SMALL_VIEWS:
        for name in ['partially_occluded', 'raytracing']:
            patterns += check_exhaustive(name, shape, agent_cell)
    for shape, agent_cell in SMALL_VIEWS_RAYTRACING_ONLY:
        patterns += check_exhaustive('raytracing', shape, agent_cell)

    observations = 0
    states = 0
    for shape in SHAPES:
        for position in agent_positions(shape):
            for orientation in Orientation:
                states += 1
                grid = random_grid(rnd, shape, rnd.choice([0.0, 0.2, 0.5]))
                held = rnd.choice([None, Key(Color.NONE), Box(Floor())])
                state = State(
                    grid, Agent(Position(*position), orientation, held)
                )
                for area in rnd.sample(AREAS, 5):
                    for name in ['partially_occluded', 'raytracing']:
                        observations += check_observation(
                            name, state, area, rnd
                        )
                    check_stochastic(state, area, seed=rnd.randrange(100))

    # several view areas and functions interleaved on one state, twice
    grid = random_grid(rnd, (5, 6), 0.3)
    state = State(grid, Agent(Position(2, 3), Orientation.R))
    first = [
        observe(name, state, area)
        for area in AREAS
        for name in ['partially_occluded', 'raytracing']
    ]
    second = [
        observe(name, state, area)
        for area in reversed(AREAS)
        for name in ['raytracing', 'partially_occluded']
    ]
    check(first == second[::-1])

    print(
        f'ok: {CHECKS} checks, {patterns} exhaustive patterns, '
        f'{states} states, {observations} observations'
    )


if __name__ == '__main__':
    main()
