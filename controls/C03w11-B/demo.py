"""Demo for change B (Grid.colors helper used by the two `contains`).

Run from the worktree root:  /venv/bin/python _seed/B/demo.py

Exits 0 on the pristine tree and with the patch applied (the new method is
only exercised when present).  Checks

1. the set of colours of a grid (reference spelling embedded here, hard-coded
   expectations, and `Grid.colors` when it exists): every cell is counted
   (corners of non-square grids, 1x1 grids), boxes count as NONE whatever they
   contain, a fresh set is returned every time, the grid is untouched;
2. StateSpace.contains / ObservationSpace.contains against reference
   implementations (the pristine spelling) over legal and illegal states and
   observations (wrong shape, foreign object types, foreign colours in the
   grid / held by the agent, colour NONE with an empty colour list, agent
   outside of the grid, Hidden in a state), that they are pure, repeatable,
   agree on copies, and keep their short-circuit order;
3. functional_step / functional_observation (which call `contains` on their
   inputs and outputs) of a hand-made GridWorld and of the shipped yaml
   compositions: inputs not modified, next state alias-free, copies equal and
   hash like their original, states outside of the space still rejected with
   ValueError and left untouched.
"""
import glob
import itertools as itt
import os
import re
import sys
import warnings
from functools import partial

warnings.filterwarnings('ignore')
sys.path.insert(0, os.getcwd())

import numpy as np  # noqa: E402

from gym_gridverse.action import Action  # noqa: E402
from gym_gridverse.agent import Agent  # noqa: E402
from gym_gridverse.debugging import reset_gv_debug  # noqa: E402
from gym_gridverse.envs import observation_functions as observation_fs  # noqa: E402
from gym_gridverse.envs import reward_functions as reward_fs  # noqa: E402
from gym_gridverse.envs import terminating_functions as terminating_fs  # noqa: E402
from gym_gridverse.envs import transition_functions as transition_fs  # noqa: E402
from gym_gridverse.envs.gridworld import GridWorld  # noqa: E402
from gym_gridverse.envs.visibility_functions import (  # noqa: E402
    visibility_function_registry,
)
from gym_gridverse.geometry import (  # noqa: E402
    Area,
    Orientation,
    Position,
    Shape,
)
from gym_gridverse.grid import Grid  # noqa: E402
from gym_gridverse.grid_object import (  # noqa: E402
    Beacon,
    Box,
    Color,
    Door,
    Exit,
    Floor,
    GridObject,
    Hidden,
    Key,
    MovingObstacle,
    NoneGridObject,
    Telepod,
    Wall,
)
from gym_gridverse.observation import Observation  # noqa: E402
from gym_gridverse.rng import make_rng  # noqa: E402
from gym_gridverse.spaces import (  # noqa: E402
    ActionSpace,
    ObservationSpace,
    StateSpace,
)
from gym_gridverse.state import State  # noqa: E402
from gym_gridverse.utils.fast_copy import fast_copy  # noqa: E402

n_checks = 0


def check(condition, message):
    global n_checks
    n_checks += 1
    if not condition:
        print('FAIL:', message)
        sys.exit(1)


# --------------------------------------------------------------------------
# deep structural fingerprints (Grid.__eq__ does not look inside of boxes)


def fp_object(obj):
    if isinstance(obj, Box):
        extra = fp_object(obj.content)
    elif isinstance(obj, Door):
        extra = obj.state
    else:
        extra = None
    return (
        type(obj).__name__,
        obj.state_index,
        obj.color,
        obj.blocks_movement,
        obj.blocks_vision,
        obj.holdable,
        extra,
    )


def fp_grid(grid):
    return (
        grid.shape,
        grid.area,
        tuple(tuple(fp_object(obj) for obj in row) for row in grid.objects),
    )


def fp_agent(agent):
    return (agent.position, agent.orientation, fp_object(agent.grid_object))


def fp(x):
    """fingerprint of a State or Observation"""
    return (fp_grid(x.grid), fp_agent(x.agent))


def identity_snapshot(grid):
    """which list / object sits where, by identity"""
    return (
        id(grid.objects),
        tuple(id(row) for row in grid.objects),
        tuple(tuple(id(obj) for obj in row) for row in grid.objects),
    )


def mutable_ids(x):
    """ids of every mutable component reachable from a State/Observation"""
    ids = {id(x.grid), id(x.grid.objects), id(x.agent), id(x.agent.transform)}

    def add_object(obj):
        ids.add(id(obj))
        if isinstance(obj, Box):
            add_object(obj.content)

    for row in x.grid.objects:
        ids.add(id(row))
        for obj in row:
            add_object(obj)
    add_object(x.agent.grid_object)
    return ids


# --------------------------------------------------------------------------
# reference implementations (pristine spelling)


def ref_grid_colors(grid):
    return set(grid[position].color for position in grid.area.positions())


def ref_state_space_contains(space, state):
    return (
        state.grid.shape == space.grid_shape
        and state.grid.object_types().issubset(space.object_types)
        and set(
            state.grid[position].color
            for position in state.grid.area.positions()
        ).issubset(space.colors)
        and state.grid.area.contains(state.agent.position)
        and isinstance(state.agent.orientation, Orientation)
        and type(state.agent.grid_object) in space._agent_object_types
        and state.agent.grid_object.color in space.colors
    )


def ref_observation_space_contains(space, observation):
    have_same_shape = observation.grid.shape == space.grid_shape
    y_in_grid = 0 <= observation.agent.position.y < space.area.height
    x_in_grid = 0 <= observation.agent.position.x < space.area.width
    agent_obj_type_in_space = (
        type(observation.agent.grid_object) in space._agent_object_types
    )
    grid_objs_in_space = observation.grid.object_types().issubset(
        space._grid_object_types
    )
    grid_objs_colors_in_space = set(
        observation.grid[pos].color for pos in observation.grid.area.positions()
    ).issubset(space.colors)
    agent_obj_color_in_space = (
        observation.agent.grid_object.color in space.colors
    )
    return all(
        [
            have_same_shape,
            grid_objs_in_space,
            grid_objs_colors_in_space,
            y_in_grid,
            x_in_grid,
            agent_obj_type_in_space,
            agent_obj_color_in_space,
        ]
    )


def make_state(height, width, agent_position, orientation, held):
    """non-square room with doors, keys, nested boxes, telepods, obstacles"""
    grid = Grid.from_shape((height, width))
    for position in grid.area.positions('border'):
        grid[position] = Wall()
    inside = list(grid.area.positions('inside'))
    makers = [
        lambda: Door(Door.Status.LOCKED, Color.YELLOW),
        Floor,
        lambda: Key(Color.YELLOW),
        lambda: Door(Door.Status.CLOSED, Color.NONE),
        Floor,
        lambda: Box(Box(Key(Color.RED))),
        Floor,
        lambda: Telepod(Color.BLUE),
        Wall,
        lambda: Door(Door.Status.OPEN, Color.GREEN),
        MovingObstacle,
        Floor,
        lambda: Telepod(Color.BLUE),
        lambda: Box(Exit()),
        Floor,
        Exit,
        lambda: Beacon(Color.GREEN),
    ]
    for position, maker in zip(inside, itt.cycle(makers)):
        grid[position] = maker()
    return State(grid, Agent(agent_position, orientation, held))


# --------------------------------------------------------------------------
# 1. the colours of a grid: every cell counted, nothing else, nothing touched


def expected_colors(grid):
    """independent spelling: straight over the container"""
    colors = set()
    for row in grid.objects:
        for obj in row:
            colors.add(obj.color)
    return colors


def check_grid_colors(grid, expected=None):
    before_ids = identity_snapshot(grid)
    before_fp = fp_grid(grid)
    colors = ref_grid_colors(grid)
    check(colors == expected_colors(grid), 'reference colours')
    if expected is not None:
        check(colors == expected, f'hard-coded colours {expected}')
    if hasattr(grid, 'colors'):  # only with the patch
        answer = grid.colors()
        check(type(answer) is set, 'Grid.colors returns a set')
        check(answer == colors, 'Grid.colors == reference')
        answer.add('scribble')  # a fresh set every time
        check(grid.colors() == colors, 'Grid.colors is not cached / shared')
    check(identity_snapshot(grid) == before_ids, 'grid identities untouched')
    check(fp_grid(grid) == before_fp, 'grid contents untouched')


check_grid_colors(Grid.from_shape((1, 1)), {Color.NONE})
check_grid_colors(Grid.from_shape((3, 5)), {Color.NONE})
check_grid_colors(Grid([[Key(Color.RED)]]), {Color.RED})
check_grid_colors(
    Grid([[Key(Color.RED), Floor()], [Hidden(), Telepod(Color.BLUE)]]),
    {Color.RED, Color.NONE, Color.BLUE},
)
# the colour of a box is NONE, whatever it contains
check_grid_colors(Grid([[Box(Key(Color.GREEN)), Box(Box(Exit(Color.RED)))]]), {Color.NONE})
# last cell of a non-square grid (corners / borders are not skipped)
for height, width in [(1, 6), (6, 1), (2, 3), (4, 7)]:
    for y, x in itt.product(range(height), range(width)):
        grid = Grid.from_shape((height, width))
        grid[y, x] = Door(Door.Status.LOCKED, Color.YELLOW)
        check_grid_colors(
            grid,
            {Color.YELLOW} if height * width == 1 else {Color.NONE, Color.YELLOW},
        )


# --------------------------------------------------------------------------
# 2. StateSpace.contains / ObservationSpace.contains vs reference, purity

ALL_TYPES = [Floor, Wall, Exit, Door, Key, MovingObstacle, Box, Telepod, Beacon]

STATE_SPACES = [
    StateSpace(Shape(4, 6), ALL_TYPES, list(Color)),
    StateSpace(Shape(5, 4), ALL_TYPES, list(Color)),
    StateSpace(Shape(4, 6), ALL_TYPES, [Color.YELLOW, Color.RED]),
    StateSpace(Shape(4, 6), ALL_TYPES, []),  # only NONE (always added)
    StateSpace(Shape(4, 6), [Floor, Wall], list(Color)),
    StateSpace(Shape(4, 6), [], []),
    StateSpace(Shape(4, 6), [Floor], []),
    StateSpace(Shape(1, 1), [Floor, Key], [Color.BLUE]),
]

check(
    STATE_SPACES[3].colors == {Color.NONE}
    and STATE_SPACES[2].colors == {Color.NONE, Color.YELLOW, Color.RED},
    'colour NONE is always part of a space',
)


def candidate_states():
    for (height, width), position, orientation, held in itt.product(
        [(4, 6), (5, 4)],
        [Position(0, 0), Position(1, 1), Position(3, 3), Position(3, 5),
         Position(4, 3), Position(-1, 2), Position(2, 6), Position(4, 6)],
        [Orientation.F, Orientation.L],
        [None, Key(Color.YELLOW), Key(Color.GREEN), Box(Key(Color.NONE)),
         Hidden(), Wall()],
    ):
        yield make_state(height, width, position, orientation, held)

    # plain grids
    for held in [None, Key(Color.BLUE), Key(Color.NONE)]:
        yield State(
            Grid.from_shape((4, 6)), Agent(Position(2, 2), Orientation.B, held)
        )
        yield State(
            Grid.from_shape((1, 1)), Agent(Position(0, 0), Orientation.R, held)
        )
        # a single coloured cell, in the last corner
        grid = Grid.from_shape((4, 6))
        grid[3, 5] = Key(Color.BLUE)
        yield State(grid, Agent(Position(0, 0), Orientation.R, held))
        # coloured content hidden in a box does not count
        grid = Grid.from_shape((4, 6), factory=Wall)
        grid[0, 5] = Box(Key(Color.BLUE))
        yield State(grid, Agent(Position(0, 5), Orientation.R, held))
        # Hidden inside of a state grid
        grid = Grid.from_shape((4, 6))
        grid[1, 0] = Hidden()
        yield State(grid, Agent(Position(0, 5), Orientation.R, held))


n_true = n_false = 0
for state in candidate_states():
    before_fp = fp(state)
    before_ids = identity_snapshot(state.grid)
    for space in STATE_SPACES:
        answer = space.contains(state)
        check(type(answer) is bool, 'StateSpace.contains returns a bool')
        check(
            answer == ref_state_space_contains(space, state),
            f'StateSpace.contains == reference for {state}',
        )
        check(space.contains(fast_copy(state)) == answer, 'contains(copy)')
        check(space.contains(state) == answer, 'contains asked again')
        n_true += answer
        n_false += not answer
    check(fp(state) == before_fp, 'contains leaves the state as is')
    check(identity_snapshot(state.grid) == before_ids, 'contains identities')
check(n_true > 20 and n_false > 20, f'both answers occur ({n_true}/{n_false})')

# hard-coded expectations
plain = State(Grid.from_shape((4, 6)), Agent(Position(2, 2), Orientation.B))
check(STATE_SPACES[6].contains(plain) is True, 'plain state, minimal space')
check(STATE_SPACES[5].contains(plain) is False, 'Floor not in empty space')
plain.grid[3, 5] = Exit(Color.RED)
check(STATE_SPACES[0].contains(plain) is True, 'red exit in the full space')
check(STATE_SPACES[3].contains(plain) is False, 'red exit, NONE-only space')
check(STATE_SPACES[2].contains(plain) is True, 'red exit, red/yellow space')
plain.grid[3, 5] = Exit(Color.GREEN)
check(STATE_SPACES[2].contains(plain) is False, 'green exit, red/yellow space')
plain.grid[3, 5] = Box(Exit(Color.GREEN))
check(STATE_SPACES[2].contains(plain) is True, 'green exit in a box')

# short-circuit order is the same: a grid of the wrong shape is rejected
# before anything else is looked at


class Explosive(Grid):
    def object_types(self):
        raise RuntimeError('object_types should not be looked at')

    def __getitem__(self, position):
        raise RuntimeError('cells should not be looked at')

    def colors(self):
        raise RuntimeError('colors should not be looked at')


check(
    STATE_SPACES[0].contains(
        State(
            Explosive([[Floor()] * 3] * 2),
            Agent(Position(0, 0), Orientation.F),
        )
    )
    is False,
    'wrong shape short-circuits',
)

OBSERVATION_SPACES = [
    ObservationSpace(Shape(3, 3), ALL_TYPES, list(Color)),
    ObservationSpace(Shape(3, 3), ALL_TYPES, []),
    ObservationSpace(Shape(3, 3), [Floor, Wall], [Color.YELLOW]),
    ObservationSpace(Shape(4, 5), ALL_TYPES, list(Color)),
    ObservationSpace(Shape(4, 5), [], []),
    ObservationSpace(Shape(7, 7), ALL_TYPES, [Color.BLUE, Color.GREEN]),
    ObservationSpace(Shape(1, 1), [Floor], []),
]

n_true = n_false = 0
for (height, width), area, name in itt.product(
    [(4, 6), (5, 4)],
    [
        Area((-2, 0), (-1, 1)),
        Area((-3, 0), (-2, 2)),
        Area((-6, 0), (-3, 3)),
        Area((0, 0), (0, 0)),
        Area((-1, 1), (-1, 1)),  # agent in the middle of its view
        Area((-3, 0), (-1, 3)),  # asymmetric
    ],
    ['fully_transparent', 'partially_occluded', 'raytracing'],
):
    if name == 'partially_occluded' and area.ymax != 0:
        continue
    f = observation_fs.factory(name, area=area)
    for position, orientation, held in itt.product(
        [Position(0, 0), Position(1, 1), Position(height - 1, width - 1),
         Position(2, 3), Position(0, width - 1)],
        list(Orientation),
        [None, Key(Color.YELLOW), Box(Key(Color.RED)), Hidden()],
    ):
        state = make_state(height, width, position, orientation, held)
        state_fp = fp(state)
        observation = f(state)
        before_fp = fp(observation)
        before_ids = identity_snapshot(observation.grid)
        for space in OBSERVATION_SPACES:
            answer = space.contains(observation)
            check(
                answer == ref_observation_space_contains(space, observation),
                'ObservationSpace.contains == reference',
            )
            check(space.contains(observation) == answer, 'asked again')
            n_true += answer
            n_false += not answer
        check(fp(observation) == before_fp, 'contains leaves the observation')
        check(identity_snapshot(observation.grid) == before_ids, 'identities')
        check(fp(state) == state_fp, 'contains(observation) leaves the state')
check(n_true > 20 and n_false > 20, f'both answers occur ({n_true}/{n_false})')

# --------------------------------------------------------------------------
# 3. GridWorld: functional interface is pure and alias-free


def make_env(shape, area, observation_name, object_types, colors, reset):
    transition = partial(
        transition_fs.chain,
        transition_functions=[
            transition_fs.move_agent,
            transition_fs.turn_agent,
            transition_fs.actuate_door,
            transition_fs.actuate_box,
            transition_fs.pickndrop,
            transition_fs.move_obstacles,
            transition_fs.teleport,
        ],
    )
    reward = partial(
        reward_fs.reduce_sum,
        reward_functions=[
            partial(reward_fs.reach_exit, reward_on=5.0, reward_off=0.0),
            partial(reward_fs.living_reward, reward=-0.05),
            partial(
                reward_fs.bump_into_wall,
                reward=-1.0,
            ),
            partial(
                reward_fs.pickndrop,
                object_type=Key,
                reward_pick=1.0,
                reward_drop=-1.0,
            ),
            partial(
                reward_fs.actuate_door, reward_open=1.0, reward_close=-1.0
            ),
        ],
    )
    terminating = partial(
        terminating_fs.reduce_any,
        terminating_functions=[
            terminating_fs.reach_exit,
            terminating_fs.bump_moving_obstacle,
        ],
    )
    return GridWorld(
        StateSpace(shape, object_types, colors),
        ActionSpace(list(Action)),
        ObservationSpace(Shape(area.height, area.width), object_types, colors),
        reset,
        transition,
        observation_fs.factory(observation_name, area=area),
        reward,
        terminating,
    )


OBJECT_TYPES = [
    Floor,
    Wall,
    Exit,
    Door,
    Key,
    MovingObstacle,
    Box,
    Telepod,
    Beacon,
]
COLORS = list(Color)


def check_env_state(env, state, tag):
    """all actions from one state; returns the successor states"""
    before_fp = fp(state)
    before_ids = identity_snapshot(state.grid)
    before_agent = (state.agent, state.agent.transform, state.agent.grid_object)

    copy = fast_copy(state)
    check(copy == state and hash(copy.grid) == hash(state.grid), 'copy ==')
    check(hash(copy.agent) == hash(state.agent), 'copy hashes like original')
    check(fp(copy) == before_fp, 'copy deep-equals original')
    check(mutable_ids(copy).isdisjoint(mutable_ids(state)), 'copy alias-free')

    next_states = []
    for action in env.action_space.actions:
        env.set_seed(17)
        next_state, reward, done = env.functional_step(state, action)
        check(fp(state) == before_fp, f'{tag}: step({action}) keeps the input')
        check(
            identity_snapshot(state.grid) == before_ids
            and (state.agent, state.agent.transform, state.agent.grid_object)
            == before_agent
            and state.agent.transform is before_agent[1]
            and state.agent.grid_object is before_agent[2],
            f'{tag}: step({action}) keeps the input identities',
        )
        check(
            mutable_ids(next_state).isdisjoint(mutable_ids(state)),
            f'{tag}: step({action}) result is alias-free',
        )

        # asked again (same seed), from the state and from its copy
        env.set_seed(17)
        again = env.functional_step(copy, action)
        check(
            (fp(again[0]), again[1], again[2]) == (fp(next_state), reward, done),
            f'{tag}: step({action}) repeatable',
        )

        # mutating the result does not reach the input, and vice versa
        next_fp = fp(next_state)
        scratch = fast_copy(next_state)
        for position in list(scratch.grid.area.positions()):
            obj = scratch.grid[position]
            if isinstance(obj, Door):
                obj.state = Door.Status.OPEN
            scratch.grid[position] = Wall()
        check(fp(state) == before_fp and fp(next_state) == next_fp, 'scratch')

        env.set_seed(3)
        observation = env.functional_observation(next_state)
        check(fp(next_state) == next_fp, f'{tag}: observation keeps the state')
        env.set_seed(3)
        check(
            fp(env.functional_observation(fast_copy(next_state)))
            == fp(observation),
            f'{tag}: observation repeatable',
        )
        next_states.append(next_state)
    return next_states


def explore(env, state, tag, depth, limit):
    frontier, seen, n = [state], {fp(state)}, 0
    for _ in range(depth):
        new_frontier = []
        for s in frontier:
            for next_state in check_env_state(env, s, tag):
                n += 1
                if fp(next_state) not in seen and len(seen) < limit:
                    seen.add(fp(next_state))
                    new_frontier.append(next_state)
        frontier = new_frontier
    return n


envs = []
for (height, width), (area, observation_name) in itt.product(
    [(4, 6), (5, 4)],
    [
        (Area((-2, 0), (-1, 1)), 'partially_occluded'),
        (Area((-3, 0), (-2, 2)), 'raytracing'),
        (Area((-1, 1), (-3, 3)), 'fully_transparent'),
        (Area((-6, 0), (-3, 3)), 'stochastic_raytracing'),
    ],
):
    for agent_position, orientation, held in [
        (Position(1, 1), Orientation.F, None),
        (Position(height - 2, width - 2), Orientation.L, Key(Color.YELLOW)),
        (Position(1, width - 2), Orientation.B, Box(Key(Color.NONE))),
        (Position(2, 2), Orientation.R, Key(Color.RED)),
    ]:
        prototype = make_state(height, width, agent_position, orientation, held)
        env = make_env(
            Shape(height, width),
            area,
            observation_name,
            OBJECT_TYPES,
            COLORS,
            lambda rng=None, prototype=prototype: fast_copy(prototype),
        )
        envs.append(env)
        env.set_seed(1)
        state = env.functional_reset()
        check(fp(state) == fp(prototype), 'reset')
        explore(env, state, f'{height}x{width}/{observation_name}', 2, 12)

# shipped compositions: the yaml package may be missing, and the files only use
# a tiny subset of the format (block mappings / sequences, flow lists, plain
# scalars), which is parsed here


def _yaml_scalar(text):
    text = text.strip()
    if text.startswith('['):
        items, depth, start = [], 0, 1
        for i, c in enumerate(text):
            if c == '[':
                depth += 1
            elif c == ']':
                depth -= 1
                if depth == 0:
                    if text[start:i].strip():
                        items.append(text[start:i])
                    break
            elif c == ',' and depth == 1:
                items.append(text[start:i])
                start = i + 1
        return [_yaml_scalar(item) for item in items]
    if text in ('True', 'true'):
        return True
    if text in ('False', 'false'):
        return False
    for convert in (int, float):
        try:
            return convert(text)
        except ValueError:
            pass
    return text


def _yaml_block(lines, i, indent):
    """lines: list of (indent, text);  returns (value, next index)"""
    if lines[i][1].startswith('- '):
        items = []
        while i < len(lines) and lines[i][0] == indent:
            assert lines[i][1].startswith('- ')
            rest = lines[i][1][2:]
            if re.match(r'^[A-Za-z_]+:', rest):
                lines[i] = (indent + 2, rest)
                item, i = _yaml_block(lines, i, indent + 2)
            else:
                item, i = _yaml_scalar(rest), i + 1
            items.append(item)
        return items, i

    mapping = {}
    while i < len(lines) and lines[i][0] == indent:
        key, _, rest = lines[i][1].partition(':')
        if rest.strip():
            mapping[key.strip()], i = _yaml_scalar(rest), i + 1
        else:
            mapping[key.strip()], i = _yaml_block(lines, i + 1, lines[i + 1][0])
    return mapping, i


def mini_yaml_load(path):
    lines = []
    with open(path) as f:
        for line in f:
            line = line.split('#')[0].rstrip()
            if line.strip():
                lines.append((len(line) - len(line.lstrip()), line.strip()))
    data, i = _yaml_block(lines, 0, 0)
    assert i == len(lines)
    return data


try:
    from gym_gridverse.envs.yaml.factory import factory_env_from_data

    def factory_env_from_yaml(path):
        return factory_env_from_data(mini_yaml_load(path))

    paths = sorted(
        glob.glob(os.path.join('gym_gridverse', 'registered_envs', '*.yaml'))
    )
except Exception as error:  # pragma: no cover
    print('skipping shipped compositions:', type(error).__name__, error)
    paths = []

n_shipped = 0
for path in paths:
    try:
        env = factory_env_from_yaml(path)
    except Exception as error:  # pragma: no cover
        print('skipping', path, type(error).__name__, error)
        continue
    n_shipped += 1
    for seed in (0, 1):
        env.set_seed(seed)
        state = env.functional_reset()
        # interleave with calls on all the previously built environments
        for other in envs[:: max(1, len(envs) // 4)]:
            other.set_seed(seed)
            other.functional_observation(other.functional_reset())
        explore(env, state, os.path.basename(path), 2, 6)

# states / observations outside of the spaces are still rejected (debug checks
# are on by default), and are left untouched
reset_gv_debug(True)
for object_types, colors, why in [
    (OBJECT_TYPES, [Color.YELLOW, Color.RED, Color.GREEN], 'foreign colour'),
    ([Floor, Wall, Exit, Door, Key], COLORS, 'foreign object type'),
    (OBJECT_TYPES, [], 'no colours but NONE'),
]:
    prototype = make_state(4, 6, Position(1, 1), Orientation.R, None)
    env = make_env(
        Shape(4, 6),
        Area((-2, 0), (-1, 1)),
        'fully_transparent',
        object_types,
        colors,
        lambda rng=None, prototype=prototype: fast_copy(prototype),
    )
    before_fp = fp(prototype)
    before_ids = identity_snapshot(prototype.grid)
    view = observation_fs.factory(
        'fully_transparent', area=Area((-2, 0), (-1, 1))
    )(prototype)
    for call, expect_rejection in (
        (env.functional_reset, True),
        (partial(env.functional_step, prototype, Action.TURN_LEFT), True),
        (
            partial(env.functional_observation, prototype),
            not ref_observation_space_contains(env.observation_space, view),
        ),
    ):
        try:
            call()
        except ValueError:
            rejected = True
        else:
            rejected = False
        check(rejected == expect_rejection, f'{why}: rejection of {call}')
    check(fp(prototype) == before_fp, f'{why}: state left as is')
    check(identity_snapshot(prototype.grid) == before_ids, f'{why}: identities')

    # without the debug checks the same calls go through, purely
    reset_gv_debug(False)
    next_state, _, _ = env.functional_step(prototype, Action.TURN_LEFT)
    env.functional_observation(prototype)
    check(fp(prototype) == before_fp, f'{why}: state left as is (no debug)')
    check(mutable_ids(next_state).isdisjoint(mutable_ids(prototype)), 'alias')
    reset_gv_debug(True)


print(f'OK ({n_checks} checks, {n_shipped} shipped compositions)')
