"""C04 demo (change B): stateful interface == functional interface, no stale observations.

Run from the worktree root:  /venv/bin/python _seed/B/demo.py
Exits 0 on the pristine tree and with _seed/B/patch.diff applied.

The reference implementation of the stateful interface (``Reference`` below) is
embedded here:  it threads states through the *functional* interface of a twin
environment (same configuration, same seed) and memoizes one observation per
state.  Every stateful environment is compared against it under many patterns
of reads.
"""
import itertools
import os
import sys
import warnings

sys.path.insert(0, os.getcwd())
warnings.simplefilter('ignore')

import numpy as np  # noqa: E402

from gym_gridverse.action import Action  # noqa: E402
from gym_gridverse.envs import observation_functions as observation_fs  # noqa: E402
from gym_gridverse.envs import reset_functions as reset_fs  # noqa: E402
from gym_gridverse.envs import reward_functions as reward_fs  # noqa: E402
from gym_gridverse.envs import terminating_functions as terminating_fs  # noqa: E402
from gym_gridverse.envs import transition_functions as transition_fs  # noqa: E402
from gym_gridverse.envs.gridworld import GridWorld  # noqa: E402
from gym_gridverse.envs.inner_env import InnerEnv  # noqa: E402
from gym_gridverse.geometry import Area, Orientation, Position, Shape  # noqa: E402
from gym_gridverse.grid_object import (  # noqa: E402
    Beacon,
    Color,
    Door,
    Exit,
    Floor,
    Key,
    MovingObstacle,
    Telepod,
    Wall,
)
from gym_gridverse.outer_env import OuterEnv  # noqa: E402
from gym_gridverse.representations.observation_representations import (  # noqa: E402
    make_observation_representation,
)
from gym_gridverse.representations.state_representations import (  # noqa: E402
    make_state_representation,
)
from gym_gridverse.spaces import ActionSpace, ObservationSpace, StateSpace  # noqa: E402

CHECKS = 0


def check(condition, message):
    global CHECKS
    CHECKS += 1
    if not condition:
        print('FAIL:', message)
        sys.exit(1)


def raises(exception_type, function, message):
    try:
        function()
    except exception_type as error:
        check(type(error) is exception_type, f'{message}: exact type')
        return error
    except Exception as error:  # pylint: disable=broad-except
        check(False, f'{message}: raised {type(error).__name__} instead')
    check(False, f'{message}: did not raise')
    return None


# ---------------------------------------------------------------------------
# configurations (python spelling of the shipped YAML files, plus awkward ones)
# ---------------------------------------------------------------------------

ALL_ACTIONS = list(Action)
MOVE_TURN = ALL_ACTIONS[:6]


def make_env(
    *,
    reset,
    transitions,
    rewards,
    observation,
    terminating,
    objects,
    colors,
    actions=None,
):
    reset_function = reset_fs.factory(reset[0], **reset[1])
    transition_function = transition_fs.factory(
        'chain',
        transition_functions=[
            transition_fs.factory(name, **kwargs) for name, kwargs in transitions
        ],
    )
    reward_function = reward_fs.factory(
        'reduce_sum',
        reward_functions=[
            reward_fs.factory(name, **kwargs) for name, kwargs in rewards
        ],
    )
    observation_function = observation_fs.factory(
        observation[0], **observation[1]
    )
    terminating_function = terminating_fs.factory(
        'reduce_any',
        terminating_functions=[
            terminating_fs.factory(name, **kwargs)
            for name, kwargs in terminating
        ],
    )

    state = reset_function()
    observation_ = observation_function(state)
    return GridWorld(
        StateSpace(state.grid.shape, objects, colors),
        ActionSpace(list(actions if actions is not None else ALL_ACTIONS)),
        ObservationSpace(observation_.grid.shape, objects, colors),
        reset_function,
        transition_function,
        observation_function,
        reward_function,
        terminating_function,
    )


COMMON_REWARDS = [
    ('reach_exit', dict(reward_on=5.0, reward_off=0.0)),
    ('living_reward', dict(reward=-0.05)),
    (
        'getting_closer',
        dict(
            distance_function=Position.manhattan_distance,
            object_type=Exit,
            reward_closer=0.2,
            reward_further=-0.2,
        ),
    ),
]


def _common_rewards():
    return [(name, dict(kwargs)) for name, kwargs in COMMON_REWARDS]


AREA_7x7 = Area((-6, 0), (-3, 3))
AREA_ASYM = Area((-3, 1), (-1, 1))  # sees one row behind, narrow
AREA_TALL = Area((-4, 0), (-2, 2))
AREA_TINY = Area((0, 0), (0, 0))  # only the agent's own cell

CONFIGS = {
    'empty-fixed-4x4': lambda: make_env(
        reset=('empty', dict(shape=Shape(4, 4))),
        transitions=[('move_agent', {}), ('turn_agent', {})],
        rewards=_common_rewards(),
        observation=('partially_occluded', dict(area=AREA_7x7)),
        terminating=[('reach_exit', {})],
        objects=[Wall, Floor, Exit],
        colors=[Color.NONE],
        actions=MOVE_TURN,
    ),
    'empty-random-5x9': lambda: make_env(
        reset=(
            'empty',
            dict(shape=Shape(5, 9), random_agent=True, random_exit=True),
        ),
        transitions=[('move_agent', {}), ('turn_agent', {})],
        rewards=_common_rewards(),
        observation=('stochastic_raytracing', dict(area=AREA_ASYM)),
        terminating=[('reach_exit', {})],
        objects=[Wall, Floor, Exit],
        colors=[Color.NONE],
    ),
    'dynamic-obstacles-7x7': lambda: make_env(
        reset=(
            'dynamic_obstacles',
            dict(shape=Shape(7, 7), num_obstacles=2, random_agent=False),
        ),
        transitions=[
            ('move_agent', {}),
            ('turn_agent', {}),
            ('move_obstacles', {}),
        ],
        rewards=_common_rewards()
        + [
            ('bump_moving_obstacle', dict(reward=-1.0)),
            ('bump_into_wall', dict(reward=-1.0)),
        ],
        observation=('partially_occluded', dict(area=AREA_7x7)),
        terminating=[
            ('reach_exit', {}),
            ('bump_moving_obstacle', {}),
            ('bump_into_wall', {}),
        ],
        objects=[Wall, Floor, Exit, MovingObstacle],
        colors=[Color.NONE],
        actions=MOVE_TURN,
    ),
    'dynamic-obstacles-stochastic-6x8': lambda: make_env(
        reset=(
            'dynamic_obstacles',
            dict(shape=Shape(6, 8), num_obstacles=3, random_agent=True),
        ),
        transitions=[
            ('move_agent', {}),
            ('turn_agent', {}),
            ('move_obstacles', {}),
        ],
        rewards=_common_rewards(),
        observation=('stochastic_raytracing', dict(area=AREA_TALL)),
        terminating=[('reach_exit', {})],
        objects=[Wall, Floor, Exit, MovingObstacle],
        colors=[Color.NONE],
    ),
    'keydoor-7x7': lambda: make_env(
        reset=('keydoor', dict(shape=Shape(7, 7))),
        transitions=[
            ('move_agent', {}),
            ('turn_agent', {}),
            ('actuate_door', {}),
            ('pickndrop', {}),
        ],
        rewards=_common_rewards()
        + [
            (
                'pickndrop',
                dict(object_type=Key, reward_pick=1.0, reward_drop=-1.0),
            ),
            ('actuate_door', dict(reward_open=1.0, reward_close=-1.0)),
        ],
        observation=('partially_occluded', dict(area=AREA_7x7)),
        terminating=[('reach_exit', {})],
        objects=[Wall, Floor, Exit, Door, Key],
        colors=[Color.NONE, Color.YELLOW],
    ),
    'keydoor-raytracing-5x8': lambda: make_env(
        reset=('keydoor', dict(shape=Shape(5, 8))),
        transitions=[
            ('move_agent', {}),
            ('turn_agent', {}),
            ('actuate_door', {}),
            ('pickndrop', {}),
        ],
        rewards=_common_rewards(),
        observation=('raytracing', dict(area=AREA_ASYM)),
        terminating=[('reach_exit', {})],
        objects=[Wall, Floor, Exit, Door, Key],
        colors=[Color.NONE, Color.YELLOW],
    ),
    'crossing-7x7': lambda: make_env(
        reset=(
            'crossing',
            dict(shape=Shape(7, 7), num_rivers=2, object_type=Wall),
        ),
        transitions=[('move_agent', {}), ('turn_agent', {})],
        rewards=_common_rewards(),
        observation=('fully_transparent', dict(area=AREA_7x7)),
        terminating=[('reach_exit', {})],
        objects=[Wall, Floor, Exit],
        colors=[Color.NONE],
        actions=MOVE_TURN,
    ),
    'teleport-7x7': lambda: make_env(
        reset=('teleport', dict(shape=Shape(7, 7))),
        transitions=[
            ('move_agent', {}),
            ('turn_agent', {}),
            ('teleport', {}),
        ],
        rewards=_common_rewards(),
        observation=('stochastic_raytracing', dict(area=AREA_7x7)),
        terminating=[('reach_exit', {})],
        objects=[Wall, Floor, Exit, Telepod],
        colors=[Color.NONE, Color.RED],
        actions=MOVE_TURN,
    ),
    'four-rooms-9x9': lambda: make_env(
        reset=('rooms', dict(shape=Shape(9, 9), layout=(2, 2))),
        transitions=[('move_agent', {}), ('turn_agent', {})],
        rewards=_common_rewards(),
        observation=('partially_occluded', dict(area=AREA_7x7)),
        terminating=[('reach_exit', {})],
        objects=[Wall, Floor, Exit],
        colors=[Color.NONE],
        actions=MOVE_TURN,
    ),
    'memory-5x7-tiny-view': lambda: make_env(
        reset=(
            'memory',
            dict(shape=Shape(5, 7), colors={Color.RED, Color.GREEN}),
        ),
        transitions=[('move_agent', {}), ('turn_agent', {})],
        rewards=[('reach_exit_memory', dict(reward_good=5.0, reward_bad=-5.0))],
        observation=('stochastic_raytracing', dict(area=AREA_TINY)),
        terminating=[('reach_exit', {})],
        objects=[Wall, Floor, Exit, Beacon],
        colors=[Color.NONE, Color.RED, Color.GREEN],
        actions=MOVE_TURN,
    ),
}


# ---------------------------------------------------------------------------
# fingerprints (stronger than __eq__ alone)
# ---------------------------------------------------------------------------


def fingerprint(state_or_observation):
    grid = state_or_observation.grid
    agent = state_or_observation.agent
    cells = tuple(
        (
            type(grid[position]).__name__,
            grid[position].state_index,
            grid[position].color,
            repr(grid[position]),
        )
        for position in grid.area.positions()
    )
    return (
        (grid.shape.height, grid.shape.width),
        cells,
        (agent.position.y, agent.position.x),
        agent.orientation,
        type(agent.grid_object).__name__,
        agent.grid_object.state_index,
        agent.grid_object.color,
    )


def same(a, b):
    return a == b and fingerprint(a) == fingerprint(b)


# ---------------------------------------------------------------------------
# reference implementation of the stateful interface
# ---------------------------------------------------------------------------


class Reference:
    """Stateful interface spelled out on top of the functional one."""

    def __init__(self, env: InnerEnv):
        self.env = env  # only the functional_* methods and set_seed are used
        self.current_state = None
        self.current_observation = None

    def set_seed(self, seed):
        self.env.set_seed(seed)

    def reset(self):
        self.current_state = self.env.functional_reset()
        self.current_observation = None

    def step(self, action):
        if self.current_state is None:
            raise RuntimeError
        next_state, reward, done = self.env.functional_step(
            self.current_state, action
        )
        self.current_state = next_state
        self.current_observation = None
        return reward, done

    @property
    def state(self):
        if self.current_state is None:
            raise RuntimeError
        return self.current_state

    @property
    def observation(self):
        if self.current_observation is None:
            self.current_observation = self.env.functional_observation(
                self.state
            )
        return self.current_observation


# read patterns: what is read between two consecutive updates
# (s = state, o = observation)
READ_PATTERNS = {
    'none': lambda rng: '',
    'state-only': lambda rng: 's',
    'observation-once': lambda rng: 'o',
    'observation-thrice': lambda rng: 'ooo',
    'mixed': lambda rng: 'sosos',
    'random': lambda rng: ''.join(
        rng.choice(['s', 'o'], size=rng.integers(0, 5)).tolist()
    ),
}


def run_script(make, seed, script_rng_seed, pattern_name, num_steps, reseed_at):
    """Drives a stateful env and the reference with the same script."""
    env = make()
    ref = Reference(make())
    env.set_seed(seed)
    ref.set_seed(seed)

    script_rng = np.random.default_rng(script_rng_seed)
    pattern = READ_PATTERNS[pattern_name]
    actions = env.action_space.actions
    label = f'[{pattern_name} seed={seed}]'

    def do_reads():
        reads = pattern(script_rng)
        first_observation = None
        for read in reads:
            if read == 's':
                check(
                    same(env.state, ref.state),
                    f'{label} state differs from functional threading',
                )
                check(env.state is env.state, f'{label} state identity')
            else:
                observation = env.observation
                check(
                    same(observation, ref.observation),
                    f'{label} observation differs from functional threading',
                )
                if first_observation is None:
                    first_observation = observation
                check(
                    observation is first_observation,
                    f'{label} repeated read returned another observation',
                )

    env.reset()
    ref.reset()
    do_reads()

    for t in range(num_steps):
        if t in reseed_at:
            new_seed = seed + 1000 + t
            env.set_seed(new_seed)
            ref.set_seed(new_seed)

        roll = script_rng.random()
        if roll < 0.08:
            # mid-episode reset
            env.reset()
            ref.reset()
        else:
            action = actions[script_rng.integers(len(actions))]
            reward, done = env.step(action)
            reward_ref, done_ref = ref.step(action)
            check(reward == reward_ref, f'{label} reward differs at t={t}')
            check(
                type(reward) is type(reward_ref),
                f'{label} reward type differs at t={t}',
            )
            check(done is done_ref or done == done_ref, f'{label} done differs')
            if done:
                do_reads()
                env.reset()
                ref.reset()
        do_reads()

    # final, unconditional comparison (also when nothing was ever read)
    check(same(env.state, ref.state), f'{label} final state differs')
    check(
        same(env.observation, ref.observation),
        f'{label} final observation differs',
    )
    # both generators must be in the same position afterwards
    check(
        env._rng.bit_generator.state == ref.env._rng.bit_generator.state,
        f'{label} randomness consumed differently',
    )


def scenario_trajectories():
    for (name, make), pattern_name in itertools.product(
        CONFIGS.items(), READ_PATTERNS
    ):
        for seed in (0, 1, 17):
            run_script(
                make,
                seed,
                script_rng_seed=seed * 7 + len(name),
                pattern_name=pattern_name,
                num_steps=25,
                reseed_at={12} if seed == 17 else set(),
            )


# ---------------------------------------------------------------------------
# hard-coded expectations (independent of any randomness)
# ---------------------------------------------------------------------------


def scenario_hard_coded():
    env = CONFIGS['empty-fixed-4x4']()
    env.set_seed(0)
    env.reset()
    check(env.state.agent.position == Position(1, 1), 'start position')
    check(env.state.agent.orientation is Orientation.R, 'start orientation')

    expected = [
        # action, position, orientation, reward, done
        (Action.MOVE_FORWARD, (1, 2), Orientation.R, 0.15, False),
        (Action.MOVE_FORWARD, (1, 2), Orientation.R, -0.05, False),
        (Action.TURN_RIGHT, (1, 2), Orientation.B, -0.05, False),
        (Action.MOVE_RIGHT, (1, 1), Orientation.B, -0.25, False),
        (Action.MOVE_LEFT, (1, 2), Orientation.B, 0.15, False),
        (Action.TURN_LEFT, (1, 2), Orientation.R, -0.05, False),
        (Action.MOVE_BACKWARD, (1, 1), Orientation.R, -0.25, False),
        (Action.MOVE_RIGHT, (2, 1), Orientation.R, 0.15, False),
        (Action.MOVE_FORWARD, (2, 2), Orientation.R, 5.15, True),
    ]
    for action, position, orientation, reward, done in expected:
        observation_before = env.observation
        reward_, done_ = env.step(action)
        check(
            env.state.agent.position == Position(*position),
            f'hard-coded position after {action}',
        )
        check(
            env.state.agent.orientation is orientation,
            f'hard-coded orientation after {action}',
        )
        check(abs(reward_ - reward) < 1e-9, f'hard-coded reward after {action}')
        check(done_ is done, f'hard-coded done after {action}')
        check(
            env.observation is not observation_before,
            'observation recomputed after step',
        )
        # observation always has the agent at the bottom-centre, facing forward
        check(
            env.observation.agent.position == Position(6, 3),
            'observation agent position',
        )
        check(
            env.observation.agent.orientation is Orientation.F,
            'observation agent orientation',
        )
        # cell under the agent in the observation is the one in the state
        check(
            type(env.observation.grid[Position(6, 3)])
            is type(env.state.grid[env.state.agent.position]),
            'observation belongs to the current state',
        )

    # reset after the end of the episode: back at the start, new observation
    observation_before = env.observation
    env.reset()
    check(env.state.agent.position == Position(1, 1), 'position after reset')
    check(env.observation is not observation_before, 'observation after reset')
    check(env.observation is env.observation, 'memoized after reset')


# ---------------------------------------------------------------------------
# errors:  which exception, and that nothing else happened
# ---------------------------------------------------------------------------


def scenario_errors():
    for name, make in CONFIGS.items():
        env = make()
        twin = make()
        env.set_seed(5)
        twin.set_seed(5)

        # nothing is available before the first reset; asking does not consume
        # randomness and does not leave anything behind
        for _ in range(2):
            raises(RuntimeError, lambda: env.state, f'{name} state before reset')
            raises(
                RuntimeError,
                lambda: env.observation,
                f'{name} observation before reset',
            )
            for action in (Action.MOVE_FORWARD, Action.TURN_LEFT, 'bogus', None):
                raises(
                    RuntimeError,
                    lambda: env.step(action),  # pylint: disable=cell-var-from-loop
                    f'{name} step before reset',
                )
        check(env._state is None, f'{name} no state appeared')
        check(env._observation is None, f'{name} no observation appeared')
        check(
            env._rng.bit_generator.state == twin._rng.bit_generator.state,
            f'{name} randomness consumed by failing calls',
        )

        env.reset()
        twin.reset()
        check(same(env.state, twin.state), f'{name} first state after failures')
        check(
            same(env.observation, twin.observation),
            f'{name} first observation after failures',
        )

        # illegal actions: ValueError, nothing moves, nothing is recomputed
        illegal = [None, 'MOVE_FORWARD', -1, 0, 3.5, object()]
        illegal += [a for a in Action if a not in env.action_space.actions]
        for action in illegal:
            state_before = env.state
            observation_before = env.observation
            rng_before = env._rng.bit_generator.state
            error = raises(
                ValueError,
                lambda: env.step(action),  # pylint: disable=cell-var-from-loop
                f'{name} illegal action {action!r}',
            )
            check('action' in str(error), f'{name} message mentions action')
            check(env.state is state_before, f'{name} state kept on error')
            check(
                env.observation is observation_before,
                f'{name} observation kept on error',
            )
            check(
                env._rng.bit_generator.state == rng_before,
                f'{name} randomness kept on error',
            )
            raises(
                ValueError,
                lambda: env.functional_step(
                    state_before, action  # pylint: disable=cell-var-from-loop
                ),
                f'{name} illegal action, functional',
            )

        # the episode goes on as if nothing happened
        for action in env.action_space.actions:
            check(env.step(action) == twin.step(action), f'{name} after errors')
            check(same(env.state, twin.state), f'{name} state after errors')
            check(
                same(env.observation, twin.observation),
                f'{name} observation after errors',
            )


class Flaky(InnerEnv):
    """Minimal InnerEnv whose functional methods can be made to fail."""

    def __init__(self):
        super().__init__(None, None, None)
        self.fail = False
        self.counter = 0
        self.observation_calls = 0

    def set_seed(self, seed=None):
        self.counter = 0 if seed is None else seed

    def functional_reset(self):
        if self.fail:
            raise KeyError('reset')
        self.counter += 1
        return ('state', self.counter)

    def functional_step(self, state, action):
        if self.fail:
            raise KeyError('step')
        self.counter += 1
        return ('state', self.counter, state, action), float(self.counter), False

    def functional_observation(self, state):
        self.observation_calls += 1
        return ('observation', state, self.observation_calls)


def scenario_failing_dynamics():
    env = Flaky()
    raises(RuntimeError, lambda: env.state, 'flaky state before reset')
    raises(RuntimeError, lambda: env.observation, 'flaky observation before')
    raises(RuntimeError, lambda: env.step('a'), 'flaky step before reset')
    check(env.counter == 0, 'dynamics were not run before the first reset')
    check(env.observation_calls == 0, 'no observation before the first reset')

    env.fail = True
    raises(KeyError, env.reset, 'failing reset propagates')
    raises(RuntimeError, lambda: env.state, 'still no state after failed reset')
    env.fail = False

    env.reset()
    check(env.state == ('state', 1), 'flaky first state')
    check(env.observation_calls == 0, 'observation is lazy')
    observation = env.observation
    check(observation == ('observation', ('state', 1), 1), 'flaky observation')
    check(env.observation is observation, 'flaky memoized')
    check(env.observation_calls == 1, 'computed once')

    env.fail = True
    raises(KeyError, lambda: env.step('a'), 'failing step propagates')
    raises(KeyError, env.reset, 'failing reset propagates (2)')
    check(env.state == ('state', 1), 'state kept after failing step/reset')
    check(env.observation is observation, 'observation kept after failure')
    check(env.observation_calls == 1, 'not recomputed after failure')
    env.fail = False

    check(env.step('a') == (2.0, False), 'flaky step result')
    check(env.state == ('state', 2, ('state', 1), 'a'), 'flaky next state')
    check(env.observation_calls == 1, 'lazy after step')
    check(env.observation[1] is env.state, 'observation of current state')
    check(env.observation_calls == 2, 'computed once per state')
    env.step('b')
    env.step('c')
    check(env.observation_calls == 2, 'never computed when never read')
    check(env.observation[1] is env.state, 'fresh after unread steps')
    check(env.observation_calls == 3, 'computed once (3)')
    env.reset()
    check(env.observation[1] is env.state, 'fresh after reset')
    check(env.observation[1] == ('state', 5), 'reset state')


# ---------------------------------------------------------------------------
# several environments in one process, interleaved
# ---------------------------------------------------------------------------


def scenario_interleaved():
    names = ['dynamic-obstacles-stochastic-6x8', 'teleport-7x7', 'keydoor-7x7']
    envs = [CONFIGS[name]() for name in names for _ in range(2)]
    refs = [Reference(CONFIGS[name]()) for name in names for _ in range(2)]
    for i, (env, ref) in enumerate(zip(envs, refs)):
        env.set_seed(100 + i // 2)  # pairs share a seed
        ref.set_seed(100 + i // 2)
        env.reset()
        ref.reset()

    script_rng = np.random.default_rng(99)
    for _ in range(120):
        i = script_rng.integers(len(envs))
        env, ref = envs[i], refs[i]
        what = script_rng.integers(4)
        if what == 0:
            check(same(env.observation, ref.observation), 'interleaved obs')
        elif what == 1:
            check(same(env.state, ref.state), 'interleaved state')
        elif what == 2 and script_rng.random() < 0.2:
            env.reset()
            ref.reset()
        else:
            actions = env.action_space.actions
            action = actions[script_rng.integers(len(actions))]
            check(env.step(action) == ref.step(action), 'interleaved step')

    for env, ref in zip(envs, refs):
        check(same(env.state, ref.state), 'interleaved final state')
        check(same(env.observation, ref.observation), 'interleaved final obs')


# ---------------------------------------------------------------------------
# outer environment: exactly the representations of the inner state/observation
# ---------------------------------------------------------------------------


def same_arrays(a, b):
    return (
        list(a.keys()) == list(b.keys())
        and all(a[k].dtype == b[k].dtype for k in a)
        and all(a[k].shape == b[k].shape for k in a)
        and all(np.array_equal(a[k], b[k]) for k in a)
    )


def scenario_outer():
    for name, make in CONFIGS.items():
        for representation_name in ('default', 'no-overlap', 'compact'):
            inner = make()
            twin = make()
            state_representation = make_state_representation(
                representation_name, inner.state_space
            )
            observation_representation = make_observation_representation(
                representation_name, inner.observation_space
            )
            outer = OuterEnv(
                inner,
                state_representation=state_representation,
                observation_representation=observation_representation,
            )
            bare = OuterEnv(make())
            inner.set_seed(3)
            twin.set_seed(3)
            bare.inner_env.set_seed(3)

            raises(RuntimeError, lambda: outer.state, f'{name} outer state')
            raises(
                RuntimeError,
                lambda: outer.observation,
                f'{name} outer observation',
            )

            outer.reset()
            twin.reset()
            bare.reset()
            label = f'{name}/{representation_name}'
            for t, action in enumerate(inner.action_space.actions * 2):
                if t % 3 != 1:  # sometimes nothing is read at all
                    check(
                        same_arrays(
                            outer.observation,
                            observation_representation.convert(
                                twin.observation
                            ),
                        ),
                        f'{label} outer observation',
                    )
                    check(
                        same_arrays(
                            outer.state,
                            state_representation.convert(twin.state),
                        ),
                        f'{label} outer state',
                    )
                    check(
                        same_arrays(outer.observation, outer.observation),
                        f'{label} outer observation repeated',
                    )
                # an outer env without representations refuses to answer, and
                # does not compute (nor consume randomness for) an observation
                raises(RuntimeError, lambda: bare.state, f'{label} bare state')
                raises(
                    RuntimeError,
                    lambda: bare.observation,
                    f'{label} bare observation',
                )
                check(
                    bare.inner_env._observation is None,
                    f'{label} bare computed an observation',
                )

                check(
                    outer.step(action) == twin.step(action),
                    f'{label} outer step',
                )
                bare.step(action)
                if t == 7:
                    outer.reset()
                    twin.reset()
                    bare.reset()
            check(same(inner.state, twin.state), f'{label} outer final state')
            check(
                inner._rng.bit_generator.state
                == twin._rng.bit_generator.state,
                f'{label} outer randomness',
            )



# ---------------------------------------------------------------------------
# outer environment driven numerically (action indices)
# ---------------------------------------------------------------------------


def outer_accepts_indices():
    """Feature detection: pristine OuterEnv.step only takes Action objects."""
    outer = OuterEnv(CONFIGS['empty-fixed-4x4']())
    outer.inner_env.set_seed(0)
    outer.reset()
    try:
        outer.step(4)  # TURN_LEFT
    except ValueError:
        return False
    return True


ACCEPTS_INDICES = outer_accepts_indices()


def outer_step_index(outer, index):
    if ACCEPTS_INDICES:
        return outer.step(index)
    # pristine spelling of the same thing (what GymEnvironment.step does)
    return outer.step(outer.action_space.int_to_action(index))


INDEX_KINDS = [
    int,
    np.int64,
    np.int32,
    np.int8,
    np.uint8,
    np.intp,
    lambda i: np.array(i),  # 0-d integer array, as produced by some agents
    lambda i: np.array([i])[0],
]


def scenario_outer_indices():
    for name, make in CONFIGS.items():
        inner = make()
        ref = Reference(make())
        state_representation = make_state_representation(
            'default', inner.state_space
        )
        observation_representation = make_observation_representation(
            'default', inner.observation_space
        )
        outer = OuterEnv(
            inner,
            state_representation=state_representation,
            observation_representation=observation_representation,
        )
        inner.set_seed(11)
        ref.set_seed(11)
        outer.reset()
        ref.reset()

        actions = inner.action_space.actions
        num_actions = len(actions)
        script_rng = np.random.default_rng(len(name))
        for t in range(40):
            index = int(script_rng.integers(num_actions))
            kind = INDEX_KINDS[t % len(INDEX_KINDS)]
            how = t % 4
            if how == 0:
                # the old way: an Action object
                result = outer.step(actions[index])
            elif how == 1 and t % 8 == 1:
                # negative indices count from the end, as for any sequence
                result = outer_step_index(outer, kind(index - num_actions))
            else:
                result = outer_step_index(outer, kind(index))
            expected = ref.step(actions[index])
            check(result == expected, f'{name} indexed step result at t={t}')
            check(
                type(result[0]) is type(expected[0]),
                f'{name} indexed step reward type',
            )

            if t % 3 == 0:
                check(
                    same_arrays(
                        outer.observation,
                        observation_representation.convert(ref.observation),
                    ),
                    f'{name} indexed outer observation',
                )
                check(
                    inner.observation is inner.observation,
                    f'{name} indexed memoized',
                )
            if t % 5 == 0:
                check(
                    same_arrays(
                        outer.state, state_representation.convert(ref.state)
                    ),
                    f'{name} indexed outer state',
                )
            if result[1] or t == 21:
                outer.reset()
                ref.reset()

        check(same(inner.state, ref.state), f'{name} indexed final state')
        check(
            same(inner.observation, ref.observation),
            f'{name} indexed final observation',
        )
        check(
            inner._rng.bit_generator.state
            == ref.env._rng.bit_generator.state,
            f'{name} indexed randomness',
        )

        # every index names the action the action space says it names
        for index in range(-num_actions, num_actions):
            check(
                inner.action_space.int_to_action(index) is actions[index],
                f'{name} int_to_action',
            )
            check(
                inner.action_space.int_to_action(np.int64(index))
                is actions[index],
                f'{name} int_to_action numpy',
            )
        check(
            [inner.action_space.action_to_int(a) for a in actions]
            == list(range(num_actions)),
            f'{name} action_to_int',
        )

        # out-of-range indices are refused before anything happens
        for index in (num_actions, -num_actions - 1, np.int64(99)):
            state_before = inner.state
            observation_before = inner.observation
            rng_before = inner._rng.bit_generator.state
            raises(
                IndexError,
                lambda: outer_step_index(
                    outer, index  # pylint: disable=cell-var-from-loop
                ),
                f'{name} out-of-range index {index}',
            )
            check(inner.state is state_before, f'{name} state kept')
            check(
                inner.observation is observation_before,
                f'{name} observation kept',
            )
            check(
                inner._rng.bit_generator.state == rng_before,
                f'{name} randomness kept',
            )

        # actions outside of a restricted action space stay illegal
        for action in Action:
            if action not in actions:
                raises(
                    ValueError,
                    lambda: outer.step(
                        action  # pylint: disable=cell-var-from-loop
                    ),
                    f'{name} action outside the space',
                )

    # before the first reset: an index is refused like an action is
    outer = OuterEnv(CONFIGS['keydoor-7x7']())
    outer.inner_env.set_seed(0)
    raises(
        RuntimeError,
        lambda: outer.step(Action.MOVE_FORWARD),
        'outer step before reset',
    )
    raises(
        RuntimeError,
        lambda: outer_step_index(outer, 0),
        'outer indexed step before reset',
    )
    raises(
        IndexError,
        lambda: outer_step_index(outer, 100),
        'outer out-of-range step before reset',
    )
    check(outer.inner_env._state is None, 'still not reset')


def scenario_gym():
    """GymEnvironment.step(int) is the historical numeric entry point."""
    try:
        from gym_gridverse.gym import GymEnvironment
    except Exception as error:  # pylint: disable=broad-except
        print(f'(gym layer not importable, skipped: {type(error).__name__})')
        return

    for name, make in CONFIGS.items():
        inner = make()
        ref = Reference(make())
        observation_representation = make_observation_representation(
            'default', inner.observation_space
        )
        gym_env = GymEnvironment(
            OuterEnv(
                inner, observation_representation=observation_representation
            )
        )
        check(gym_env.state_space is None, f'{name} gym: no state space')
        check(
            gym_env.action_space.n == len(inner.action_space.actions),
            f'{name} gym action space',
        )
        inner.set_seed(23)
        ref.set_seed(23)

        raises(
            RuntimeError, lambda: gym_env.step(0), f'{name} gym step before reset'
        )

        observation = gym_env.reset()
        ref.reset()
        check(
            same_arrays(
                observation, observation_representation.convert(ref.observation)
            ),
            f'{name} gym reset observation',
        )

        actions = inner.action_space.actions
        script_rng = np.random.default_rng(5)
        for t in range(30):
            index = int(script_rng.integers(len(actions)))
            kind = INDEX_KINDS[t % len(INDEX_KINDS)]
            observation, reward, done, info = gym_env.step(kind(index))
            reward_ref, done_ref = ref.step(actions[index])
            check(reward == reward_ref, f'{name} gym reward')
            check(done == done_ref, f'{name} gym done')
            check(info == {}, f'{name} gym info')
            check(
                same_arrays(
                    observation,
                    observation_representation.convert(ref.observation),
                ),
                f'{name} gym observation',
            )
            check(
                same_arrays(observation, gym_env.observation),
                f'{name} gym observation repeated',
            )
            raises(RuntimeError, lambda: gym_env.state, f'{name} gym state')
            if done or t == 13:
                # NOTE: gym's reset returns (hence computes) the observation
                observation = gym_env.reset()
                ref.reset()
                check(
                    same_arrays(
                        observation,
                        observation_representation.convert(ref.observation),
                    ),
                    f'{name} gym observation after reset',
                )

        raises(
            IndexError,
            lambda: gym_env.step(len(actions)),
            f'{name} gym out-of-range',
        )
        check(same(inner.state, ref.state), f'{name} gym final state')
        check(
            inner._rng.bit_generator.state
            == ref.env._rng.bit_generator.state,
            f'{name} gym randomness',
        )


def main():
    print('OuterEnv.step accepts indices:', ACCEPTS_INDICES)
    scenario_hard_coded()
    scenario_failing_dynamics()
    scenario_errors()
    scenario_trajectories()
    scenario_interleaved()
    scenario_outer()
    scenario_outer_indices()
    scenario_gym()
    print(f'OK ({CHECKS} checks)')


if __name__ == '__main__':
    main()
