"""Demo for change A (Grid.subgrid builds rows from slices).

Runs on the pristine tree and on the patched tree; exits 0 on both.

Part 1 compares ``Grid.subgrid`` with a per-cell reference implementation
embedded here (values, identities, freshness of rows and Hidden cells, no
mutation of the source grid) on every area in a window around many grids.

Part 2 checks property C05 end to end (observations are sound) for all the
built-in observation functions, all agent poses and many view areas.
"""
import copy
import itertools as itt
import os
import sys

sys.path.insert(0, os.getcwd())

import numpy.random as rnd  # noqa: E402

from gym_gridverse.agent import Agent  # noqa: E402
from gym_gridverse.envs import observation_functions as ofs  # noqa: E402
from gym_gridverse.geometry import (  # noqa: E402
    Area,
    Orientation,
    Position,
    Shape,
)
from gym_gridverse.grid import Grid  # noqa: E402
from gym_gridverse.grid_object import (  # noqa: E402
    Beacon,
    Box,
    Color,
    Door,
    Exit,
    Floor,
    Hidden,
    Key,
    MovingObstacle,
    NoneGridObject,
    Telepod,
    Wall,
)
from gym_gridverse.state import State  # noqa: E402

CHECKS = 0


def check(condition, message):
    global CHECKS
    CHECKS += 1
    if not condition:
        print('FAIL:', message)
        sys.exit(1)


PALETTE = [
    Floor,
    Floor,
    Floor,
    Wall,
    Wall,
    lambda: Exit(),
    lambda: Exit(Color.GREEN),
    lambda: Door(Door.Status.OPEN, Color.RED),
    lambda: Door(Door.Status.CLOSED, Color.BLUE),
    lambda: Door(Door.Status.LOCKED, Color.NONE),
    lambda: Key(Color.YELLOW),
    lambda: Key(Color.NONE),
    MovingObstacle,
    lambda: Box(Key(Color.RED)),
    lambda: Telepod(Color.GREEN),
    lambda: Beacon(Color.BLUE),
    Hidden,  # a world may legally contain Hidden cells too
]


def random_grid(height, width, rng):
    return Grid(
        [
            [PALETTE[rng.integers(len(PALETTE))]() for _ in range(width)]
            for _ in range(height)
        ]
    )


# ---------------------------------------------------------------------------
# reference implementations (embedded, independent of the library helpers)
# ---------------------------------------------------------------------------


def rotate(orientation, y, x):
    """position (y, x) relative to the agent -> offset in the world frame"""
    if orientation is Orientation.F:
        return y, x
    if orientation is Orientation.B:
        return -y, -x
    if orientation is Orientation.R:
        return x, -y
    if orientation is Orientation.L:
        return -x, y
    raise AssertionError


def reference_subgrid(grid, ys, xs):
    """per-cell denotation of subgrid: None stands for `outside the grid`"""
    height, width = len(grid.objects), len(grid.objects[0])
    return [
        [
            grid.objects[y][x] if 0 <= y < height and 0 <= x < width else None
            for x in range(xs[0], xs[1] + 1)
        ]
        for y in range(ys[0], ys[1] + 1)
    ]


def reference_view(grid, agent_y, agent_x, orientation, ys, xs):
    """world object (or None if outside the grid) for each cell of the view"""
    height, width = len(grid.objects), len(grid.objects[0])
    rows = []
    for vy in range(ys[0], ys[1] + 1):
        row = []
        for vx in range(xs[0], xs[1] + 1):
            dy, dx = rotate(orientation, vy, vx)
            wy, wx = agent_y + dy, agent_x + dx
            inside = 0 <= wy < height and 0 <= wx < width
            row.append(grid.objects[wy][wx] if inside else None)
        rows.append(row)
    return rows


# ---------------------------------------------------------------------------
# part 1: Grid.subgrid against the reference
# ---------------------------------------------------------------------------

SHAPES = [(1, 1), (1, 4), (3, 1), (2, 3), (4, 6), (5, 5)]


def check_subgrid(grid):
    height, width = grid.shape.height, grid.shape.width
    snapshot = [list(row) for row in grid.objects]
    margin = 3
    y_values = range(-margin - 1, height + margin + 1)
    x_values = range(-margin - 1, width + margin + 1)
    y_ranges = [(a, b) for a in y_values for b in y_values if a <= b]
    x_ranges = [(a, b) for a in x_values for b in x_values if a <= b]
    # keep it affordable: all x-ranges with a sample of y-ranges and vice versa
    y_sample = y_ranges[:: max(1, len(y_ranges) // 12)]
    x_sample = x_ranges[:: max(1, len(x_ranges) // 12)]
    pairs = set(itt.product(y_sample, x_ranges)) | set(
        itt.product(y_ranges, x_sample)
    )
    for ys, xs in sorted(pairs):
        area = Area(ys, xs)
        sub = grid.subgrid(area)
        expected = reference_subgrid(grid, ys, xs)

        check(isinstance(sub, Grid), 'subgrid returns a Grid')
        check(
            sub.shape == Shape(area.height, area.width),
            f'subgrid shape {sub.shape} for {area}',
        )
        check(
            sub.area == Area((0, area.height - 1), (0, area.width - 1)),
            f'subgrid area for {area}',
        )
        check(
            len(sub.objects) == area.height
            and all(len(row) == area.width for row in sub.objects),
            f'subgrid rows are rectangular for {area}',
        )
        hidden_ids = set()
        for i, j in itt.product(range(area.height), range(area.width)):
            obj = sub.objects[i][j]
            exp = expected[i][j]
            if exp is None:
                check(
                    type(obj) is Hidden,
                    f'cell {(i, j)} of {area} outside the grid must be Hidden',
                )
                check(
                    id(obj) not in hidden_ids,
                    f'Hidden cells of {area} must be distinct objects',
                )
                hidden_ids.add(id(obj))
            else:
                check(
                    obj is exp,
                    f'cell {(i, j)} of {area} must be the world object',
                )
                check(sub[Position(i, j)] is exp, 'getitem agrees')

        # the rows are new lists: writing to the subgrid leaves the source alone
        check(
            all(
                row is not source_row
                for row in sub.objects
                for source_row in grid.objects
            ),
            f'subgrid rows of {area} must not alias rows of the source grid',
        )
        check(
            len({id(row) for row in sub.objects}) == area.height,
            f'subgrid rows of {area} must be distinct lists',
        )
        sub[Position(0, 0)] = Wall()
        sub[Position(area.height - 1, area.width - 1)] = Wall()
        check(
            all(
                a is b
                for row, snap in zip(grid.objects, snapshot)
                for a, b in zip(row, snap)
            )
            and [len(row) for row in grid.objects]
            == [len(row) for row in snapshot],
            f'source grid modified by subgrid({area}) or writes to its result',
        )

        # repeated calls give equal results
        again = grid.subgrid(area)
        check(
            all(
                (type(a) is Hidden) if e is None else (a is e)
                for row_a, row_e in zip(again.objects, expected)
                for a, e in zip(row_a, row_e)
            ),
            f'repeated subgrid({area})',
        )


def part1():
    rng = rnd.default_rng(11)
    for height, width in SHAPES:
        check_subgrid(random_grid(height, width, rng))

    # a few hard-coded expectations
    grid = Grid(
        [
            [Wall(), Floor(), Key(Color.RED)],
            [Exit(), Door(Door.Status.OPEN, Color.BLUE), Floor()],
        ]
    )
    expected = Grid(
        [
            [Hidden(), Hidden(), Hidden(), Hidden()],
            [Hidden(), Wall(), Floor(), Key(Color.RED)],
        ]
    )
    check(grid.subgrid(Area((-1, 0), (-1, 2))) == expected, 'hard-coded 1')
    expected = Grid(
        [
            [Floor(), Hidden(), Hidden()],
            [Hidden(), Hidden(), Hidden()],
        ]
    )
    check(grid.subgrid(Area((1, 2), (2, 4))) == expected, 'hard-coded 2')
    expected = Grid([[Hidden(), Hidden()]])
    check(grid.subgrid(Area((0, 0), (-5, -4))) == expected, 'hard-coded 3')
    check(grid.subgrid(Area((1, 1), (3, 4))) == expected, 'hard-coded 4')
    check(grid.subgrid(Area((7, 7), (0, 1))) == expected, 'hard-coded 5')
    check(grid.subgrid(Area((0, 1), (0, 2))) == grid, 'hard-coded 6')
    check(
        grid.subgrid(Area((1, 1), (1, 1)))
        == Grid([[Door(Door.Status.OPEN, Color.BLUE)]]),
        'hard-coded 7',
    )


# ---------------------------------------------------------------------------
# part 2: property C05 end to end
# ---------------------------------------------------------------------------

# view areas (ys, xs) relative to the agent: x to the right, y backward
AREAS_ANY = [
    ((0, 0), (0, 0)),
    ((-6, 0), (-3, 3)),  # the usual minigrid view
    ((-2, 0), (-1, 3)),  # asymmetric
    ((-1, 0), (0, 0)),
    ((0, 0), (-2, 1)),
    ((-9, 0), (-8, 9)),  # much larger than the grids
    ((-3, 0), (0, 4)),
]
AREAS_WITH_BACK = [
    ((-2, 2), (-2, 2)),
    ((-1, 3), (-4, 1)),  # asymmetric, sees behind
    ((0, 2), (0, 0)),
]
AREAS_WITHOUT_AGENT = [
    ((-4, -2), (1, 3)),  # does not contain the agent
    ((2, 3), (-5, -4)),
    ((-8, -8), (-8, -8)),
]


def functions_for(ys, xs):
    """built-in observation functions that are defined on the area"""
    names = ['fully_transparent']
    contains_agent = ys[0] <= 0 <= ys[1] and xs[0] <= 0 <= xs[1]
    if ys[1] == 0:
        names.append('partially_occluded')
    if contains_agent:
        names.append('raytracing')
        names.append('stochastic_raytracing')
    return names


def check_observation(state, ys, xs, name, rng, snapshot):
    area = Area(ys, xs)
    function = ofs.observation_function_registry[name]
    observation = function(state, area=area, rng=rng)

    agent = state.agent
    where = (
        f'{name} grid={state.grid.shape.as_tuple} '
        f'agent={agent.position.yx} {agent.orientation.name} area={area}'
    )

    height, width = ys[1] - ys[0] + 1, xs[1] - xs[0] + 1
    check(
        observation.grid.shape == Shape(height, width), f'shape wrong: {where}'
    )
    check(
        len(observation.grid.objects) == height
        and all(len(row) == width for row in observation.grid.objects),
        f'rows wrong: {where}',
    )
    check(
        observation.agent.position == Position(-ys[0], -xs[0]),
        f'anchor wrong: {where}',
    )
    check(
        observation.agent.orientation is Orientation.F,
        f'heading wrong: {where}',
    )
    check(
        observation.agent.grid_object is agent.grid_object,
        f'held item wrong: {where}',
    )

    expected = reference_view(
        state.grid,
        agent.position.y,
        agent.position.x,
        agent.orientation,
        ys,
        xs,
    )
    for i, j in itt.product(range(height), range(width)):
        obj = observation.grid.objects[i][j]
        exp = expected[i][j]
        if exp is None:
            check(type(obj) is Hidden, f'outside cell {(i, j)} shown: {where}')
        elif name == 'fully_transparent':
            check(obj is exp, f'cell {(i, j)} not the world object: {where}')
        else:
            check(
                type(obj) is Hidden or obj is exp,
                f'cell {(i, j)} shows something that is not there: {where}',
            )
            check(
                type(obj) is Hidden or obj == exp,
                f'cell {(i, j)} differs from the world: {where}',
            )

    # the state is left alone
    check(
        all(
            a is b
            for row, snap in zip(state.grid.objects, snapshot)
            for a, b in zip(row, snap)
        ),
        f'state grid modified: {where}',
    )
    return observation


def part2():
    rng = rnd.default_rng(5)
    held_items = [None, Key(Color.BLUE), Box(Floor())]
    for n, (height, width) in enumerate(SHAPES):
        grid = random_grid(height, width, rng)
        snapshot = [list(row) for row in grid.objects]
        frozen = copy.deepcopy(grid)
        for y, x, orientation in itt.product(
            range(height), range(width), Orientation
        ):
            held = held_items[(y + x + n) % len(held_items)]
            agent = Agent(Position(y, x), orientation, held)
            if held is None:
                check(
                    isinstance(agent.grid_object, NoneGridObject), 'no item'
                )
            state = State(grid, agent)
            for ys, xs in AREAS_ANY + AREAS_WITH_BACK + AREAS_WITHOUT_AGENT:
                for name in functions_for(ys, xs):
                    seeds = [0, 1] if name == 'stochastic_raytracing' else [0]
                    for seed in seeds:
                        first = check_observation(
                            state, ys, xs, name, rnd.default_rng(seed), snapshot
                        )
                        # re-seeding reproduces the observation
                        second = check_observation(
                            state, ys, xs, name, rnd.default_rng(seed), snapshot
                        )
                        check(
                            first.grid == second.grid
                            and first.agent == second.agent,
                            f're-seeded call differs: {name} {ys} {xs}',
                        )
            check(
                agent.position == Position(y, x)
                and agent.orientation is orientation,
                'agent modified',
            )
        check(grid == frozen, 'grid modified')

    # hard-coded expectation:  agent in the corner of a 2x3 grid, facing right
    grid = Grid(
        [
            [Wall(), Floor(), Key(Color.RED)],
            [Exit(), Door(Door.Status.OPEN, Color.BLUE), Floor()],
        ]
    )
    state = State(grid, Agent(Position(1, 2), Orientation.R, Key(Color.GREEN)))
    observation = ofs.fully_transparent(state, area=Area((-1, 0), (-1, 2)))
    expected = Grid(
        [
            [Hidden(), Hidden(), Hidden(), Hidden()],
            [Key(Color.RED), Floor(), Hidden(), Hidden()],
        ]
    )
    check(observation.grid == expected, 'hard-coded observation (R)')
    check(observation.agent.position == Position(1, 1), 'hard-coded anchor')
    check(observation.agent.grid_object == Key(Color.GREEN), 'hard-coded item')

    state = State(grid, Agent(Position(0, 0), Orientation.B))
    observation = ofs.fully_transparent(state, area=Area((-1, 1), (-1, 1)))
    expected = Grid(
        [
            [Door(Door.Status.OPEN, Color.BLUE), Exit(), Hidden()],
            [Floor(), Wall(), Hidden()],
            [Hidden(), Hidden(), Hidden()],
        ]
    )
    check(observation.grid == expected, 'hard-coded observation (B)')


if __name__ == '__main__':
    part1()
    part2()
    print(f'OK ({CHECKS} checks)')
