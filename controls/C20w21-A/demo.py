# ---------------------------------------------------------------------------
# shared harness: the gym adapter is a faithful view of the wrapped environment
# ---------------------------------------------------------------------------
import glob
import os
import warnings

warnings.filterwarnings('ignore')

import numpy as np  # noqa: E402

REPRESENTATION_NAMES = ['default', 'no-overlap', 'compact']
REPRESENTATION_PAIRS = [
    ('default', 'default'),
    ('no-overlap', 'compact'),
    ('compact', 'no-overlap'),
]


def fail(msg):
    raise SystemExit(f'FAIL: {msg}')


def check(cond, msg):
    if not cond:
        fail(msg)


def dict_equal(a, b):
    return (
        isinstance(a, dict)
        and isinstance(b, dict)
        and a.keys() == b.keys()
        and all(
            a[k].shape == b[k].shape
            and a[k].dtype == b[k].dtype
            and np.array_equal(a[k], b[k])
            for k in a
        )
    )


def in_outer_space(space, x):
    return space.keys() == x.keys() and all(
        space[k].contains(x[k]) for k in space
    )


def gym_spaces_equal(a, b):
    return a.spaces.keys() == b.spaces.keys() and all(
        np.array_equal(a[k].low, b[k].low)
        and np.array_equal(a[k].high, b[k].high)
        and a[k].dtype == b[k].dtype
        and a[k].shape == b[k].shape
        for k in a.spaces
    )


# --- minimal YAML reader (the shipped configurations use a small subset) ----
# PyYAML may be missing; in that case a shim `yaml.safe_load` is installed so
# that the *real* code path (outer_env_factory / registered ids) is exercised.


def _yaml_scalar(tok):
    tok = tok.strip()
    if tok in ('true', 'True'):
        return True
    if tok in ('false', 'False'):
        return False
    if tok in ('null', '~', ''):
        return None
    for cast in (int, float):
        try:
            return cast(tok)
        except ValueError:
            pass
    if tok[0] in '"\'' and tok[-1] == tok[0]:
        return tok[1:-1]
    return tok


def _yaml_flow(text):
    pos = 0

    def parse():
        nonlocal pos
        while text[pos] == ' ':
            pos += 1
        if text[pos] == '[':
            pos += 1
            items = []
            while True:
                while text[pos] == ' ':
                    pos += 1
                if text[pos] == ']':
                    pos += 1
                    return items
                items.append(parse())
                while text[pos] == ' ':
                    pos += 1
                if text[pos] == ',':
                    pos += 1
        start = pos
        while text[pos] not in ',]':
            pos += 1
        return _yaml_scalar(text[start:pos])

    value = parse()
    assert text[pos:].strip() == '', text
    return value


def _yaml_value(text):
    text = text.strip()
    return _yaml_flow(text) if text.startswith('[') else _yaml_scalar(text)


def _yaml_block(lines, i, indent):
    if lines[i][1].startswith('- '):
        items = []
        while i < len(lines) and lines[i][0] == indent:
            assert lines[i][1].startswith('- '), lines[i]
            rest = lines[i][1][2:].strip()
            if ':' in rest and not rest.startswith('['):
                lines[i] = (indent + 2, rest)
                value, i = _yaml_block(lines, i, indent + 2)
                items.append(value)
            else:
                items.append(_yaml_value(rest))
                i += 1
        return items, i

    mapping = {}
    while i < len(lines) and lines[i][0] == indent:
        key, sep, rest = lines[i][1].partition(':')
        assert sep == ':', lines[i]
        if rest.strip():
            mapping[key.strip()] = _yaml_value(rest)
            i += 1
        else:
            i += 1
            assert lines[i][0] >= indent, lines[i]
            mapping[key.strip()], i = _yaml_block(lines, i, lines[i][0])
    assert i == len(lines) or lines[i][0] < indent, lines[i]
    return mapping, i


def mini_yaml_load(stream):
    text = stream if isinstance(stream, str) else stream.read()
    lines = []
    for raw in text.splitlines():
        raw = raw.split(' #')[0].rstrip()
        if not raw.strip() or raw.lstrip().startswith('#'):
            continue
        lines.append((len(raw) - len(raw.lstrip()), raw.strip()))
    value, i = _yaml_block(lines, 0, lines[0][0])
    assert i == len(lines)
    return value


def ensure_yaml():
    import sys
    import types

    try:
        import yaml

        if not hasattr(yaml, 'safe_load'):
            # e.g. the repository's `yaml/` directory seen as a namespace package
            yaml.safe_load = mini_yaml_load
        return
    except ImportError:
        pass
    shim = types.ModuleType('yaml')
    shim.safe_load = mini_yaml_load
    sys.modules['yaml'] = shim


def yaml_paths():
    import gym_gridverse

    root = os.path.dirname(gym_gridverse.__file__)
    return sorted(glob.glob(os.path.join(root, 'registered_envs', '*.yaml')))


def check_gym_layer(num_seeds=2, num_steps=20):
    """C20 over all shipped configurations x seeds x action sequences x names"""
    ensure_yaml()
    try:
        import gym

        import gym_gridverse.gym as gv_gym
        from gym_gridverse.envs.yaml.factory import factory_env_from_yaml
    except ImportError as e:  # optional dependencies missing
        print(f'gym layer skipped ({e!r})')
        return 0

    from gym_gridverse.representations.observation_representations import (
        make_observation_representation,
    )
    from gym_gridverse.representations.state_representations import (
        make_state_representation,
    )

    paths = yaml_paths()
    check(len(paths) == len(gv_gym.STRING_TO_YAML_FILE), 'yaml files')
    file_to_id = {v: k for k, v in gv_gym.STRING_TO_YAML_FILE.items()}

    count = 0
    for path in paths:
        env_id = file_to_id[os.path.basename(path)]
        envs = [gv_gym.GymEnvironment(gv_gym.outer_env_factory(path))]
        try:
            made = gym.make(env_id, disable_env_checker=True)
            envs.append(made.unwrapped)
        except Exception:
            envs.append(gv_gym.from_factory(gym.envs.registry[env_id].kwargs['factory']))

        for env in envs:
            inner = env.outer_env.inner_env
            actions = inner.action_space.actions
            check(env.action_space.n == len(actions), 'action space size')
            check(env.state_space is None, 'registered env has no state repr')

            for obs_name, state_name in REPRESENTATION_PAIRS:
                if True:
                    env.set_observation_representation(obs_name)
                    env.set_state_representation(state_name)
                    obs_rep = make_observation_representation(
                        obs_name, inner.observation_space
                    )
                    state_rep = make_state_representation(
                        state_name, inner.state_space
                    )
                    check(
                        gym_spaces_equal(
                            env.observation_space,
                            gv_gym.outer_space_to_gym_space(obs_rep.space),
                        ),
                        f'{env_id} observation space {obs_name}',
                    )
                    check(
                        gym_spaces_equal(
                            env.state_space,
                            gv_gym.outer_space_to_gym_space(state_rep.space),
                        ),
                        f'{env_id} state space {state_name}',
                    )
                    wrapped = gv_gym.GymStateWrapper(env)
                    check(
                        wrapped.observation_space is env.state_space,
                        'wrapper space',
                    )

                    for seed in range(num_seeds):
                        # twin inner environment, driven through the inner API
                        twin = factory_env_from_yaml(path)
                        twin.set_seed(seed)
                        twin.reset()

                        try:
                            check(env.seed(seed) == [seed], 'seed')
                        except AttributeError:
                            # installed gym lacks seeding.create_seed
                            inner.set_seed(seed)
                        use_wrapper = seed % 2 == 1
                        front = wrapped if use_wrapper else env
                        first = front.reset()

                        action_rng = np.random.default_rng(1000 + seed)

                        def check_now(out, info, where):
                            check(
                                inner.state == twin.state,
                                f'{env_id} {where}: state differs from twin',
                            )
                            o = obs_rep.convert(twin.observation)
                            s = state_rep.convert(twin.state)
                            check(
                                in_outer_space(obs_rep.space, o)
                                and env.observation_space.contains(o),
                                f'{env_id} {where}: observation not in space',
                            )
                            check(
                                in_outer_space(state_rep.space, s)
                                and env.state_space.contains(s),
                                f'{env_id} {where}: state not in space',
                            )
                            check(dict_equal(env.observation, o), 'obs prop')
                            check(dict_equal(env.state, s), 'state prop')
                            if use_wrapper:
                                check(dict_equal(out, s), f'{where}: wrapper')
                                if info is not None:
                                    check(
                                        info.keys() == {'observation'}
                                        and dict_equal(info['observation'], o),
                                        f'{where}: info observation',
                                    )
                            else:
                                check(dict_equal(out, o), f'{where}: obs')
                                if info is not None:
                                    check(info == {}, 'info')

                        check_now(first, None, 'reset')
                        for t in range(num_steps):
                            i = int(action_rng.integers(len(actions)))
                            out, reward, done, info = front.step(i)
                            r, d = twin.step(actions[i])
                            check(
                                reward == r and done == d,
                                f'{env_id} step {t}: reward/done',
                            )
                            check_now(out, info, f'step {t}')
                            count += 1
                            if done:
                                twin.reset()
                                check_now(front.reset(), None, 're-reset')
    return count


# ---------------------------------------------------------------------------
# change-specific: grid-object channel bounds / offsets against a reference
# ---------------------------------------------------------------------------


def all_objects():
    from gym_gridverse.grid_object import (
        Beacon,
        Box,
        Color,
        Door,
        Exit,
        Floor,
        Hidden,
        Key,
        MovingObstacle,
        NoneGridObject,
        Telepod,
        Wall,
    )

    objs = [NoneGridObject(), Hidden(), Floor(), Wall(), MovingObstacle()]
    for color in Color:
        objs += [Exit(color), Key(color), Telepod(color), Beacon(color)]
        objs += [Door(status, color) for status in Door.Status]
    objs += [Box(Floor()), Box(Key(Color.RED))]
    return objs


def ref_maxes(types, colors=None):
    max_type = max(t.type_index() for t in types)
    max_state = max(t.num_states() for t in types)
    if colors is None:
        return max_type, max_state
    return max_type, max_state, max(c.value for c in colors)


def ref_default_bounds(types, colors):
    return np.array(list(ref_maxes(types, colors)))


def ref_no_overlap_bounds(types, colors):
    t, s, c = ref_maxes(types, colors)
    return np.array([t, t + s + 1, t + s + c + 2])


def ref_default_convert(obj):
    return np.array([obj.type_index(), obj.state_index, obj.color.value])


def ref_no_overlap_convert(types, colors, obj):
    t, s = ref_maxes(types)
    return np.array(
        [
            obj.type_index(),
            t + obj.state_index + 1,
            t + s + obj.color.value + 2,
        ]
    )


def raises_value_error(f, *args):
    try:
        f(*args)
    except ValueError:
        return True
    return False


def same_array(a, b):
    return a.shape == b.shape and a.dtype == b.dtype and np.array_equal(a, b)


def check_grid_object_representations():
    import itertools as itt

    import gym_gridverse.representations.representation as R
    from gym_gridverse.grid_object import Color, grid_object_registry
    from gym_gridverse.representations.spaces import SpaceType

    objects = all_objects()
    all_types = list(grid_object_registry)
    check({type(o) for o in objects} == set(all_types), 'every object type')
    all_colors = list(Color)

    rng = np.random.default_rng(0)
    type_sets = [{t} for t in all_types]
    type_sets += [set(p) for p in itt.combinations(all_types, 2)]
    type_sets += [set(all_types)]
    for _ in range(40):
        k = int(rng.integers(1, len(all_types) + 1))
        idx = rng.choice(len(all_types), size=k, replace=False)
        type_sets.append({all_types[i] for i in idx})
    color_sets = [{c} for c in all_colors] + [set(all_colors)]
    color_sets += [{Color.NONE, Color.YELLOW}, {Color.RED, Color.BLUE}]

    count = 0
    for types in type_sets:
        for colors in color_sets:
            for space, ref in [
                (R.default_grid_object_representation_space, ref_default_bounds),
                (
                    R.no_overlap_grid_object_representation_space,
                    ref_no_overlap_bounds,
                ),
            ]:
                sp = space(types, colors)
                upper = ref(types, colors)
                check(sp.space_type is SpaceType.CATEGORICAL, 'space type')
                check(same_array(sp.upper_bound, upper), f'upper {types}')
                check(
                    same_array(sp.lower_bound, np.zeros_like(upper)),
                    f'lower {types}',
                )
                # repeated calls give equal, independent arrays
                sp2 = space(types, colors)
                check(sp == sp2 and sp.upper_bound is not sp2.upper_bound, 'x2')

            no_overlap_space = R.no_overlap_grid_object_representation_space(
                types, colors
            )
            default_space = R.default_grid_object_representation_space(
                types, colors
            )
            for obj in objects:
                d = R.default_grid_object_representation_convert(obj)
                check(same_array(d, ref_default_convert(obj)), f'default {obj}')
                n = R.no_overlap_grid_object_representation_convert(
                    types, colors, obj
                )
                check(
                    same_array(n, ref_no_overlap_convert(types, colors, obj)),
                    f'no-overlap {obj} {types}',
                )
                if type(obj) in types and obj.color in colors:
                    check(default_space.contains(d), f'{obj} in default space')
                    check(no_overlap_space.contains(n), f'{obj} in no-overlap')
                    # channels use disjoint index ranges
                    t, s = ref_maxes(types)
                    check(n[0] <= t < n[1] <= t + s + 1 < n[2], 'disjoint')
                count += 1

            # the conversion never looks at the colors: an empty set is fine
            n = R.no_overlap_grid_object_representation_convert(
                types, set(), objects[0]
            )
            check(
                same_array(n, ref_no_overlap_convert(types, set(), objects[0])),
                'empty colors in convert',
            )

        helper = getattr(R, 'no_overlap_offsets', None)
        if helper is not None:
            t, s = ref_maxes(types)
            check(helper(types) == (t + 1, t + s + 2), 'offsets helper')

    # empty inputs: same exception as max() over an empty sequence
    some_types, some_colors = {all_types[2]}, {Color.NONE}
    for space in [
        R.default_grid_object_representation_space,
        R.no_overlap_grid_object_representation_space,
    ]:
        check(raises_value_error(space, set(), some_colors), 'empty types')
        check(raises_value_error(space, some_types, set()), 'empty colors')
        check(raises_value_error(space, set(), set()), 'empty both')
    check(
        raises_value_error(
            R.no_overlap_grid_object_representation_convert,
            set(),
            some_colors,
            objects[0],
        ),
        'convert with empty types',
    )
    return count


def main():
    import os
    import sys

    sys.path.insert(0, os.getcwd())
    ensure_yaml()
    n = check_grid_object_representations()
    print(f'grid-object representations: {n} conversions match the reference')
    m = check_gym_layer()
    print(f'gym layer: {m} steps checked')
    print('OK')


if __name__ == '__main__':
    main()
