"""demo for change B (Area.positions built from one row-major product helper)

Run from the worktree root:  /venv/bin/python _seed/B/demo.py
Exits 0 on the pristine tree and with the patch applied.
"""
import os
import sys
import warnings

warnings.filterwarnings('ignore')
sys.path.insert(0, os.getcwd())

# ---------------------------------------------------------------------------
# property C13 checker
# ---------------------------------------------------------------------------

import hashlib
import itertools as itt

from gym_gridverse.envs import reset_functions as rf
from gym_gridverse.geometry import Orientation, Position, Shape
from gym_gridverse.grid_object import (
    Beacon,
    Color,
    Door,
    Exit,
    Floor,
    Key,
    MovingObstacle,
    NoneGridObject,
    Telepod,
    Wall,
)
from gym_gridverse.rng import make_rng, reset_gv_rng


def cells(state):
    h, w = state.grid.shape.height, state.grid.shape.width
    return [((y, x), state.grid[y, x]) for y in range(h) for x in range(w)]


def of_type(state, cls):
    return [(yx, obj) for yx, obj in cells(state) if type(obj) is cls]


def render(state):
    """canonical text of a state (types, states, colors, agent)"""
    rows = []
    for y in range(state.grid.shape.height):
        rows.append(
            ' '.join(
                f'{type(state.grid[y, x]).__name__}'
                f':{state.grid[y, x].state_index}'
                f':{state.grid[y, x].color.name}'
                for x in range(state.grid.shape.width)
            )
        )
    agent = state.agent
    rows.append(
        f'agent {agent.position.y} {agent.position.x} '
        f'{agent.orientation.name} {type(agent.grid_object).__name__}'
    )
    return '\n'.join(rows)


def check_common(state, shape, *, num_exits=1):
    grid, agent = state.grid, state.agent
    h, w = shape.height, shape.width
    # requested shape, rectangular storage
    assert grid.shape == Shape(h, w), (grid.shape, shape)
    assert len(grid.objects) == h and all(len(r) == w for r in grid.objects)
    # unbroken wall boundary
    for y in range(h):
        for x in range(w):
            if y in (0, h - 1) or x in (0, w - 1):
                assert type(grid[y, x]) is Wall, (y, x, grid[y, x])
    # agent inside, empty-handed, on a free cell
    y, x = agent.position.yx
    assert 0 <= y < h and 0 <= x < w, agent.position
    assert isinstance(agent.orientation, Orientation)
    assert type(agent.grid_object) is NoneGridObject
    under = grid[y, x]
    assert not under.blocks_movement, under
    assert not isinstance(under, (Exit, MovingObstacle, Telepod)), under
    # one object per cell (no aliasing)
    ids = [id(obj) for _, obj in cells(state)]
    assert len(ids) == len(set(ids))
    # exits
    assert len(of_type(state, Exit)) == num_exits, of_type(state, Exit)


def only_types(state, *allowed):
    for yx, obj in cells(state):
        assert type(obj) in allowed, (yx, obj)


def check_empty(state, shape, random_agent, random_exit):
    check_common(state, shape)
    only_types(state, Floor, Wall, Exit)
    h, w = shape.height, shape.width
    walls = len(of_type(state, Wall))
    assert walls == 2 * h + 2 * w - 4
    if not random_exit:
        assert type(state.grid[h - 2, w - 2]) is Exit
    if not random_agent:
        assert state.agent.position == Position(1, 1)
        assert state.agent.orientation is Orientation.R


def check_rooms(state, shape, layout):
    check_common(state, shape)
    only_types(state, Floor, Wall, Exit)


def check_dynamic_obstacles(state, shape, num_obstacles, random_agent):
    check_common(state, shape)
    only_types(state, Floor, Wall, Exit, MovingObstacle)
    assert len(of_type(state, MovingObstacle)) == num_obstacles


def check_keydoor(state, shape):
    check_common(state, shape)
    only_types(state, Floor, Wall, Exit, Door, Key)
    h, w = shape.height, shape.width
    ((door_yx, door),) = of_type(state, Door)
    ((key_yx, key),) = of_type(state, Key)
    assert door.is_locked and door.color is key.color is Color.YELLOW
    x_wall = door_yx[1]
    assert 2 <= x_wall <= w - 3 and 1 <= door_yx[0] <= h - 2
    for y in range(1, h - 1):
        if y != door_yx[0]:
            assert type(state.grid[y, x_wall]) is Wall
    assert key_yx[1] < x_wall
    assert state.agent.position.x < x_wall
    assert type(state.grid[h - 2, w - 2]) is Exit


def check_crossing(state, shape, num_rivers, object_type):
    check_common(state, shape)
    only_types(state, Floor, Wall, Exit, object_type)
    assert state.agent.position == Position(1, 1)
    # exit reachable from agent through non-river cells
    h, w = shape.height, shape.width
    seen, todo = {(1, 1)}, [(1, 1)]
    while todo:
        y, x = todo.pop()
        for dy, dx in ((0, 1), (1, 0), (0, -1), (-1, 0)):
            q = (y + dy, x + dx)
            if q in seen or not (0 <= q[0] < h and 0 <= q[1] < w):
                continue
            if type(state.grid[q]) in (Floor, Exit):
                seen.add(q)
                todo.append(q)
    assert (h - 2, w - 2) in seen


def check_teleport(state, shape):
    check_common(state, shape)
    only_types(state, Floor, Wall, Exit, Telepod)
    pods = of_type(state, Telepod)
    assert len(pods) == 2
    assert pods[0][1].color is pods[1][1].color
    assert state.agent.position == Position(1, 1)


def check_memory(state, shape, colors):
    check_common(state, shape, num_exits=2)
    only_types(state, Floor, Wall, Exit, Beacon)
    exits = of_type(state, Exit)
    beacons = of_type(state, Beacon)
    exit_colors = [obj.color for _, obj in exits]
    assert len(set(exit_colors)) == 2 and set(exit_colors) <= set(colors)
    assert len(beacons) == 2
    beacon_colors = {obj.color for _, obj in beacons}
    assert len(beacon_colors) == 1
    assert exit_colors.count(next(iter(beacon_colors))) == 1


def check_memory_rooms(state, shape, layout, colors, num_beacons, num_exits):
    check_common(state, shape, num_exits=num_exits)
    only_types(state, Floor, Wall, Exit, Beacon)
    exit_colors = [obj.color for _, obj in of_type(state, Exit)]
    assert len(set(exit_colors)) == num_exits
    assert set(exit_colors) <= set(colors)
    beacons = of_type(state, Beacon)
    assert len(beacons) == num_beacons
    beacon_colors = {obj.color for _, obj in beacons}
    assert len(beacon_colors) == 1
    assert exit_colors.count(next(iter(beacon_colors))) == 1


class Outcome:
    """tally of outcomes; anything but a good state or ValueError is fatal"""

    def __init__(self):
        self.ok = 0
        self.rejected = 0
        self.digest = hashlib.sha256()

    def run(self, label, function, checker, args, seed):
        try:
            state = function(*args, rng=make_rng(seed))
        except ValueError:
            self.rejected += 1
            self.digest.update(f'{label} {seed} ValueError\n'.encode())
            return None
        checker(state, *args)
        self.ok += 1
        self.digest.update(f'{label} {seed}\n{render(state)}\n'.encode())
        return state


SHAPES = [
    Shape(h, w) for h, w in itt.product([1, 2, 3, 4, 5, 6, 7, 9, 10, 13], repeat=2)
]
SEEDS = range(6)


def sweep():
    """property C13 over all eight reset functions; returns the tally"""
    C = Color
    out = Outcome()
    layouts = [(1, 1), (1, 2), (2, 1), (2, 2), (3, 2), (2, 3), (3, 3), (1, 4)]
    memory_rooms_params = [
        ({C.RED, C.BLUE}, 1, 2),
        ({C.RED, C.GREEN, C.BLUE}, 2, 3),
        ({C.RED, C.GREEN, C.BLUE}, 1, 2),
        ({C.RED, C.BLUE}, 3, 3),
        ({C.RED}, 1, 2),
        ({C.RED, C.NONE}, 1, 2),
        (set(), 1, 2),
        ({C.RED, C.BLUE}, 0, 2),
        ({C.RED, C.BLUE}, 1, 1),
    ]
    memory_params = [
        {C.RED, C.BLUE},
        {C.RED, C.GREEN, C.BLUE, C.YELLOW},
        {C.RED},
        set(),
        {C.RED, C.NONE},
    ]
    for shape in SHAPES:
        for seed in SEEDS:
            for ra, re_ in itt.product((False, True), repeat=2):
                out.run('empty', rf.empty, check_empty, (shape, ra, re_), seed)
            for layout in layouts:
                out.run('rooms', rf.rooms, check_rooms, (shape, layout), seed)
                for colors, nb, ne in memory_rooms_params:
                    out.run(
                        'memory_rooms',
                        rf.memory_rooms,
                        check_memory_rooms,
                        (shape, layout, colors, nb, ne),
                        seed,
                    )
            for n, ra in itt.product((-1, 0, 1, 2, 5, 30, 200), (False, True)):
                out.run(
                    'dynamic_obstacles',
                    rf.dynamic_obstacles,
                    check_dynamic_obstacles,
                    (shape, n, ra),
                    seed,
                )
            out.run('keydoor', rf.keydoor, check_keydoor, (shape,), seed)
            for n, t in itt.product((-1, 0, 1, 2, 3, 50), (Wall, MovingObstacle)):
                out.run(
                    'crossing', rf.crossing, check_crossing, (shape, n, t), seed
                )
            out.run('teleport', rf.teleport, check_teleport, (shape,), seed)
            for colors in memory_params:
                out.run(
                    'memory', rf.memory, check_memory, (shape, colors), seed
                )
    return out


def check_reseeding():
    """repeated calls, module-level rng, re-seeding, interleaved functions"""
    shape = Shape(7, 9)
    calls = [
        lambda rng: rf.empty(shape, True, True, rng=rng),
        lambda rng: rf.rooms(Shape(10, 13), (2, 3), rng=rng),
        lambda rng: rf.dynamic_obstacles(shape, 4, True, rng=rng),
        lambda rng: rf.keydoor(shape, rng=rng),
        lambda rng: rf.crossing(shape, 3, Wall, rng=rng),
        lambda rng: rf.teleport(shape, rng=rng),
        lambda rng: rf.memory(shape, {Color.RED, Color.BLUE}, rng=rng),
        lambda rng: rf.memory_rooms(
            Shape(10, 13), (2, 2), {Color.RED, Color.BLUE, Color.GREEN}, 2, 3, rng=rng
        ),
    ]
    for seed in (0, 1, 12345):
        # explicit generator, same seed twice -> identical sequences of states
        rng1, rng2 = make_rng(seed), make_rng(seed)
        first = [render(call(rng1)) for call in calls for _ in range(3)]
        second = [render(call(rng2)) for call in calls for _ in range(3)]
        assert first == second
        # module-level generator behaves like an explicit one with same seed
        reset_gv_rng(seed)
        third = [render(call(None)) for call in calls for _ in range(3)]
        assert first == third
        # re-seeding restarts the sequence
        reset_gv_rng(seed)
        assert render(calls[0](None)) == first[0]
    # states returned by different calls do not share cells
    rng = make_rng(3)
    a, b = rf.rooms(Shape(7, 7), (2, 2), rng=rng), rf.rooms(Shape(7, 7), (2, 2), rng=rng)
    ids_a = {id(obj) for _, obj in cells(a)}
    ids_b = {id(obj) for _, obj in cells(b)}
    assert not ids_a & ids_b


# ---------------------------------------------------------------------------
# change-specific part: Area.positions against the original spelling
# ---------------------------------------------------------------------------

import numpy as np

from gym_gridverse import design
from gym_gridverse.agent import Agent
from gym_gridverse.geometry import Area
from gym_gridverse.grid import Grid
from gym_gridverse.rng import choice
from gym_gridverse.state import State


def reference_positions(area, selection='all'):
    """the original implementation (pristine tree), as a list of (y, x)"""
    ymin, ymax = area.ys[0], area.ys[1]
    xmin, xmax = area.xs[0], area.xs[1]
    if selection not in ['all', 'border', 'inside']:
        raise ValueError(f'invalid selection `{selection}`')
    if selection == 'all':
        return [
            (y, x)
            for y in range(ymin, ymax + 1)
            for x in range(xmin, xmax + 1)
        ]
    if selection == 'border':
        return [
            (y, x) for y in [ymin, ymax] for x in range(xmin, xmax + 1)
        ] + [(y, x) for y in range(ymin + 1, ymax) for x in [xmin, xmax]]
    return [
        (y, x) for y in range(ymin + 1, ymax) for x in range(xmin + 1, xmax)
    ]


# hard-coded expectations for the awkward areas (duplicates included: a
# one-row area lists its row twice, a one-column area lists each side twice)
HARDCODED = {
    ((0, 0), (0, 0), 'all'): [(0, 0)],
    ((0, 0), (0, 0), 'border'): [(0, 0), (0, 0)],
    ((0, 0), (0, 0), 'inside'): [],
    ((0, 0), (0, 2), 'border'): [(0, 0), (0, 1), (0, 2)] * 2,
    ((0, 2), (0, 0), 'border'): [(0, 0), (2, 0), (1, 0), (1, 0)],
    ((0, 1), (0, 1), 'border'): [(0, 0), (0, 1), (1, 0), (1, 1)],
    ((0, 1), (0, 1), 'inside'): [],
    ((0, 2), (0, 3), 'all'): [(y, x) for y in range(3) for x in range(4)],
    ((0, 2), (0, 3), 'border'): [
        (0, 0), (0, 1), (0, 2), (0, 3),
        (2, 0), (2, 1), (2, 2), (2, 3),
        (1, 0), (1, 3),
    ],
    ((0, 2), (0, 3), 'inside'): [(1, 1), (1, 2)],
    ((-2, 1), (-1, 1), 'border'): [
        (-2, -1), (-2, 0), (-2, 1),
        (1, -1), (1, 0), (1, 1),
        (-1, -1), (-1, 1), (0, -1), (0, 1),
    ],
    ((-2, 1), (-1, 1), 'inside'): [(-1, 0), (0, 0)],
}  # fmt: skip


def check_area_positions():
    for (ys, xs, selection), expected in HARDCODED.items():
        got = [p.yx for p in Area(ys, xs).positions(selection)]
        assert got == expected, (ys, xs, selection, got)

    bounds = [-3, -1, 0, 1, 2, 5]
    count = 0
    for ymin, ymax, xmin, xmax in itt.product(bounds, repeat=4):
        if ymin > ymax or xmin > xmax:
            continue
        area = Area((ymin, ymax), (xmin, xmax))
        for selection in ('all', 'border', 'inside'):
            positions = area.positions(selection)
            # lazy, single-pass iterator, as before
            assert iter(positions) is positions
            got = list(positions)
            assert list(positions) == []
            assert all(type(p) is Position for p in got)
            assert [p.yx for p in got] == reference_positions(area, selection)
            # a second call starts afresh
            assert list(area.positions(selection)) == got
            count += 1
        # default selection
        assert list(area.positions()) == list(area.positions('all'))
        # border and inside partition the area (as sets)
        border = set(area.positions('border'))
        inside = set(area.positions('inside'))
        assert not border & inside
        assert border | inside == set(area.positions('all'))
        # invalid selections are rejected at call time, not upon iteration
        for selection in ('', 'ALL', 'outside', None, 0, ['all'], ('border',)):
            try:
                area.positions(selection)
            except ValueError:
                pass
            else:
                raise AssertionError(f'selection {selection!r} accepted')

    # numpy integer bounds (as produced by linspace splits)
    area = Area((np.int64(0), np.int64(3)), (np.int64(1), np.int64(4)))
    for selection in ('all', 'border', 'inside'):
        got = [p.yx for p in area.positions(selection)]
        assert got == reference_positions(Area((0, 3), (1, 4)), selection)

    # interleaved iteration of two selections of the same area
    area = Area((0, 3), (0, 4))
    it_border, it_inside = area.positions('border'), area.positions('inside')
    mixed = [p.yx for pair in zip(it_border, it_inside) for p in pair]
    ref_b = reference_positions(area, 'border')
    ref_i = reference_positions(area, 'inside')
    assert mixed == [yx for pair in zip(ref_b, ref_i) for yx in pair]
    return count


def check_users_of_positions():
    """drawing helpers and grid methods which iterate over areas"""
    for h, w in itt.product([1, 2, 3, 4, 7], repeat=2):
        grid = Grid.from_shape((h, w))
        positions = design.draw_wall_boundary(grid)
        assert [p.yx for p in positions] == reference_positions(
            grid.area, 'border'
        )
        for y, x in itt.product(range(h), range(w)):
            on_border = y in (0, h - 1) or x in (0, w - 1)
            assert (type(grid[y, x]) is Wall) == on_border

        grid_fill = Grid.from_shape((h, w))
        positions = design.draw_area(grid_fill, grid_fill.area, Wall, fill=True)
        assert [p.yx for p in positions] == reference_positions(
            grid_fill.area, 'all'
        )
        assert grid_fill.object_types() == {Wall}
        assert (grid == grid_fill) == (h <= 2 or w <= 2)
        assert grid == grid and grid_fill == grid_fill

        # rooms strictly inside the grid
        if h >= 4 and w >= 4:
            grid = Grid.from_shape((h, w))
            area = Area((1, h - 2), (1, w - 2))
            positions = design.draw_room(grid, area, Wall)
            assert [p.yx for p in positions] == reference_positions(
                area, 'border'
            )
            assert type(grid[0, 0]) is Floor and type(grid[1, 1]) is Wall


def reference_empty(shape, random_agent=False, random_exit=False, *, rng):
    """reset function `empty`, enumerating cells without Area.positions"""
    if shape.height < 4 or shape.width < 4:
        raise ValueError('height and width need to be at least 4')
    h, w = shape.height, shape.width
    grid = Grid.from_shape((h, w))
    for y, x in itt.product(range(h), range(w)):
        if y in (0, h - 1) or x in (0, w - 1):
            grid[y, x] = Wall()
    if random_exit:
        exit_positions = [
            Position(y, x)
            for y in range(1, h - 1)
            for x in range(1, w - 1)
            if random_agent or (y, x) != (1, 1)
        ]
        exit_position = choice(rng, exit_positions)
    else:
        exit_position = Position(h - 2, w - 2)
    grid[exit_position] = Exit()
    if random_agent:
        positions = [
            Position(y, x)
            for y in range(h)
            for x in range(w)
            if isinstance(grid[y, x], Floor)
        ]
        agent_position = choice(rng, positions)
        agent_orientation = choice(rng, list(Orientation))
    else:
        agent_position = Position(1, 1)
        agent_orientation = Orientation.R
    return State(grid, Agent(agent_position, agent_orientation))


def outcome(function, *args, seed):
    try:
        return render(function(*args, rng=make_rng(seed)))
    except ValueError:
        return 'ValueError'


def check_against_reference_empty():
    compared = 0
    for shape in SHAPES + [Shape(4, 17), Shape(21, 4)]:
        for ra, re_ in itt.product((False, True), repeat=2):
            for seed in range(12):
                got = outcome(rf.empty, shape, ra, re_, seed=seed)
                want = outcome(reference_empty, shape, ra, re_, seed=seed)
                assert got == want, (shape, ra, re_, seed)
                compared += 1
    return compared


EXPECTED_OK = 12666
EXPECTED_REJECTED = 57534
EXPECTED_DIGEST = (
    '926f240c9a3bd59673c83e6e1e7599ede1c7d10edfdb450d879f1ec5a023e0cc'
)


def main():
    count = check_area_positions()
    print(f'Area.positions agrees with the original ({count} area/selections)')

    check_users_of_positions()
    print('drawing helpers / grid methods over areas ok')

    compared = check_against_reference_empty()
    print(f'empty agrees with reference ({compared} outcomes)')

    check_reseeding()
    print('repeated calls / re-seeding ok')

    out = sweep()
    print(f'property sweep: ok={out.ok} rejected={out.rejected}')
    assert out.ok == EXPECTED_OK, out.ok
    assert out.rejected == EXPECTED_REJECTED, out.rejected
    assert out.digest.hexdigest() == EXPECTED_DIGEST, out.digest.hexdigest()
    print('all outcomes identical to the recorded ones')


if __name__ == '__main__':
    main()
