"""C18 demo (change A): the tentative-next-position helper and the pose algebra.

Runs on the pristine tree and with the change applied;  exits 0 in both cases.
Everything is compared against reference implementations embedded here
(integer 2x2 rotation matrices and plain tuples), never against the library's
own tables.
"""
import itertools as itt
import os
import sys

sys.path.insert(0, os.getcwd())

from gym_gridverse.action import Action  # noqa: E402
from gym_gridverse.agent import Agent  # noqa: E402
from gym_gridverse.envs.terminating_functions import (  # noqa: E402
    bump_into_wall,
)
from gym_gridverse.envs.transition_functions import move_agent  # noqa: E402
from gym_gridverse.envs.utils import get_next_position  # noqa: E402
from gym_gridverse.geometry import (  # noqa: E402
    Area,
    Orientation,
    Position,
    Transform,
)
from gym_gridverse.grid import Grid  # noqa: E402
from gym_gridverse.grid_object import Color, Floor, Key, Wall  # noqa: E402
from gym_gridverse.state import State  # noqa: E402

O = Orientation
ORIENTATIONS = [O.F, O.R, O.B, O.L]
checks = 0


def check(condition, *info):
    global checks
    checks += 1
    if not condition:
        print('FAILED', *info)
        sys.exit(1)


# ---------------------------------------------------------------- reference

# number of clockwise quarter turns
TURNS = {O.F: 0, O.R: 1, O.B: 2, O.L: 3}
FROM_TURNS = {v: k for k, v in TURNS.items()}


def ref_rotate(k, y, x):
    """(y, x) rotated by k clockwise quarter turns (y down, x right)"""
    for _ in range(k % 4):
        y, x = x, -y
    return y, x


# forward is "up": (-1, 0)
REF_UNIT = {o: ref_rotate(TURNS[o], -1, 0) for o in ORIENTATIONS}
check(
    REF_UNIT == {O.F: (-1, 0), O.R: (0, 1), O.B: (1, 0), O.L: (0, -1)},
    REF_UNIT,
)

MOVE_TURNS = {
    Action.MOVE_FORWARD: 0,
    Action.MOVE_RIGHT: 1,
    Action.MOVE_BACKWARD: 2,
    Action.MOVE_LEFT: 3,
}


def ref_next_position(y, x, orientation, action):
    if action not in MOVE_TURNS:
        return y, x
    dy, dx = ref_rotate(TURNS[orientation] + MOVE_TURNS[action], -1, 0)
    return y + dy, x + dx


COORDS = [-(10**12), -7, -2, -1, 0, 1, 2, 5, 13, 10**12 + 3]
POSITIONS = [Position(y, x) for y in COORDS for x in COORDS]
SMALL_POSITIONS = [
    Position(y, x) for y in (-3, -1, 0, 2, 10**9) for x in (-4, 0, 1, 7)
]
TRANSFORMS = [Transform(p, o) for p in SMALL_POSITIONS for o in ORIENTATIONS]

# ------------------------------------------- orientations: cyclic group C4

for a in ORIENTATIONS:
    check(a * O.F == a and O.F * a == a, 'identity', a)
    check(a * -a == O.F and -a * a == O.F, 'inverse', a)
    check(TURNS[-a] == (-TURNS[a]) % 4, 'neg', a)
    for b in ORIENTATIONS:
        check(a * b == FROM_TURNS[(TURNS[a] + TURNS[b]) % 4], 'mul', a, b)
        check(a * b == b * a, 'commutative', a, b)
        for c in ORIENTATIONS:
            check((a * b) * c == a * (b * c), 'associative', a, b, c)
check(O.R * O.R * O.R * O.R == O.F and O.R * O.R == O.B and O.R * O.B == O.L)

# ----------------------- orientations act linearly and isometrically

for a in ORIENTATIONS:
    check(Position.from_orientation(a).yx == REF_UNIT[a], 'unit', a)
    for p in POSITIONS:
        check((a * p).yx == ref_rotate(TURNS[a], p.y, p.x), 'act', a, p)
        check((p * a) == (a * p), 'rmul', a, p)
        check(-a * (a * p) == p, 'undo', a, p)
        check(a * -p == -(a * p), 'odd', a, p)
        q = a * p
        check(q.y**2 + q.x**2 == p.y**2 + p.x**2, 'norm', a, p)
        check(abs(q.y) + abs(q.x) == abs(p.y) + abs(p.x), 'norm1', a, p)
    for p, q in itt.product(SMALL_POSITIONS, repeat=2):
        check(a * (p + q) == a * p + a * q, 'linear', a, p, q)
        check(a * (p - q) == a * p - a * q, 'linear-', a, p, q)
        check(
            Position.manhattan_distance(a * p, a * q)
            == Position.manhattan_distance(p, q),
            'isometry',
        )
    for b in ORIENTATIONS:
        for p in SMALL_POSITIONS:
            check((a * b) * p == a * (b * p), 'action', a, b, p)
        check(
            a * Position.from_orientation(b) == Position.from_orientation(a * b),
            'unit action',
            a,
            b,
        )

# --------------------------------------------------- transforms (poses)

IDENTITY = Transform(Position(0, 0), O.F)
for t in TRANSFORMS:
    check(t * IDENTITY == t and IDENTITY * t == t, 'identity', t)
    check(t * -t == IDENTITY and -t * t == IDENTITY, 'inverse', t)
    check(-(-t) == t, 'double inverse', t)
    for p in SMALL_POSITIONS:
        y, x = ref_rotate(TURNS[t.orientation], p.y, p.x)
        check((t * p).yx == (t.position.y + y, t.position.x + x), 'act', t, p)
        check(-t * (t * p) == p, 'undo', t, p)
    for o in ORIENTATIONS:
        check(t * o == t.orientation * o, 'orientation', t, o)

SOME = TRANSFORMS[::3]
for s, t in itt.product(SOME, repeat=2):
    for p in SMALL_POSITIONS[::2]:
        check((s * t) * p == s * (t * p), 'composed action', s, t, p)
    check(-(s * t) == -t * -s, 'inverse of product', s, t)
    for u in SOME[::2]:
        check((s * t) * u == s * (t * u), 'associative', s, t, u)

# ------------------------------------------------------------------ areas

AREAS = [
    Area((0, 0), (0, 0)),
    Area((-6, 0), (-3, 3)),  # usual view area
    Area((-2, 5), (-1, 4)),  # asymmetric
    Area((-9, -4), (2, 2)),  # degenerate width, negative
    Area((3, 3), (-8, 11)),  # degenerate height
    Area((10**9, 10**9 + 2), (-(10**9) - 1, -(10**9))),
]
for area in AREAS:
    cells = set(area.positions())
    check(len(cells) == area.height * area.width, 'cells', area)
    for o in ORIENTATIONS:
        rotated = o * area
        check(set(rotated.positions()) == {o * p for p in cells}, 'o*area')
        check(-o * rotated == area, 'undo area', o, area)
    for t in TRANSFORMS[::5]:
        moved = t * area
        check(set(moved.positions()) == {t * p for p in cells}, 't*area')
        check(-t * moved == area, 'undo t*area', t, area)
        check(
            {moved.height, moved.width} == {area.height, area.width}
            and moved.height * moved.width == area.height * area.width,
            'extent',
        )
    for p in SMALL_POSITIONS[::3]:
        check(set((p + area).positions()) == {p + q for q in cells}, 'p+area')

# ------------------------------------------------------------------ grids


def labelled_grid(height, width):
    colors = [Color.RED, Color.GREEN, Color.BLUE, Color.YELLOW, Color.NONE]
    objects = []
    for y in range(height):
        row = []
        for x in range(width):
            k = y * width + x
            row.append(
                Key(colors[k % 5])
                if k % 3 == 0
                else Wall()
                if k % 3 == 1
                else Floor()
            )
        objects.append(row)
    return Grid(objects)


for height, width in [(1, 1), (1, 5), (4, 1), (2, 3), (3, 3), (5, 2), (6, 7)]:
    grid = labelled_grid(height, width)
    ids = sorted(id(grid[p]) for p in grid.area.positions())
    for o in ORIENTATIONS:
        rotated = o * grid
        check((grid * o) == rotated, 'rmul grid')
        swapped = TURNS[o] % 2 == 1
        check(
            rotated.shape.as_tuple
            == ((width, height) if swapped else (height, width)),
            'rotated shape',
        )
        check(
            sorted(id(rotated[p]) for p in rotated.area.positions()) == ids,
            'same objects',
        )
        check(-o * rotated == grid, 'undo grid rotation', o, height, width)
        # `o * grid` is the grid as seen by an agent facing `o`:  cell p of
        # the rotated grid is the cell o * p of the original, up to the
        # translation which makes indices non-negative
        area = o * rotated.area
        offset = Position(area.ymin, area.xmin)
        for p in rotated.area.positions():
            check(rotated[p] is grid[(o * p) - offset], 'cell', o, p)
        for o2 in ORIENTATIONS:
            check(o2 * (o * grid) == (o2 * o) * grid, 'grid action', o, o2)
    check(grid == labelled_grid(height, width), 'grid not mutated')

# --------------------------------------- tentative next position helper

NON_MOVES = [
    Action.TURN_LEFT,
    Action.TURN_RIGHT,
    Action.ACTUATE,
    Action.PICK_N_DROP,
]
check(set(MOVE_TURNS) | set(NON_MOVES) == set(Action), 'all actions')

for p in POSITIONS:
    for o in ORIENTATIONS:
        for action in Action:
            got = get_next_position(p, o, action)
            check(
                type(got) is Position
                and got.yx == ref_next_position(p.y, p.x, o, action),
                'next position',
                p,
                o,
                action,
                got,
            )
            check(get_next_position(p, o, action) == got, 'repeatable')
        # agreement with the pose algebra
        pose = Transform(p, o)
        for action, k in MOVE_TURNS.items():
            unit = Position.from_orientation(FROM_TURNS[k])
            got = get_next_position(p, o, action)
            check(got == pose * unit, 'pose algebra', p, o, action)
            check(got == p + o * unit, 'pose algebra 2', p, o, action)
            check(Position.manhattan_distance(got, p) == 1, 'unit step')
            check(-pose * got == unit, 'local frame', p, o, action)
            check(pose == Transform(p, o), 'pose untouched')
        for action in NON_MOVES:
            check(get_next_position(p, o, action) is p, 'non-move', p, action)
        check(
            get_next_position(p, o, Action.MOVE_FORWARD)
            == Agent(p, o).front(),
            'front',
            p,
            o,
        )
        # opposite moves cancel out;  four turns of the same move close a loop
        for action, back in [
            (Action.MOVE_FORWARD, Action.MOVE_BACKWARD),
            (Action.MOVE_LEFT, Action.MOVE_RIGHT),
        ]:
            there = get_next_position(p, o, action)
            check(get_next_position(there, o, back) == p, 'cancel', p, o)
        q = p
        for o2 in ORIENTATIONS:
            q = get_next_position(q, o2, Action.MOVE_LEFT)
        check(q == p, 'loop', p)

# moving under a change of frame:  next position commutes with transforms
for t in TRANSFORMS[::2]:
    for p in SMALL_POSITIONS[::3]:
        for o in ORIENTATIONS:
            for action in Action:
                check(
                    get_next_position(t * p, t * o, action)
                    == t * get_next_position(p, o, action),
                    'equivariance',
                    t,
                    p,
                    o,
                    action,
                )

# arguments are not modified
p = Position(3, -4)
get_next_position(p, O.L, Action.MOVE_RIGHT)
check(p == Position(3, -4))

# --------------------- users of the helper, on non-square grids and borders


def walled_state(height, width, position, orientation):
    grid = Grid.from_shape((height, width))
    for q in grid.area.positions('border'):
        grid[q] = Wall()
    return State(grid, Agent(position, orientation))


for height, width in [(3, 5), (6, 4), (3, 3), (4, 9)]:
    inside = list(Area((0, height - 1), (0, width - 1)).positions('inside'))
    for p in Area((0, height - 1), (0, width - 1)).positions():
        for o in ORIENTATIONS:
            for action in Action:
                state = walled_state(height, width, p, o)
                y, x = ref_next_position(p.y, p.x, o, action)
                in_grid = 0 <= y < height and 0 <= x < width
                is_wall = in_grid and not Position(y, x) in inside
                expected_bump = in_grid and isinstance(state.grid[y, x], Wall)
                check(
                    bump_into_wall(state, action, state) == expected_bump,
                    'bump',
                    p,
                    o,
                    action,
                )
                move_agent(state, action)
                expected = (
                    Position(y, x)
                    if action in MOVE_TURNS and in_grid and not is_wall
                    else p
                )
                check(
                    state.agent.position == expected
                    and state.agent.orientation is o,
                    'move_agent',
                    (height, width),
                    p,
                    o,
                    action,
                )

print(f'OK ({checks} checks)')
