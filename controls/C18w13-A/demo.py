"""C18 demo for change A (Orientation * Area through the rotated corners).

Runs identically on the pristine tree and with the patch applied; exits 0 when
every check passes.  Reference implementations are embedded below.
"""
import itertools as itt
import os
import sys
import warnings

warnings.filterwarnings('ignore')
sys.path.insert(0, os.getcwd())

from gym_gridverse.action import Action  # noqa: E402
from gym_gridverse.envs.utils import get_next_position  # noqa: E402
from gym_gridverse.geometry import (  # noqa: E402
    Area,
    Orientation,
    Position,
    Transform,
)
from gym_gridverse.grid import Grid  # noqa: E402
from gym_gridverse.grid_object import Floor, Wall  # noqa: E402

O = Orientation
ORIENTATIONS = [O.F, O.R, O.B, O.L]
checks = 0


def check(condition, message):
    global checks
    checks += 1
    if not condition:
        print('FAIL:', message)
        sys.exit(1)


# ---------------------------------------------------------------- references
QUARTER_TURNS = {O.F: 0, O.R: 1, O.B: 2, O.L: 3}
FROM_QUARTER_TURNS = {v: k for k, v in QUARTER_TURNS.items()}


def ref_compose(a, b):
    return FROM_QUARTER_TURNS[(QUARTER_TURNS[a] + QUARTER_TURNS[b]) % 4]


def ref_inverse(a):
    return FROM_QUARTER_TURNS[(-QUARTER_TURNS[a]) % 4]


def ref_rotate_yx(o, y, x):
    if o is O.F:
        return y, x
    if o is O.B:
        return -y, -x
    if o is O.R:
        return x, -y
    return -x, y


def ref_rotate_area(o, ys, xs):
    """the four sign patterns, spelled out independently of the library"""
    (ymin, ymax), (xmin, xmax) = ys, xs
    if o is O.F:
        return (ymin, ymax), (xmin, xmax)
    if o is O.B:
        return (-ymax, -ymin), (-xmax, -xmin)
    if o is O.R:
        return (xmin, xmax), (-ymax, -ymin)
    return (-xmax, -xmin), (ymin, ymax)


def position_set(area):
    return {p.yx for p in area.positions()}


# ------------------------------------------------------------------ inputs
BIG = 10**18
coordinates = [-BIG, -7, -2, -1, 0, 1, 2, 5, BIG]
small = [-3, -1, 0, 1, 2, 4]

positions = [Position(y, x) for y in coordinates for x in coordinates]
small_positions = [Position(y, x) for y in small for x in small]

# all areas over the small coordinates: single cells, 1-wide lines, fat
# rectangles, straddling the origin, strictly negative, strictly positive
small_areas = [
    Area((y0, y1), (x0, x1))
    for y0, y1 in itt.combinations_with_replacement(small, 2)
    for x0, x1 in itt.combinations_with_replacement(small, 2)
]
huge_areas = [
    Area((-BIG, BIG), (-BIG, BIG)),
    Area((-BIG, -BIG), (BIG, BIG)),
    Area((BIG - 1, BIG), (-BIG, -BIG + 3)),
    Area((0, 0), (-BIG, BIG)),
    Area((-BIG, 0), (0, 0)),
]
areas = small_areas + huge_areas

transforms = [
    Transform(Position(y, x), o)
    for y, x in [(0, 0), (-3, 2), (5, -1), (BIG, -BIG), (-1, -1)]
    for o in ORIENTATIONS
]

# --------------------------------------------------- orientations: a group
for a in ORIENTATIONS:
    check(a * O.F is a and O.F * a is a, f'identity {a}')
    check(-a is ref_inverse(a), f'inverse table {a}')
    check(a * -a is O.F and -a * a is O.F, f'inverse {a}')
    check(a * a * a * a is O.F, f'order divides four {a}')
    for b in ORIENTATIONS:
        check(a * b is ref_compose(a, b), f'compose {a} {b}')
        check(a * b is b * a, f'commutative {a} {b}')
        for c in ORIENTATIONS:
            check((a * b) * c is a * (b * c), f'associative {a} {b} {c}')
check(O.R * O.R is O.B and O.L * O.L is O.B, 'half turn')
check(len({O.F, O.R, O.B, O.L}) == 4, 'four distinct quarter turns')

# ------------------------------- orientations on positions: linear, isometric
for o in ORIENTATIONS:
    for p in positions:
        q = o * p
        check(type(q) is Position, 'position type')
        check(q.yx == ref_rotate_yx(o, p.y, p.x), f'rotate {o} {p}')
        check(p * o == q, 'rmul position')
        check(q.y**2 + q.x**2 == p.y**2 + p.x**2, 'norm preserved')
        check(-o * q == p, 'inverse rotation undoes')
    for p, q in itt.product(small_positions, repeat=2):
        check(o * (p + q) == o * p + o * q, 'additive')
        check(o * (p - q) == o * p - o * q, 'additive (difference)')
        check(o * -p == -(o * p), 'negation')
        check(
            Position.manhattan_distance(o * p, o * q)
            == Position.manhattan_distance(p, q),
            'manhattan isometry',
        )
        check(
            Position.euclidean_distance(o * p, o * q)
            == Position.euclidean_distance(p, q),
            'euclidean isometry',
        )
    for b in ORIENTATIONS:
        for p in positions:
            check((o * b) * p == o * (b * p), 'action of a product')

# ----------------------------------- orientations on areas (the edited code)
for o in ORIENTATIONS:
    for area in areas:
        rotated = o * area
        check(type(rotated) is Area, 'area type')
        check(rotated is not area, 'always a fresh area')
        expected = ref_rotate_area(o, area.ys, area.xs)
        check((rotated.ys, rotated.xs) == expected, f'rotate {o} {area}')
        check(
            type(rotated.ys) is tuple and type(rotated.xs) is tuple,
            'bounds stay tuples',
        )
        check(
            all(type(v) is int for v in rotated.ys + rotated.xs),
            'bounds stay ints',
        )
        check(rotated == Area(*expected), 'equality with reference')
        check(hash(rotated) == hash(Area(*expected)), 'hash with reference')
        check(area * o == rotated, 'rmul area')
        check(-o * rotated == area, 'inverse rotation undoes (area)')
        check(
            {rotated.height, rotated.width} == {area.height, area.width}
            and rotated.height * rotated.width == area.height * area.width,
            'extent preserved up to swap',
        )
        if o in (O.F, O.B):
            check(
                (rotated.height, rotated.width) == (area.height, area.width),
                'half turns keep the extent',
            )
        else:
            check(
                (rotated.height, rotated.width) == (area.width, area.height),
                'quarter turns swap the extent',
            )
        for b in ORIENTATIONS:
            check((o * b) * area == o * (b * area), 'product on area')

    # exactly the set of rotated positions (small areas: enumerable)
    for area in small_areas:
        rotated = o * area
        check(
            position_set(rotated) == {(o * p).yx for p in area.positions()},
            f'set of positions {o} {area}',
        )
        for selection in ['border', 'inside']:
            check(
                {p.yx for p in rotated.positions(selection)}
                == {(o * p).yx for p in area.positions(selection)},
                f'{selection} positions {o} {area}',
            )
        for p in small_positions:
            check(
                rotated.contains(o * p) == area.contains(p),
                'membership is transported',
            )

# corners of huge areas are mapped onto corners
for o in ORIENTATIONS:
    for area in huge_areas:
        rotated = o * area
        for y in area.ys:
            for x in area.xs:
                check(rotated.contains(o * Position(y, x)), 'huge corner')

# repeated calls: the operator is a pure function of its operands
area = Area((-2, 5), (1, 3))
for o in ORIENTATIONS:
    first = o * area
    for _ in range(3):
        check(o * area == first, 'repeatable')
    check((area.ys, area.xs) == ((-2, 5), (1, 3)), 'operand untouched')

# unsupported operands still refuse
for junk in [3, 'x', None, (1, 2), 1.5]:
    try:
        O.R * junk
    except TypeError:
        pass
    else:
        check(False, f'Orientation * {junk!r} should be a TypeError')
    checks += 1

# ------------------------------------------------ transforms: rigid motions
identity = Transform(Position(0, 0), O.F)
for t in transforms:
    check(t * identity == t and identity * t == t, 'transform identity')
    check(t * -t == identity and -t * t == identity, 'transform inverse')
    check(-(-t) == t, 'double inverse')
    for p in positions[::7]:
        check(t * p == t.position + t.orientation * p, 'transform position')
        check(-t * (t * p) == p, 'inverse undoes on positions')
    for o in ORIENTATIONS:
        check(t * o is t.orientation * o, 'transform orientation')
    for area in areas[::5] + huge_areas:
        moved = t * area
        ys, xs = ref_rotate_area(t.orientation, area.ys, area.xs)
        expected = Area(
            (t.position.y + ys[0], t.position.y + ys[1]),
            (t.position.x + xs[0], t.position.x + xs[1]),
        )
        check(moved == expected, f'transform area {t} {area}')
        check(-t * moved == area, 'inverse undoes on areas')

for s, t in itt.product(transforms, repeat=2):
    st = s * t
    check(
        st
        == Transform(
            s.position + s.orientation * t.position,
            ref_compose(s.orientation, t.orientation),
        ),
        'composition',
    )
    for p in small_positions[::5]:
        check(st * p == s * (t * p), 'composed action on positions')
    for area in small_areas[::37] + huge_areas[:2]:
        check(st * area == s * (t * area), 'composed action on areas')
    for o in ORIENTATIONS:
        check(st * o is s * (t * o), 'composed action on orientations')

for r, s, t in itt.product(transforms[::3], repeat=3):
    check((r * s) * t == r * (s * t), 'transform associativity')

# transformed small areas: exactly the transformed set of positions
for t in transforms[:12]:
    for area in small_areas[::11]:
        check(
            position_set(t * area) == {(t * p).yx for p in area.positions()},
            'transform: set of positions',
        )

# asymmetric view areas, as used by the observation code: agent pose * view
for view in [Area((-6, 0), (-3, 3)), Area((-2, 1), (-1, 4)), Area((0, 0), (0, 0))]:
    for y, x, o in [(0, 0, O.F), (0, 6, O.R), (4, 0, O.B), (4, 6, O.L), (2, 3, O.R)]:
        pose = Transform(Position(y, x), o)
        seen = pose * view
        check(
            position_set(seen) == {(pose * p).yx for p in view.positions()},
            'view area',
        )
        check(seen.contains(pose.position) == view.contains(Position(0, 0)), 'agent cell')

# ------------------------------------------------------- grids: all shapes
for height in range(1, 6):
    for width in range(1, 6):
        cells = [
            [Wall() if (y + x) % 2 else Floor() for x in range(width)]
            for y in range(height)
        ]
        grid = Grid(cells)
        ids = sorted(id(obj) for row in cells for obj in row)
        for o in ORIENTATIONS:
            rotated = o * grid
            check(
                sorted(id(obj) for row in rotated.objects for obj in row) == ids,
                'objects preserved',
            )
            back = -o * rotated
            check(back.shape == grid.shape, 'shape restored')
            check(
                all(back[p] is grid[p] for p in grid.area.positions()),
                'inverse rotation restores the grid',
            )
            # grid cells move like positions (grids use the frame convention)
            target = -o * grid.area
            corner = Position(target.ymin, target.xmin)
            check(rotated.area == Area((0, target.height - 1), (0, target.width - 1)), 'rotated grid area')
            check(
                all(rotated[-o * p - corner] is grid[p] for p in grid.area.positions()),
                'cells move with the rotated area',
            )
            for b in ORIENTATIONS:
                lhs, rhs = (o * b) * grid, o * (b * grid)
                check(
                    lhs.shape == rhs.shape
                    and all(lhs[p] is rhs[p] for p in lhs.area.positions()),
                    'grid rotations compose',
                )

# ------------------------------------------------ tentative next position
MOVES = {
    Action.MOVE_FORWARD: O.F,
    Action.MOVE_LEFT: O.L,
    Action.MOVE_RIGHT: O.R,
    Action.MOVE_BACKWARD: O.B,
}
DELTAS = {O.F: (-1, 0), O.R: (0, 1), O.B: (1, 0), O.L: (0, -1)}
for o in ORIENTATIONS:
    check(Position.from_orientation(o).yx == DELTAS[o], 'unit step')
    check(o * Position.from_orientation(O.F) == Position.from_orientation(o), 'unit step is rotated forward')
    for p in positions:
        for action in Action:
            result = get_next_position(p, o, action)
            if action in MOVES:
                pose = Transform(p, o)
                check(
                    result == pose * Position.from_orientation(MOVES[action]),
                    'next position agrees with the pose algebra',
                )
                dy, dx = DELTAS[ref_compose(o, MOVES[action])]
                check(result.yx == (p.y + dy, p.x + dx), 'next position value')
                # the cell the step lands on is inside the moved unit area
                step_area = pose * Area((-1, 1), (-1, 1))
                check(step_area.contains(result), 'step inside the 3x3 pose area')
            else:
                check(result == p, 'non-moves stay put')

print(f'OK ({checks} checks)')
