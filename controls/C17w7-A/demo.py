"""Demo / check program for commit A (memoised signature introspection in the
function registries).

Run as:  cd /tmp/wt7-C17 && /venv/bin/python -W ignore _seed/A/demo.py

Everything is checked against an independent re-implementation that lives in
this file (own signature filtering, own component lookup by module attribute,
own conversion of configuration values), so the program gives the same verdict
on the clean tree and with the commit applied.
"""
import copy
import functools
import inspect
import os
import random
import sys

sys.path.insert(0, os.getcwd())

from schema import SchemaError  # noqa: E402

from gym_gridverse import grid_object as grid_object_module  # noqa: E402
from gym_gridverse.action import Action  # noqa: E402
from gym_gridverse.envs import observation_functions as observation_fs  # noqa: E402
from gym_gridverse.envs import reset_functions as reset_fs  # noqa: E402
from gym_gridverse.envs import reward_functions as reward_fs  # noqa: E402
from gym_gridverse.envs import terminating_functions as terminating_fs  # noqa: E402
from gym_gridverse.envs import transition_functions as transition_fs  # noqa: E402
from gym_gridverse.envs import visibility_functions as visibility_fs  # noqa: E402
from gym_gridverse.envs.gridworld import GridWorld  # noqa: E402
from gym_gridverse.envs.yaml import factory as yaml_factory  # noqa: E402
from gym_gridverse.geometry import Area, Position, Shape  # noqa: E402
from gym_gridverse.grid_object import Color  # noqa: E402
from gym_gridverse.rng import reset_gv_rng  # noqa: E402
from gym_gridverse.spaces import (  # noqa: E402
    ActionSpace,
    ObservationSpace,
    StateSpace,
)

# ---------------------------------------------------------------------------
# kinds of components:  module, registry, number of leading protocol arguments
# ---------------------------------------------------------------------------

KINDS = {
    'reset': (reset_fs, reset_fs.reset_function_registry, 0),
    'transition': (transition_fs, transition_fs.transition_function_registry, 2),
    'reward': (reward_fs, reward_fs.reward_function_registry, 3),
    'observation': (
        observation_fs,
        observation_fs.observation_function_registry,
        1,
    ),
    'visibility': (visibility_fs, visibility_fs.visibility_function_registry, 2),
    'terminating': (
        terminating_fs,
        terminating_fs.terminating_function_registry,
        3,
    ),
}

# names recorded from the library (the registered-name tables must not change)
EXPECTED_NAMES = {
    'reset': [
        'empty',
        'rooms',
        'dynamic_obstacles',
        'keydoor',
        'crossing',
        'teleport',
        'memory',
        'memory_rooms',
    ],
    'transition': [
        'chain',
        'move_agent',
        'turn_agent',
        'pickndrop',
        'move_obstacles',
        'actuate_door',
        'actuate_box',
        'teleport',
    ],
    'reward': [
        'reduce',
        'reduce_sum',
        'overlap',
        'living_reward',
        'reach_exit',
        'bump_moving_obstacle',
        'proportional_to_distance',
        'getting_closer',
        'getting_closer_shortest_path',
        'bump_into_wall',
        'actuate_door',
        'pickndrop',
        'reach_exit_memory',
    ],
    'observation': [
        'from_visibility',
        'fully_transparent',
        'partially_occluded',
        'raytracing',
        'stochastic_raytracing',
    ],
    'visibility': [
        'fully_transparent',
        'partially_occluded',
        'raytracing',
        'stochastic_raytracing',
    ],
    'terminating': [
        'reduce',
        'reduce_any',
        'reduce_all',
        'overlap',
        'reach_exit',
        'bump_moving_obstacle',
        'bump_into_wall',
    ],
}


def independent_keys(function, num_positional):
    """(required, optional) names of the non-protocol parameters; own code"""
    names = list(inspect.signature(function).parameters.items())
    rest = [
        (name, parameter)
        for name, parameter in names[num_positional:]
        if name != 'rng'
    ]
    required = [n for n, p in rest if p.default is inspect.Parameter.empty]
    optional = [n for n, p in rest if p.default is not inspect.Parameter.empty]
    return required, optional


# ---------------------------------------------------------------------------
# 1.  component obtained by name with parameters == function with parameters
# ---------------------------------------------------------------------------


def _dummy(*args, **kwargs):
    return None


CANDIDATE_VALUES = {
    'shape': Shape(5, 7),
    'layout': (2, 3),
    'random_agent': True,
    'random_exit': True,
    'num_obstacles': 2,
    'num_rivers': 1,
    'object_type': grid_object_module.Wall,
    'colors': {Color.RED, Color.BLUE},
    'num_beacons': 2,
    'num_exits': 3,
    'transition_functions': [_dummy],
    'reward_functions': [_dummy, _dummy],
    'terminating_functions': [_dummy],
    'reduction': sum,
    'reward_on': 2.5,
    'reward_off': -0.5,
    'reward': -0.25,
    'distance_function': Position.euclidean_distance,
    'reward_per_unit_distance': -2.0,
    'reward_closer': 0.75,
    'reward_further': -0.75,
    'reward_open': 3.0,
    'reward_close': -3.0,
    'reward_pick': 4.0,
    'reward_drop': -4.0,
    'reward_good': 6.0,
    'reward_bad': -6.0,
    'area': Area((-2, 0), (-1, 1)),
    'visibility_function': _dummy,
    'absolute_counts': False,
    'threshold': 0.5,
}
JUNK = {
    'not_a_parameter': 1,
    'random_agent_': True,
    'state': 'junk-state',
    'action': 'junk-action',
    'next_state': 'junk-next-state',
    'grid': 'junk-grid',
    'position': 'junk-position',
    'rng': 'junk-rng',
}


def check_components(rounds):
    num_checks = 0
    for kind, (module, registry, num_positional) in KINDS.items():
        assert list(registry.keys()) == EXPECTED_NAMES[kind], (
            kind,
            list(registry.keys()),
        )
        protocol_names = None
        for name in EXPECTED_NAMES[kind]:
            function = registry[name]
            assert function is getattr(module, name), (kind, name)
            required, optional = independent_keys(function, num_positional)
            positional = list(inspect.signature(function).parameters)[
                :num_positional
            ]
            accepted = set(required) | set(optional)
            for key in accepted:
                assert key in CANDIDATE_VALUES, (kind, name, key)

            # parameter sets:  every subset of the optional parameters on top
            # of the required ones, with and without parameters which the
            # component does not accept (incl. the protocol parameter names)
            junk = {
                k: v
                for k, v in JUNK.items()
                if k not in accepted and k not in positional and k != 'rng'
            }
            # protocol names as configuration keys:  not accepted, so they
            # are ignored as well
            protocol_junk = {k: JUNK[k] for k in positional}
            protocol_junk['rng'] = JUNK['rng']

            subsets = [[]]
            for key in optional:
                subsets = subsets + [s + [key] for s in subsets]
            for subset in subsets:
                for extra in ({}, junk, protocol_junk):
                    kwargs = {k: CANDIDATE_VALUES[k] for k in required}
                    kwargs.update({k: CANDIDATE_VALUES[k] for k in subset})
                    # unknown parameters in front and behind
                    kwargs = {**extra, **kwargs}
                    expected = {
                        k: v for k, v in kwargs.items() if k in accepted
                    }
                    kwargs_before = dict(kwargs)
                    for _ in range(rounds):
                        component = module.factory(name, **kwargs)
                        assert isinstance(component, functools.partial)
                        assert component.func is function, (kind, name)
                        assert component.args == ()
                        assert component.keywords == expected, (
                            kind,
                            name,
                            component.keywords,
                            expected,
                        )
                        assert list(component.keywords) == list(expected)
                        for k, v in expected.items():
                            assert component.keywords[k] is v
                        assert kwargs == kwargs_before
                        num_checks += 1

            # missing required parameters:  value error naming the first
            # missing one in signature order, whatever else is given
            for i, missing in enumerate(required):
                for also_missing in [()] + [
                    (later,) for later in required[i + 1 :]
                ]:
                    kwargs = {
                        k: CANDIDATE_VALUES[k]
                        for k in required + optional
                        if k != missing and k not in also_missing
                    }
                    kwargs.update(junk)
                    for _ in range(rounds):
                        try:
                            module.factory(name, **kwargs)
                        except ValueError as error:
                            assert (
                                str(error)
                                == f'missing keyword argument `{missing}`'
                            ), (kind, name, str(error))
                        else:
                            raise AssertionError((kind, name, missing))
                        num_checks += 1

        # unknown names
        for bad_name in [
            'no_such_component',
            '',
            'Empty',
            'empty ',
            'reach-exit',
            'factory',
            'State',
        ]:
            if bad_name in registry:
                continue
            for _ in range(rounds):
                try:
                    module.factory(bad_name, **CANDIDATE_VALUES)
                except ValueError as error:
                    assert 'invalid' in str(error) and bad_name in str(error)
                else:
                    raise AssertionError((kind, bad_name))
                num_checks += 1
    return num_checks


# ---------------------------------------------------------------------------
# 2.  functions which enter / leave / change in a registry at runtime
# ---------------------------------------------------------------------------


def check_runtime_registrations():
    registry = reward_fs.reward_function_registry
    names_before = list(registry.keys())

    def make(i):
        # same code object and name, different signatures
        if i % 3 == 0:

            def temporary(state, action, next_state, *, alpha, rng=None):
                return alpha

        elif i % 3 == 1:

            def temporary(state, action, next_state, *, beta=2.0, rng=None):
                return beta

        else:

            def temporary(
                state, action, next_state, *, beta, alpha=1.0, rng=None
            ):
                return alpha + beta

        return temporary

    expected_keys = [(['alpha'], []), ([], ['beta']), (['beta'], ['alpha'])]

    # a fresh function object under the same name every time;  the previous
    # one is released, so that its id may be taken by the next
    for i in range(300):
        function = make(i)
        registry.register(function, name='_demo_temporary')
        required, optional = expected_keys[i % 3]
        assert (required, optional) == independent_keys(function, 3)
        kwargs = {'alpha': 10.0, 'beta': 20.0, 'gamma': 30.0}
        for _ in range(2):
            component = reward_fs.factory('_demo_temporary', **kwargs)
            assert component.func is function
            assert component.keywords == {
                k: v for k, v in kwargs.items() if k in required + optional
            }, (i, component.keywords)
        for missing in required:
            try:
                reward_fs.factory(
                    '_demo_temporary',
                    **{k: v for k, v in kwargs.items() if k != missing},
                )
            except ValueError as error:
                assert str(error) == f'missing keyword argument `{missing}`'
            else:
                raise AssertionError(i)
        del registry.data['_demo_temporary']
        del function, component

    # replacing the function behind an existing name
    original = registry['living_reward']
    assert reward_fs.factory('living_reward', reward=1.0, alpha=3).keywords == {
        'reward': 1.0
    }
    replacement = make(0)
    registry.data['living_reward'] = replacement
    try:
        component = reward_fs.factory('living_reward', reward=1.0, alpha=3)
        assert component.func is replacement
        assert component.keywords == {'alpha': 3}
        try:
            reward_fs.factory('living_reward', reward=1.0)
        except ValueError as error:
            assert str(error) == 'missing keyword argument `alpha`'
        else:
            raise AssertionError
    finally:
        registry.data['living_reward'] = original
    component = reward_fs.factory('living_reward', reward=1.0, alpha=3)
    assert component.func is original
    assert component.keywords == {'reward': 1.0}

    # callables which are not plain functions:  a partial, and an instance of
    # a class which defines equality without a hash (not hashable)
    base = registry['overlap']
    partial_function = functools.partial(base, reward_on=7.0)
    registry.register(partial_function, name='_demo_partial')

    class Unhashable:
        def __init__(self, tag):
            self.tag = tag

        def __eq__(self, other):
            return isinstance(other, Unhashable)

        __hash__ = None

        def __call__(self, state, action, next_state, *, gain, rng=None):
            return gain

    class UnhashableOther(Unhashable):
        def __call__(
            self, state, action, next_state, *, offset=0.0, rng=None
        ):
            return offset

    one, other = Unhashable(1), UnhashableOther(2)
    assert one == other
    registry.register(one, name='_demo_unhashable_one')
    registry.register(other, name='_demo_unhashable_other')
    try:
        for _ in range(3):
            component = reward_fs.factory(
                '_demo_partial',
                object_type=grid_object_module.Exit,
                reward_on=1.0,
                reward_off=2.0,
                other=3.0,
            )
            assert component.func is base  # partial of a partial flattens
            assert component.keywords == {
                'reward_on': 1.0,
                'object_type': grid_object_module.Exit,
                'reward_off': 2.0,
            }
            try:
                reward_fs.factory('_demo_partial', reward_on=1.0)
            except ValueError as error:
                assert str(error) == 'missing keyword argument `object_type`'
            else:
                raise AssertionError

            component = reward_fs.factory(
                '_demo_unhashable_one', gain=1.0, offset=2.0
            )
            assert component.func is one
            assert component.keywords == {'gain': 1.0}
            component = reward_fs.factory(
                '_demo_unhashable_other', gain=1.0, offset=2.0
            )
            assert component.func is other
            assert component.keywords == {'offset': 2.0}
            try:
                reward_fs.factory('_demo_unhashable_one', offset=2.0)
            except ValueError as error:
                assert str(error) == 'missing keyword argument `gain`'
            else:
                raise AssertionError
    finally:
        del registry.data['_demo_partial']
        del registry.data['_demo_unhashable_one']
        del registry.data['_demo_unhashable_other']

    # a function which does not follow the protocol, put behind a name
    # without registration:  the type error of the protocol, every time
    def no_rng(state, action, next_state, *, alpha=1.0):
        return alpha

    registry.data['_demo_no_rng'] = no_rng
    try:
        for _ in range(3):
            try:
                reward_fs.factory('_demo_no_rng', alpha=2.0)
            except TypeError:
                pass
            else:
                raise AssertionError
    finally:
        del registry.data['_demo_no_rng']

    # the same function registered in two registries with different protocols
    def shared(state, action, next_state=None, *, scale=1.0, rng=None):
        return None

    transition_fs.transition_function_registry.register(
        shared, name='_demo_shared'
    )
    reward_fs.reward_function_registry.register(shared, name='_demo_shared')
    try:
        for _ in range(3):
            component = transition_fs.factory(
                '_demo_shared', scale=2.0, next_state='x'
            )
            assert component.func is shared
            assert component.keywords == {'scale': 2.0, 'next_state': 'x'}
            component = reward_fs.factory(
                '_demo_shared', scale=2.0, next_state='x'
            )
            assert component.func is shared
            assert component.keywords == {'scale': 2.0}
    finally:
        del transition_fs.transition_function_registry.data['_demo_shared']
        del reward_fs.reward_function_registry.data['_demo_shared']

    assert list(registry.keys()) == names_before


# ---------------------------------------------------------------------------
# 3.  configurations (python data, transcribed from the shipped yaml files and
#     variations) build the environment assembled by hand
# ---------------------------------------------------------------------------

ALL_ACTIONS = [
    'MOVE_FORWARD',
    'MOVE_BACKWARD',
    'MOVE_LEFT',
    'MOVE_RIGHT',
    'TURN_LEFT',
    'TURN_RIGHT',
    'ACTUATE',
    'PICK_N_DROP',
]
MOVE_ACTIONS = ALL_ACTIONS[:6]
EXIT_REWARDS = [
    {'name': 'reach_exit', 'reward_on': 5.0, 'reward_off': 0.0},
    {
        'name': 'getting_closer',
        'distance_function': 'manhattan',
        'object_type': 'Exit',
        'reward_closer': 0.2,
        'reward_further': -0.2,
    },
    {'name': 'living_reward', 'reward': -0.05},
]
DEFAULT_OBSERVATION = {
    'name': 'partially_occluded',
    'area': [[-6, 0], [-3, 3]],
}


def _config(
    objects,
    colors,
    reset,
    transitions,
    rewards,
    terminating,
    observation=None,
    actions=MOVE_ACTIONS,
):
    data = {
        'state_space': {'objects': list(objects), 'colors': list(colors)},
        'observation_space': {
            'objects': list(objects),
            'colors': list(colors),
        },
        'reset_function': reset,
        'transition_functions': [{'name': name} for name in transitions],
        'reward_functions': rewards,
        'observation_function': observation or DEFAULT_OBSERVATION,
        'terminating_function': terminating,
    }
    if actions is not None:
        data['action_space'] = list(actions)
    return copy.deepcopy(data)


MEMORY_COLORS = ['NONE', 'RED', 'GREEN', 'BLUE', 'YELLOW']
MEMORY_REWARDS = [
    {'name': 'reach_exit_memory', 'reward_good': 5.0, 'reward_bad': -5.0},
    {'name': 'living_reward', 'reward': -0.05},
]
OBSTACLE_REWARDS = (
    EXIT_REWARDS[:1]
    + [
        {'name': 'bump_moving_obstacle', 'reward': -1.0},
        {'name': 'bump_into_wall', 'reward': -1.0},
    ]
    + EXIT_REWARDS[1:]
)
OBSTACLE_TERMINATING = {
    'name': 'reduce_any',
    'terminating_functions': [
        {'name': 'reach_exit'},
        {'name': 'bump_moving_obstacle'},
        {'name': 'bump_into_wall'},
    ],
}
KEYDOOR_REWARDS = (
    EXIT_REWARDS[:1]
    + [
        {
            'name': 'pickndrop',
            'object_type': 'Key',
            'reward_pick': 1.0,
            'reward_drop': -1.0,
        },
        {'name': 'actuate_door', 'reward_open': 1.0, 'reward_close': -1.0},
    ]
    + EXIT_REWARDS[1:]
)

CONFIGS = {
    # --- transcriptions of shipped files
    'gv_crossing.7x7': _config(
        ['Wall', 'Floor', 'Exit'],
        ['NONE'],
        {
            'name': 'crossing',
            'shape': [7, 7],
            'num_rivers': 2,
            'object_type': 'Wall',
        },
        ['move_agent', 'turn_agent'],
        EXIT_REWARDS,
        {'name': 'reach_exit'},
    ),
    'gv_dynamic_obstacles.5x5': _config(
        ['Wall', 'Floor', 'Exit', 'MovingObstacle'],
        ['NONE'],
        {
            'name': 'dynamic_obstacles',
            'shape': [5, 5],
            'num_obstacles': 1,
            'random_agent': False,
        },
        ['move_agent', 'turn_agent', 'move_obstacles'],
        OBSTACLE_REWARDS,
        OBSTACLE_TERMINATING,
    ),
    'gv_empty.4x4': _config(
        ['Wall', 'Floor', 'Exit'],
        ['NONE'],
        {'name': 'empty', 'shape': [4, 4], 'random_agent': True},
        ['move_agent', 'turn_agent'],
        EXIT_REWARDS,
        {'name': 'reach_exit'},
    ),
    'gv_four_rooms.7x7': _config(
        ['Wall', 'Floor', 'Exit'],
        ['NONE'],
        {'name': 'rooms', 'shape': [7, 7], 'layout': [2, 2]},
        ['move_agent', 'turn_agent'],
        EXIT_REWARDS,
        {'name': 'reach_exit'},
    ),
    'gv_keydoor.5x5': _config(
        ['Wall', 'Floor', 'Exit', 'Door', 'Key'],
        ['NONE', 'YELLOW'],
        {'name': 'keydoor', 'shape': [5, 5]},
        ['move_agent', 'turn_agent', 'actuate_door', 'pickndrop'],
        KEYDOOR_REWARDS,
        {'name': 'reach_exit'},
        actions=None,  # the shipped file has no action space
    ),
    'gv_memory.5x5': _config(
        ['Wall', 'Floor', 'Exit', 'Beacon'],
        MEMORY_COLORS,
        {
            'name': 'memory',
            'shape': [5, 5],
            'colors': ['RED', 'GREEN', 'BLUE', 'YELLOW'],
        },
        ['move_agent', 'turn_agent'],
        MEMORY_REWARDS,
        {'name': 'reach_exit'},
    ),
    'gv_memory_four_rooms.7x7': _config(
        ['Wall', 'Floor', 'Exit', 'Beacon'],
        MEMORY_COLORS,
        {
            'name': 'memory_rooms',
            'shape': [7, 7],
            'layout': [2, 2],
            'colors': ['RED', 'GREEN', 'BLUE', 'YELLOW'],
            'num_beacons': 1,
            'num_exits': 2,
        },
        ['move_agent', 'turn_agent'],
        MEMORY_REWARDS,
        {'name': 'reach_exit'},
    ),
    'gv_teleport.5x5': _config(
        ['Wall', 'Floor', 'Exit', 'Telepod'],
        ['NONE', 'RED'],
        # `random_agent` is in the shipped file;  `teleport` does not take it
        {'name': 'teleport', 'shape': [5, 5], 'random_agent': True},
        ['move_agent', 'turn_agent', 'teleport'],
        EXIT_REWARDS,
        {'name': 'reach_exit'},
    ),
    # --- variations:  non-square worlds, unusual parameters, other components
    'empty.5x8.random': _config(
        ['Wall', 'Floor', 'Exit'],
        ['NONE'],
        {
            'name': 'empty',
            'shape': [5, 8],
            'random_agent': True,
            'random_exit': True,
            'layout': [9, 9],  # ignored
            'colors': ['RED'],  # ignored
        },
        ['move_agent', 'turn_agent'],
        [
            {
                'name': 'proportional_to_distance',
                'distance_function': 'euclidean',
                'object_type': 'Exit',
                'reward_per_unit_distance': -0.1,
            },
            {
                'name': 'getting_closer_shortest_path',
                'object_type': 'Exit',
                'reward_closer': 0.3,
            },
            {
                'name': 'overlap',
                'object_type': 'Exit',
                'reward_on': 2.0,
                'distance_function': 'manhattan',  # ignored
            },
            {
                'name': 'reduce_sum',
                'reward_functions': [
                    {'name': 'bump_into_wall'},
                    {'name': 'living_reward', 'reward': 0.125},
                ],
            },
        ],
        {
            'name': 'reduce_all',
            'terminating_functions': [
                {'name': 'overlap', 'object_type': 'Exit'},
                {
                    'name': 'reduce_any',
                    'terminating_functions': [
                        {'name': 'reach_exit'},
                        {'name': 'bump_into_wall'},
                    ],
                },
            ],
        },
        observation={
            'name': 'from_visibility',
            'area': [[-2, 1], [-2, 2]],
            'visibility_function': {
                'name': 'raytracing',
                'absolute_counts': False,
                'threshold': 0.5,
                'area': [[0, 0], [0, 0]],  # ignored
            },
        },
    ),
    'rooms.7x13.raytracing': _config(
        ['Wall', 'Floor', 'Exit'],
        ['NONE'],
        {'name': 'rooms', 'shape': [7, 13], 'layout': [2, 4]},
        ['turn_agent', 'move_agent'],
        EXIT_REWARDS,
        {'name': 'reach_exit'},
        observation={'name': 'raytracing', 'area': [[-3, 0], [-2, 2]]},
    ),
    'dynamic_obstacles.6x9.stochastic': _config(
        ['Wall', 'Floor', 'Exit', 'MovingObstacle'],
        ['NONE'],
        {
            'name': 'dynamic_obstacles',
            'shape': [6, 9],
            'num_obstacles': 4,
            'random_agent': True,
        },
        ['move_obstacles', 'move_agent', 'turn_agent'],
        OBSTACLE_REWARDS,
        OBSTACLE_TERMINATING,
        observation={
            'name': 'stochastic_raytracing',
            'area': [[-4, 1], [-1, 1]],
        },
    ),
    'keydoor.7x5.all_actions': _config(
        ['Wall', 'Floor', 'Exit', 'Door', 'Key'],
        ['NONE', 'YELLOW'],
        {'name': 'keydoor', 'shape': [7, 5]},
        ['move_agent', 'turn_agent', 'actuate_door', 'pickndrop'],
        KEYDOOR_REWARDS,
        {'name': 'reach_exit'},
        observation={'name': 'fully_transparent', 'area': [[-6, 0], [-3, 3]]},
        actions=list(reversed(ALL_ACTIONS)),
    ),
    'crossing.5x9.one_river': _config(
        ['Wall', 'Floor', 'Exit'],
        ['NONE'],
        {
            'name': 'crossing',
            'shape': [5, 9],
            'num_rivers': 1,
            'object_type': 'Wall',
        },
        ['move_agent', 'turn_agent'],
        EXIT_REWARDS,
        {'name': 'reach_exit'},
        observation={'name': 'partially_occluded', 'area': [[0, 0], [0, 0]]},
    ),
    'memory.5x7': _config(
        ['Wall', 'Floor', 'Exit', 'Beacon'],
        MEMORY_COLORS,
        {'name': 'memory', 'shape': [5, 7], 'colors': ['GREEN', 'RED']},
        ['move_agent', 'turn_agent'],
        MEMORY_REWARDS,
        {'name': 'reach_exit'},
    ),
    'teleport.7x9': _config(
        ['Wall', 'Floor', 'Exit', 'Telepod'],
        ['NONE', 'RED'],
        {'name': 'teleport', 'shape': [7, 9]},
        ['move_agent', 'turn_agent', 'teleport'],
        EXIT_REWARDS,
        {'name': 'reach_exit'},
    ),
}


# independent assembly ------------------------------------------------------

NUM_POSITIONAL = {kind: n for kind, (_, _, n) in KINDS.items()}
MODULES = {kind: module for kind, (module, _, _) in KINDS.items()}


def hand_value(key, value):
    if key == 'shape':
        height, width = value
        return Shape(height, width)
    if key == 'layout':
        return (value[0], value[1])
    if key == 'area':
        ys, xs = value
        return Area((ys[0], ys[1]), (xs[0], xs[1]))
    if key == 'object_type':
        return getattr(grid_object_module, value)
    if key == 'colors':
        return set([getattr(Color, name) for name in value])
    if key == 'distance_function':
        return {
            'manhattan': Position.manhattan_distance,
            'euclidean': Position.euclidean_distance,
        }[value]
    if key == 'transition_functions':
        return [hand_component('transition', d) for d in value]
    if key == 'reward_functions':
        return [hand_component('reward', d) for d in value]
    if key == 'terminating_functions':
        return [hand_component('terminating', d) for d in value]
    if key == 'reward_function':
        return hand_component('reward', value)
    if key == 'visibility_function':
        return hand_component('visibility', value)
    return value


def hand_component(kind, data):
    function = getattr(MODULES[kind], data['name'])
    required, optional = independent_keys(function, NUM_POSITIONAL[kind])
    kwargs = {
        key: hand_value(key, value)
        for key, value in data.items()
        if key in required or key in optional
    }
    assert all(key in kwargs for key in required)

    def component(*args, **more):
        return function(*args, **kwargs, **more)

    return component


def hand_env(data):
    reset_function = hand_component('reset', data['reset_function'])
    transitions = [
        hand_component('transition', d) for d in data['transition_functions']
    ]
    rewards = [hand_component('reward', d) for d in data['reward_functions']]
    observation_function = hand_component(
        'observation', data['observation_function']
    )
    terminating_function = hand_component(
        'terminating', data['terminating_function']
    )

    def transition_function(state, action, *, rng=None):
        for transition in transitions:
            transition(state, action, rng=rng)

    def reward_function(state, action, next_state, *, rng=None):
        return sum(r(state, action, next_state, rng=rng) for r in rewards)

    state = reset_function()
    observation = observation_function(state)
    objects = [
        getattr(grid_object_module, name)
        for name in data['state_space']['objects']
    ]
    colors = [Color[name] for name in data['state_space']['colors']]
    o_objects = [
        getattr(grid_object_module, name)
        for name in data['observation_space']['objects']
    ]
    o_colors = [Color[name] for name in data['observation_space']['colors']]
    actions = (
        [Action[name] for name in data['action_space']]
        if 'action_space' in data
        else list(Action)
    )
    return GridWorld(
        StateSpace(state.grid.shape, objects, colors),
        ActionSpace(actions),
        ObservationSpace(observation.grid.shape, o_objects, o_colors),
        reset_function,
        transition_function,
        observation_function,
        reward_function,
        terminating_function,
    )


# fingerprints --------------------------------------------------------------


def fp_object(obj):
    return (type(obj).__name__, obj.state_index, obj.color.name)


def fp_grid(grid):
    return (
        grid.shape.height,
        grid.shape.width,
        tuple(
            fp_object(grid[Position(y, x)])
            for y in range(grid.shape.height)
            for x in range(grid.shape.width)
        ),
    )


def fp_agent(agent):
    return (
        agent.position.y,
        agent.position.x,
        agent.orientation.name,
        fp_object(agent.grid_object),
    )


def fp(state_or_observation):
    return (fp_grid(state_or_observation.grid), fp_agent(state_or_observation.agent))


def fp_spaces(env):
    return (
        (env.state_space.grid_shape.height, env.state_space.grid_shape.width),
        [t.__name__ for t in env.state_space.object_types],
        sorted(c.name for c in env.state_space.colors),
        [a.name for a in env.action_space.actions],
        (
            env.observation_space.grid_shape.height,
            env.observation_space.grid_shape.width,
        ),
        [t.__name__ for t in env.observation_space.object_types],
        sorted(c.name for c in env.observation_space.colors),
    )


def rollout(env, seed, actions):
    env.set_seed(seed)
    env.reset()
    trace = [(fp(env.state), fp(env.observation))]
    for action in actions:
        reward, done = env.step(action)
        trace.append((fp(env.state), fp(env.observation), reward, done))
        if done:
            env.reset()
            trace.append((fp(env.state), fp(env.observation)))
    return trace


def check_configs(seeds, num_steps):
    num_steps_total = 0
    for config_name, data in CONFIGS.items():
        pristine = copy.deepcopy(data)

        reset_gv_rng(1234)
        env_1 = yaml_factory.factory_env_from_data(data)
        assert data == pristine, config_name
        reset_gv_rng(1234)
        env_2 = yaml_factory.factory_env_from_data(data)
        assert data == pristine, config_name
        reset_gv_rng(1234)
        env_hand = hand_env(pristine)
        assert data == pristine, config_name

        assert isinstance(env_1, GridWorld)
        assert fp_spaces(env_1) == fp_spaces(env_2) == fp_spaces(env_hand), (
            config_name,
            fp_spaces(env_1),
            fp_spaces(env_hand),
        )
        shape = data['reset_function']['shape']
        assert fp_spaces(env_1)[0] == tuple(shape)

        action_list = env_hand.action_space.actions
        for seed in seeds:
            chooser = random.Random(f'{config_name}-{seed}')
            actions = [chooser.choice(action_list) for _ in range(num_steps)]
            trace_hand = rollout(env_hand, seed, actions)
            trace_1 = rollout(env_1, seed, actions)
            trace_2 = rollout(env_2, seed, actions)
            assert trace_1 == trace_hand, (config_name, seed)
            assert trace_2 == trace_hand, (config_name, seed)
            num_steps_total += num_steps
        assert data == pristine, config_name
    return num_steps_total


# ---------------------------------------------------------------------------
# 4.  corrupted configurations are rejected (before and after good builds)
# ---------------------------------------------------------------------------


def corrupted(data, path, value):
    data = copy.deepcopy(data)
    target = data
    for key in path[:-1]:
        target = target[key]
    if value is KeyError:
        del target[path[-1]]
    else:
        target[path[-1]] = value
    return data


def check_corruptions():
    num = 0
    for config_name, data in CONFIGS.items():
        cases = [
            # unknown component names
            (('reset_function', 'name'), 'no_such_reset', ValueError),
            (('reset_function', 'name'), 'Empty', ValueError),
            (('transition_functions', 0, 'name'), 'move_agents', ValueError),
            (('reward_functions', 0, 'name'), 'reach_exits', ValueError),
            (('observation_function', 'name'), 'occluded', ValueError),
            (('terminating_function', 'name'), 'reach_exit_', ValueError),
            (('reset_function', 'name'), 7, SchemaError),
            (('reset_function', 'name'), KeyError, SchemaError),
            (('terminating_function', 'name'), KeyError, SchemaError),
            # missing required parameters
            (('reset_function', 'shape'), KeyError, ValueError),
            (('observation_function', 'area'), KeyError, ValueError),
            # malformed shapes
            (('reset_function', 'shape'), [5], SchemaError),
            (('reset_function', 'shape'), [5, 5, 5], SchemaError),
            (('reset_function', 'shape'), [5, -5], SchemaError),
            (('reset_function', 'shape'), [0, 5], SchemaError),
            (('reset_function', 'shape'), [5, 'x'], SchemaError),
            (('reset_function', 'shape'), [5.0, 5], SchemaError),
            (('reset_function', 'shape'), '5x5', SchemaError),
            (('reset_function', 'shape'), 5, SchemaError),
            # malformed colours
            (('state_space', 'colors'), ['NONE', 'PURPLE'], SchemaError),
            (('state_space', 'colors'), ['none'], SchemaError),
            (('state_space', 'colors'), [], SchemaError),
            (('state_space', 'colors'), ['NONE', 'NONE'], SchemaError),
            (('observation_space', 'colors'), 'NONE', SchemaError),
            (('observation_space', 'colors'), [3], SchemaError),
            (('reset_function', 'colors'), ['RED', 'MAUVE'], SchemaError),
            # malformed actions
            (('action_space',), ['MOVE_FORWARD', 'JUMP'], SchemaError),
            (('action_space',), ['move_forward'], SchemaError),
            (('action_space',), [], SchemaError),
            (('action_space',), ['TURN_LEFT', 'TURN_LEFT'], SchemaError),
            (('action_space',), 'TURN_LEFT', SchemaError),
            (('action_space',), [0, 1], SchemaError),
            # malformed structure
            (('transition_functions',), [], SchemaError),
            (('reward_functions',), {'name': 'living_reward'}, SchemaError),
            (('state_space', 'objects'), [], SchemaError),
            (('state_space', 'objects'), ['Wall', 'Wall'], SchemaError),
            (('state_space', 'objects'), ['Wall', 'Lava'], ValueError),
            (('state_space',), KeyError, SchemaError),
            (('reset_function',), KeyError, SchemaError),
            (('unknown_section',), {'name': 'x'}, SchemaError),
        ]
        for path, value, exception in cases:
            bad = corrupted(data, path, value)
            bad_before = copy.deepcopy(bad)
            for _ in range(2):
                reset_gv_rng(0)
                try:
                    yaml_factory.factory_env_from_data(bad)
                except (SchemaError, ValueError) as error:
                    assert isinstance(error, SchemaError) == (
                        exception is SchemaError
                    ), (config_name, path, value, repr(error))
                else:
                    raise AssertionError((config_name, path, value))
                assert bad == bad_before
                num += 1
    return num


def main():
    # corruptions first (nothing has been built yet), then everything, then
    # everything again in the same process
    n_bad = check_corruptions()
    n_components = check_components(rounds=2)
    check_runtime_registrations()
    n_steps = check_configs(seeds=[0, 1, 2, 3, 5, 8, 13, 2**31 - 1], num_steps=60)
    n_bad += check_corruptions()
    n_components += check_components(rounds=1)
    check_runtime_registrations()
    n_steps += check_configs(seeds=[4, 21], num_steps=40)
    print(
        f'OK: {n_components} component checks, {len(CONFIGS)} configurations, '
        f'{n_steps} compared steps, {n_bad} rejected corruptions'
    )


if __name__ == '__main__':
    main()
