"""Demo for change A (ray helpers of gym_gridverse/utils/raytracing.py).

Run from the worktree root:  /venv/bin/python _seed/A/demo.py

Exits 0 on the pristine tree and with the patch applied.  It checks

1. that `compute_ray`, `compute_rays`, `compute_rays_fancy` (and their cached
   variants) return exactly the rays of a reference implementation embedded
   here (a transcription of the pristine generator pipeline), plus a few
   hard-coded rays and digests;
2. property C06 (hidden cells carry no information; occlusion is monotone) on
   the observation functions built on top of those rays, and on the
   partially-occluded one for good measure.
"""
import hashlib
import itertools as itt
import math
import os
import random
import sys

import numpy as np

# the script is run from the worktree root: import the worktree's package
sys.path.insert(
    0, os.path.dirname(os.path.dirname(os.path.dirname(os.path.abspath(__file__))))
)

from gym_gridverse.agent import Agent
from gym_gridverse.envs import observation_functions as of
from gym_gridverse.envs import visibility_functions as vf
from gym_gridverse.geometry import Area, Orientation, Position
from gym_gridverse.grid import Grid
from gym_gridverse.grid_object import (
    Beacon,
    Box,
    Color,
    Door,
    Exit,
    Floor,
    Hidden,
    Key,
    MovingObstacle,
    Telepod,
    Wall,
)
from gym_gridverse.state import State
from gym_gridverse.utils import raytracing as rt

CHECKS = 0


def check(condition, message):
    global CHECKS
    CHECKS += 1
    if not condition:
        print(f'FAIL: {message}')
        sys.exit(1)


# ---------------------------------------------------------------------------
# reference implementation of the ray helpers (pristine semantics)
# ---------------------------------------------------------------------------


def ref_compute_ray(position, area, *, radians, step_size, unique=True):
    if not area.contains(position):
        raise ValueError('position outside area')

    y0, x0 = float(position.y), float(position.x)
    dy = step_size * math.sin(radians)
    dx = step_size * math.cos(radians)

    ys = (y0 + i * dy for i in itt.count())
    xs = (x0 + i * dx for i in itt.count())
    positions = (Position(round(y), round(x)) for y, x in zip(ys, xs))
    positions = list(itt.takewhile(area.contains, positions))
    if unique:
        # order-preserving removal of duplicates
        positions = list(dict.fromkeys(positions))
    return positions


def ref_compute_rays(position, area):
    radians_over_degrees = math.pi / 180.0
    return [
        ref_compute_ray(
            position, area, radians=deg * radians_over_degrees, step_size=0.01
        )
        for deg in range(360)
    ]


def ref_compute_rays_fancy(position, area):
    ys = np.linspace(area.ymin, area.ymax + 1, num=area.height + 1) - 0.5
    xs = np.linspace(area.xmin, area.xmax + 1, num=area.width + 1) - 0.5
    ys = ys - position.y
    xs = xs - position.x
    yys, xxs = np.meshgrid(ys, xs)
    radians = np.arctan2(yys, xxs)
    radians = np.sort(radians, axis=None)
    return [
        ref_compute_ray(position, area, radians=rad, step_size=0.01)
        for rad in radians
    ]


def digest(rays):
    text = repr([[p.yx for p in ray] for ray in rays])
    return hashlib.sha256(text.encode()).hexdigest()[:16]


def check_rays():
    P = Position

    # hard-coded rays
    area = Area((0, 0), (0, 3))
    check(
        rt.compute_ray(P(0, 0), area, radians=0.0, step_size=0.01)
        == [P(0, 0), P(0, 1), P(0, 2), P(0, 3)],
        'ray along +x',
    )
    check(
        rt.compute_ray(P(0, 3), area, radians=math.pi, step_size=0.01)
        == [P(0, 3), P(0, 2), P(0, 1), P(0, 0)],
        'ray along -x',
    )
    check(
        rt.compute_ray(P(0, 0), area, radians=math.pi / 2, step_size=0.01)
        == [P(0, 0)],
        'ray leaving the area at once',
    )
    check(
        rt.compute_ray(
            P(1, 1), Area((0, 3), (0, 3)), radians=math.pi / 4, step_size=0.01
        )
        == [P(1, 1), P(2, 2), P(3, 3)],
        'diagonal ray',
    )
    check(
        rt.compute_ray(
            P(0, 0),
            Area((0, 0), (0, 1)),
            radians=0.0,
            step_size=0.4,
            unique=False,
        )
        == [P(0, 0), P(0, 0), P(0, 1), P(0, 1)],
        'non-unique ray keeps duplicates',
    )
    check(
        rt.compute_ray(
            P(-1, -1),
            Area((-2, -1), (-3, -1)),
            radians=math.pi,
            step_size=0.5,
            unique=True,
        )
        == [P(-1, -1), P(-1, -2), P(-1, -3)],
        'area with negative coordinates',
    )

    # positions outside the area are rejected by all helpers
    for function in [
        lambda p, a: rt.compute_ray(p, a, radians=0.0, step_size=0.01),
        rt.compute_rays,
        rt.compute_rays_fancy,
    ]:
        for position, area in [
            (P(0, 4), Area((0, 0), (0, 3))),
            (P(-1, 0), Area((0, 2), (0, 2))),
            (P(3, 3), Area((0, 2), (0, 5))),
        ]:
            try:
                function(position, area)
            except ValueError:
                check(True, 'ValueError raised')
            else:
                check(False, f'no ValueError for {position} in {area}')

    # against the reference, single rays
    rng = random.Random(0)
    areas = [
        Area((0, 0), (0, 0)),
        Area((0, 0), (0, 5)),
        Area((0, 4), (0, 0)),
        Area((0, 2), (0, 4)),
        Area((0, 6), (0, 6)),
        Area((-3, 0), (-2, 2)),
        Area((-1, 4), (-5, 1)),
        Area((2, 5), (3, 9)),
    ]
    for area in areas:
        positions = list(area.positions())
        corners = [
            P(area.ymin, area.xmin),
            P(area.ymin, area.xmax),
            P(area.ymax, area.xmin),
            P(area.ymax, area.xmax),
        ]
        for position in corners + rng.sample(positions, min(3, len(positions))):
            for _ in range(12):
                radians = rng.choice(
                    [
                        rng.uniform(-7.0, 7.0),
                        rng.randrange(-8, 9) * math.pi / 4,
                        math.radians(rng.randrange(360)),
                    ]
                )
                step_size = rng.choice([0.01, 0.1, 0.3, 0.5, 1.0, 1.7])
                for unique in [True, False]:
                    got = rt.compute_ray(
                        position,
                        area,
                        radians=radians,
                        step_size=step_size,
                        unique=unique,
                    )
                    expected = ref_compute_ray(
                        position,
                        area,
                        radians=radians,
                        step_size=step_size,
                        unique=unique,
                    )
                    check(
                        got == expected and isinstance(got, list),
                        f'compute_ray {position} {area} {radians} {step_size} {unique}',
                    )
                    check(got[0] == position, 'ray starts at the position')
                    if unique:
                        check(len(set(got)) == len(got), 'unique positions')

    # negative step size (legal, walks the other way)
    got = rt.compute_ray(P(0, 0), Area((0, 0), (0, 3)), radians=math.pi, step_size=-0.01)
    check(got == [P(0, 0), P(0, 1), P(0, 2), P(0, 3)], 'negative step size')

    # against the reference, sets of rays (repeated calls, cached variants)
    for area in areas[:7]:
        positions = list(area.positions())
        chosen = {
            P(area.ymin, area.xmin),
            P(area.ymax, area.xmax),
            P(area.ymax, (area.xmin + area.xmax) // 2),
            rng.choice(positions),
        }
        for position in sorted(chosen, key=lambda p: p.yx):
            expected = ref_compute_rays(position, area)
            check(len(expected) == 360, '360 rays')
            check(rt.compute_rays(position, area) == expected, 'compute_rays')
            check(
                rt.cached_compute_rays(position, area) == expected,
                'cached_compute_rays',
            )
            check(
                rt.cached_compute_rays(position, area) == expected,
                'cached_compute_rays (second call)',
            )

            expected = ref_compute_rays_fancy(position, area)
            check(
                len(expected) == (area.height + 1) * (area.width + 1),
                'one fancy ray per cell corner',
            )
            check(
                rt.compute_rays_fancy(position, area) == expected,
                'compute_rays_fancy',
            )
            check(
                rt.compute_rays_fancy(position, area) == expected,
                'compute_rays_fancy (second call)',
            )
            check(
                rt.cached_compute_rays_fancy(position, area) == expected,
                'cached_compute_rays_fancy',
            )
            # every cell of the area is reached by some fancy ray
            reached = {p for ray in expected for p in ray}
            check(reached == set(positions), 'fancy rays cover the area')

    # hard-coded digests (computed on the pristine tree)
    expected_digests = EXPECTED_DIGESTS
    got_digests = {
        'rays 7x7 bottom-center': digest(
            rt.compute_rays(P(6, 3), Area((0, 6), (0, 6)))
        ),
        'fancy 7x7 bottom-center': digest(
            rt.compute_rays_fancy(P(6, 3), Area((0, 6), (0, 6)))
        ),
        'fancy 3x5 corner': digest(
            rt.compute_rays_fancy(P(0, 4), Area((0, 2), (0, 4)))
        ),
        'fancy negative area': digest(
            rt.compute_rays_fancy(P(0, 0), Area((-3, 1), (-1, 2)))
        ),
    }
    if expected_digests is None:
        print(got_digests)
    else:
        check(got_digests == expected_digests, f'digests {got_digests}')


EXPECTED_DIGESTS = {
    'rays 7x7 bottom-center': '4626d5a9d86d1c01',
    'fancy 7x7 bottom-center': '26812fb35a9f7b4f',
    'fancy 3x5 corner': 'ff94c831815c9b0a',
    'fancy negative area': '64cfaa1e17627dce',
}


# ---------------------------------------------------------------------------
# property C06
# ---------------------------------------------------------------------------

COLORS = list(Color)


def object_pool():
    return [
        Floor,
        Floor,
        Floor,
        Wall,
        Wall,
        lambda: Exit(),
        lambda: Exit(Color.NONE),
        lambda: Door(Door.Status.OPEN, Color.RED),
        lambda: Door(Door.Status.CLOSED, Color.NONE),
        lambda: Door(Door.Status.LOCKED, Color.BLUE),
        lambda: Key(Color.YELLOW),
        lambda: Key(Color.NONE),
        MovingObstacle,
        lambda: Box(Key(Color.GREEN)),
        lambda: Box(Wall()),
        lambda: Telepod(Color.RED),
        lambda: Beacon(Color.NONE),
    ]


def replacement_objects():
    return [
        Floor(),
        Wall(),
        Door(Door.Status.OPEN, Color.GREEN),
        Door(Door.Status.LOCKED, Color.NONE),
        Key(Color.NONE),
        Box(Floor()),
        Exit(Color.NONE),
    ]


def object_key(obj):
    return (type(obj).__name__, obj.state_index, obj.color, repr(obj))


def grid_keys(grid):
    return [[object_key(obj) for obj in row] for row in grid.objects]


def same_observation(a, b):
    return (
        a == b
        and a.grid.shape == b.grid.shape
        and grid_keys(a.grid) == grid_keys(b.grid)
        and a.agent.position == b.agent.position
        and a.agent.orientation == b.agent.orientation
        and object_key(a.agent.grid_object) == object_key(b.agent.grid_object)
    )


def random_grid(rng, height, width, opaque_bias):
    pool = object_pool()
    objects = []
    for _ in range(height):
        row = []
        for _ in range(width):
            if rng.random() < opaque_bias:
                row.append(Wall())
            else:
                row.append(rng.choice(pool)())
        objects.append(row)
    return Grid(objects)


def copy_grid(grid):
    return Grid([list(row) for row in grid.objects])


# reference visibility / observation functions (pristine semantics, on top of
# the reference rays above)


def ref_partially_occluded(grid, position):
    if position.y != grid.shape.height - 1:
        raise NotImplementedError

    def flood(next_positions):
        visibility = np.zeros((grid.shape.height, grid.shape.width), dtype=bool)

        def visit(p):
            if grid.area.contains(p) and not visibility[p.y, p.x]:
                visibility[p.y, p.x] = True
                if not grid[p].blocks_vision:
                    for q in next_positions(p):
                        visit(q)

        visit(position)
        return visibility

    left = flood(
        lambda p: [
            Position(p.y - 1, p.x),
            Position(p.y, p.x - 1),
            Position(p.y - 1, p.x - 1),
        ]
    )
    right = flood(
        lambda p: [
            Position(p.y - 1, p.x),
            Position(p.y, p.x + 1),
            Position(p.y - 1, p.x + 1),
        ]
    )
    return left | right


REF_RAYS_CACHE = {}


def ref_rays(position, area):
    key = (position, area)
    if key not in REF_RAYS_CACHE:
        REF_RAYS_CACHE[key] = ref_compute_rays_fancy(position, area)
    return REF_RAYS_CACHE[key]


def ref_counts(grid, position):
    counts_num = np.zeros((grid.shape.height, grid.shape.width), dtype=int)
    counts_den = np.zeros((grid.shape.height, grid.shape.width), dtype=int)
    for ray in ref_rays(position, grid.area):
        light = True
        for pos in ray:
            counts_num[pos.y, pos.x] += int(light)
            counts_den[pos.y, pos.x] += 1
            light = light and not grid[pos].blocks_vision
    return counts_num, counts_den


def ref_raytracing(grid, position):
    counts_num, _ = ref_counts(grid, position)
    return counts_num >= 1


REF_VISIBILITY = {
    'partially_occluded': ref_partially_occluded,
    'raytracing': ref_raytracing,
}


def ref_observation(state, area, name):
    pov_area = state.agent.transform * area
    pov_agent_position = Position(-area.ymin, -area.xmin)
    observation_grid = state.grid.subgrid(pov_area) * state.agent.orientation
    visibility = REF_VISIBILITY[name](observation_grid, pov_agent_position)
    for pos in observation_grid.area.positions():
        if not visibility[pos.y, pos.x]:
            observation_grid[pos] = Hidden()
    from gym_gridverse.observation import Observation

    return Observation(
        observation_grid,
        Agent(pov_agent_position, Orientation.F, state.agent.grid_object),
    )


NEIGHBOURS = [
    (dy, dx) for dy in (-1, 0, 1) for dx in (-1, 0, 1) if (dy, dx) != (0, 0)
]


def check_chain(grid, position, visibility, label):
    """visible => linked to the agent by adjacent transparent visible cells"""
    height, width = visibility.shape
    check(bool(visibility[position.y, position.x]), f'{label}: agent cell visible')
    reached = {position.yx}
    frontier = [position.yx]
    while frontier:
        y, x = frontier.pop()
        # only transparent visible cells carry the chain (an opaque agent cell
        # means nothing beyond it can be seen)
        if grid[y, x].blocks_vision:
            continue
        for dy, dx in NEIGHBOURS:
            yy, xx = y + dy, x + dx
            if (
                0 <= yy < height
                and 0 <= xx < width
                and visibility[yy, xx]
                and (yy, xx) not in reached
            ):
                reached.add((yy, xx))
                frontier.append((yy, xx))
    visible = {(int(y), int(x)) for y, x in zip(*np.nonzero(visibility))}
    check(visible == reached, f'{label}: visible cells are chained to the agent')


def check_monotone(function, grid, position, visibility, label):
    """making a visible opaque cell transparent never hides a visible cell"""
    for y, x in zip(*np.nonzero(visibility)):
        y, x = int(y), int(x)
        if grid[y, x].blocks_vision:
            modified = copy_grid(grid)
            modified[y, x] = Floor()
            new_visibility = function(modified, position)
            check(
                bool(np.all(new_visibility[visibility])),
                f'{label}: monotone when opening ({y}, {x})',
            )


OBSERVATION_FUNCTIONS = {
    'partially_occluded': of.partially_occluded,
    'raytracing': of.raytracing,
}
VISIBILITY_FUNCTIONS = {
    'partially_occluded': vf.partially_occluded,
    'raytracing': vf.raytracing,
}

AREAS = {
    'partially_occluded': [
        Area((0, 0), (0, 0)),
        Area((-2, 0), (-1, 1)),
        Area((-3, 0), (-1, 3)),
        Area((-4, 0), (0, 0)),
        Area((0, 0), (-3, 2)),
        Area((-6, 0), (-3, 3)),
        Area((-2, 0), (0, 2)),
    ],
    'raytracing': [
        Area((0, 0), (0, 0)),
        Area((-2, 0), (-1, 1)),
        Area((-3, 0), (-1, 3)),
        Area((-2, 2), (-2, 2)),
        Area((-3, 1), (-1, 2)),
        Area((0, 2), (0, 3)),
        Area((-6, 0), (-3, 3)),
    ],
}


def check_state(rng, state, area, name):
    label = f'{name} {state.grid.shape} {state.agent.transform} {area}'
    observation_function = OBSERVATION_FUNCTIONS[name]
    visibility_function = VISIBILITY_FUNCTIONS[name]

    observation = observation_function(state, area=area)
    check(
        same_observation(observation, ref_observation(state, area, name)),
        f'{label}: observation equals reference',
    )
    check(
        same_observation(observation, observation_function(state, area=area)),
        f'{label}: repeated call',
    )
    check(
        observation.grid.shape.as_tuple == (area.height, area.width),
        f'{label}: observation shape',
    )

    pov_agent_position = Position(-area.ymin, -area.xmin)
    check(
        observation.agent.position == pov_agent_position
        and observation.agent.orientation is Orientation.F,
        f'{label}: observation agent',
    )
    check(
        not isinstance(observation.grid[pov_agent_position], Hidden),
        f'{label}: own cell is visible',
    )

    # the input of the visibility function, and the visibility itself
    pov_grid = state.grid.subgrid(state.agent.transform * area) * state.agent.orientation
    visibility = visibility_function(pov_grid, pov_agent_position)
    check(
        visibility.dtype == bool
        and visibility.shape == (area.height, area.width),
        f'{label}: visibility array',
    )
    check(
        bool(np.array_equal(visibility, REF_VISIBILITY[name](pov_grid, pov_agent_position))),
        f'{label}: visibility equals reference',
    )
    for pos in pov_grid.area.positions():
        expected = pov_grid[pos] if visibility[pos.y, pos.x] else Hidden()
        check(
            object_key(observation.grid[pos]) == object_key(expected),
            f'{label}: cell {pos} shown iff visible',
        )

    check_chain(pov_grid, pov_agent_position, visibility, label)
    check_monotone(visibility_function, pov_grid, pov_agent_position, visibility, label)

    # non-interference: world cells which are hidden or out of view
    shown = set()
    for pos in observation.grid.area.positions():
        if not isinstance(observation.grid[pos], Hidden):
            world = state.agent.transform * Position(
                pos.y + area.ymin, pos.x + area.xmin
            )
            check(state.grid.area.contains(world), f'{label}: shown cell in grid')
            check(
                object_key(state.grid[world]) == object_key(observation.grid[pos]),
                f'{label}: shown cell shows the world cell',
            )
            shown.add(world)

    replacements = replacement_objects()
    for world in state.grid.area.positions():
        if world in shown:
            continue
        for replacement in [Floor(), Wall(), rng.choice(replacements)]:
            modified_grid = copy_grid(state.grid)
            modified_grid[world] = replacement
            modified_state = State(modified_grid, state.agent)
            check(
                same_observation(
                    observation, observation_function(modified_state, area=area)
                ),
                f'{label}: replacing unseen {world} by {replacement} changes nothing',
            )


def check_random_states():
    rng = random.Random(6)
    shapes = [(1, 1), (1, 6), (5, 1), (3, 5), (6, 4), (7, 7), (2, 2)]
    for name in ['partially_occluded', 'raytracing']:
        for height, width in shapes:
            grid_area = Area((0, height - 1), (0, width - 1))
            agent_positions = {
                Position(0, 0),
                Position(0, width - 1),
                Position(height - 1, 0),
                Position(height - 1, width - 1),
                Position(height // 2, width // 2),
                Position(rng.randrange(height), rng.randrange(width)),
            }
            for opaque_bias in [0.0, 0.25]:
                grid = random_grid(rng, height, width, opaque_bias)
                for agent_position in sorted(agent_positions, key=lambda p: p.yx):
                    check(grid_area.contains(agent_position), 'agent in grid')
                    for orientation in [
                        Orientation.F,
                        Orientation.B,
                        Orientation.L,
                        Orientation.R,
                    ]:
                        held = rng.choice([None, Key(Color.NONE), Key(Color.RED)])
                        agent = Agent(agent_position, orientation, held)
                        state = State(grid, agent)
                        for area in rng.sample(AREAS[name], 2):
                            check_state(rng, state, area, name)


def check_exhaustive_small_views():
    """all opacity patterns of small views"""
    cases = [
        ('partially_occluded', (3, 3), Position(2, 1)),
        ('partially_occluded', (3, 3), Position(2, 0)),
        ('partially_occluded', (2, 4), Position(1, 2)),
        ('partially_occluded', (4, 2), Position(3, 1)),
        ('raytracing', (3, 3), Position(2, 1)),
        ('raytracing', (3, 3), Position(1, 1)),
        ('raytracing', (3, 3), Position(0, 2)),
        ('raytracing', (2, 4), Position(1, 2)),
        ('raytracing', (4, 2), Position(0, 0)),
    ]
    for name, (height, width), position in cases:
        function = VISIBILITY_FUNCTIONS[name]
        reference = REF_VISIBILITY[name]
        cells = [(y, x) for y in range(height) for x in range(width)]
        visibilities = {}
        for pattern in itt.product([False, True], repeat=len(cells)):
            grid = Grid(
                [
                    [
                        Wall() if pattern[y * width + x] else Floor()
                        for x in range(width)
                    ]
                    for y in range(height)
                ]
            )
            visibility = function(grid, position)
            label = f'exhaustive {name} {height}x{width} {position} {pattern}'
            check(
                bool(np.array_equal(visibility, reference(grid, position))),
                f'{label}: equals reference',
            )
            check_chain(grid, position, visibility, label)
            visibilities[pattern] = visibility

        # monotone: clearing one visible opaque cell
        for pattern, visibility in visibilities.items():
            for index, (y, x) in enumerate(cells):
                if pattern[index] and visibility[y, x]:
                    opened = pattern[:index] + (False,) + pattern[index + 1 :]
                    check(
                        bool(np.all(visibilities[opened][visibility])),
                        f'exhaustive {name} {pattern}: monotone at {(y, x)}',
                    )
                # hidden cells carry no information
                if not visibility[y, x]:
                    flipped = (
                        pattern[:index]
                        + (not pattern[index],)
                        + pattern[index + 1 :]
                    )
                    check(
                        bool(np.array_equal(visibilities[flipped], visibility)),
                        f'exhaustive {name} {pattern}: hidden {(y, x)} irrelevant',
                    )


def check_stochastic_bounds():
    rng = random.Random(66)
    for height, width in [(1, 1), (1, 5), (4, 3), (5, 5), (3, 7)]:
        for _ in range(4):
            grid = random_grid(rng, height, width, rng.choice([0.0, 0.3]))
            position = Position(rng.randrange(height), rng.randrange(width))
            counts_num, counts_den = ref_counts(grid, position)
            check(bool(np.all(counts_den > 0)), 'every cell is on some ray')
            may_show = counts_num >= 1
            must_show = counts_num == counts_den
            check(
                bool(np.array_equal(may_show, vf.raytracing(grid, position))),
                'deterministic ray-traced view',
            )
            for seed in range(8):
                visibility = vf.stochastic_raytracing(
                    grid, position, rng=np.random.default_rng(seed)
                )
                check(
                    bool(np.all(may_show[visibility])),
                    'stochastic view only shows what raytracing can show',
                )
                check(
                    bool(np.all(visibility[must_show])),
                    'stochastic view shows cells every ray reaches lit',
                )
                again = vf.stochastic_raytracing(
                    grid, position, rng=np.random.default_rng(seed)
                )
                check(bool(np.array_equal(visibility, again)), 're-seeding')

            # through the observation function as well
            agent = Agent(position, rng.choice(list(Orientation)))
            state = State(grid, agent)
            area = rng.choice(AREAS['raytracing'])
            deterministic = of.raytracing(state, area=area)
            for seed in range(4):
                stochastic = of.stochastic_raytracing(
                    state, area=area, rng=np.random.default_rng(seed)
                )
                for pos in stochastic.grid.area.positions():
                    if isinstance(deterministic.grid[pos], Hidden):
                        check(
                            isinstance(stochastic.grid[pos], Hidden),
                            'stochastic observation within deterministic one',
                        )


def main():
    check_rays()
    check_random_states()
    check_exhaustive_small_views()
    check_stochastic_bounds()
    print(f'OK ({CHECKS} checks)')


if __name__ == '__main__':
    main()
