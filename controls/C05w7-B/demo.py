"""Check program for commit B (Grid.subgrid gets an optional `factory`
keyword, new method Grid.view(pose, area), used by from_visibility).

Run as:  cd /tmp/wt7-C05 && /venv/bin/python -W ignore _seed/B/demo.py

Part 1-4: the observation functions (which now go through Grid.view) are
compared with an independent re-implementation written in this file on plain
lists (slice the world with Hidden padding, rotate the slice, mask), and with
the geometric statement of the property (every shown cell IS the object of the
world cell obtained by placing the view at the agent's pose).
Part 5: Grid.subgrid (positional call, as every existing caller does) against
the same reference;  when the new keyword / method exist (commit applied) they
are checked too, otherwise that part is skipped, such that this program exits
0 both on the clean tree and with the commit applied.
"""
import inspect
import itertools
import os
import sys

sys.path.insert(0, os.getcwd())

import numpy as np  # noqa: E402

from gym_gridverse.action import Action  # noqa: E402
from gym_gridverse.agent import Agent  # noqa: E402
from gym_gridverse.envs import observation_functions as ofs  # noqa: E402
from gym_gridverse.envs import visibility_functions as vfs  # noqa: E402
from gym_gridverse.envs.yaml.factory import (  # noqa: E402
    factory_env_from_data,
    factory_observation_function,
)
from gym_gridverse.geometry import Area, Orientation, Position  # noqa: E402
from gym_gridverse.grid import Grid  # noqa: E402
from gym_gridverse.grid_object import (  # noqa: E402
    Box,
    Color,
    Door,
    Exit,
    Floor,
    Hidden,
    Key,
    MovingObstacle,
    Wall,
)
from gym_gridverse.observation import Observation  # noqa: E402
from gym_gridverse.rng import make_rng  # noqa: E402
from gym_gridverse.state import State  # noqa: E402

CHECKS = 0


def check(condition, *info):
    global CHECKS
    CHECKS += 1
    if not condition:
        raise AssertionError(info)


# ---------------------------------------------------------------------------
# independent reference (plain lists, no Grid.subgrid, no Grid.__mul__)
# ---------------------------------------------------------------------------


def ref_world_cell(position, orientation, area, i, j):
    """world (y, x) shown by cell (i, j) of the view: pose applied to the point"""
    y, x = area.ys[0] + i, area.xs[0] + j  # point in the agent's frame
    if orientation is Orientation.F:
        dy, dx = y, x
    elif orientation is Orientation.B:
        dy, dx = -y, -x
    elif orientation is Orientation.R:
        dy, dx = x, -y
    elif orientation is Orientation.L:
        dy, dx = -x, y
    else:
        raise AssertionError
    return position.y + dy, position.x + dx


def ref_view_rows(state, area):
    """the way the library did it: slice with padding, then rotate the slice"""
    ymin, ymax = area.ys
    xmin, xmax = area.xs
    o = state.agent.orientation
    if o is Orientation.F:
        rys, rxs = (ymin, ymax), (xmin, xmax)
    elif o is Orientation.B:
        rys, rxs = (-ymax, -ymin), (-xmax, -xmin)
    elif o is Orientation.R:
        rys, rxs = (xmin, xmax), (-ymax, -ymin)
    else:
        rys, rxs = (-xmax, -xmin), (ymin, ymax)
    py, px = state.agent.position.y, state.agent.position.x
    H, W = len(state.grid.objects), len(state.grid.objects[0])
    rows = []
    for y in range(py + rys[0], py + rys[1] + 1):
        row = []
        for x in range(px + rxs[0], px + rxs[1] + 1):
            row.append(
                state.grid.objects[y][x] if 0 <= y < H and 0 <= x < W else None
            )  # None stands for a padding Hidden
        rows.append(row)
    if o is Orientation.F:
        out = rows
    elif o is Orientation.B:
        out = [r[::-1] for r in rows[::-1]]
    elif o is Orientation.R:  # counter-clockwise quarter turn of the slice
        out = [list(r) for r in zip(*rows)][::-1]
    else:  # clockwise quarter turn of the slice
        out = [list(r) for r in zip(*rows[::-1])]
    return out


def ref_observation(state, area, visibility_function, rng):
    """returns (cells, mask) or raises what the library is expected to raise

    cells[i][j] is the world object shown, or None when Hidden
    """
    rows = ref_view_rows(state, area)
    h, w = area.ys[1] - area.ys[0] + 1, area.xs[1] - area.xs[0] + 1
    check(len(rows) == h and all(len(r) == w for r in rows))
    grid = Grid([[Hidden() if o is None else o for o in row] for row in rows])
    visibility = visibility_function(
        grid, Position(-area.ys[0], -area.xs[0]), rng=rng
    )
    if visibility.shape != (h, w):
        raise ValueError('shape')
    cells = [
        [rows[i][j] if visibility[i, j] else None for j in range(w)]
        for i in range(h)
    ]
    return cells, visibility


# ---------------------------------------------------------------------------
# comparison of a library observation with the reference
# ---------------------------------------------------------------------------


def world_snapshot(state):
    return (
        id(state.grid.objects),
        [id(row) for row in state.grid.objects],
        [[id(o) for o in row] for row in state.grid.objects],
        state.agent.position,
        state.agent.orientation,
        id(state.agent.grid_object),
    )


def compare(state, area, obs_call, visibility_function, seed, tag):
    """obs_call(state, rng) -> Observation, through the public API"""
    before = world_snapshot(state)

    rng_lib, rng_ref = make_rng(seed), make_rng(seed)
    try:
        expected = ref_observation(state, area, visibility_function, rng_ref)
        expected_error = None
    except (ValueError, NotImplementedError) as error:
        expected, expected_error = None, type(error)

    try:
        observation = obs_call(state, rng_lib)
        error = None
    except (ValueError, NotImplementedError) as e:
        observation, error = None, type(e)

    check(error is expected_error, tag, error, expected_error)
    # same number of random draws (same generator state afterwards)
    check(
        rng_lib.bit_generator.state == rng_ref.bit_generator.state,
        tag,
        'rng',
    )
    # the world is not touched
    check(world_snapshot(state) == before, tag, 'world modified')
    if error is not None:
        return None

    cells, mask = expected
    h, w = area.ys[1] - area.ys[0] + 1, area.xs[1] - area.xs[0] + 1
    H, W = state.grid.shape.height, state.grid.shape.width
    check(isinstance(observation, Observation), tag)
    grid = observation.grid
    check(type(grid) is Grid, tag)
    check((grid.shape.height, grid.shape.width) == (h, w), tag, grid.shape)
    check(grid.area == Area((0, h - 1), (0, w - 1)), tag)
    check(len(grid.objects) == h and all(len(r) == w for r in grid.objects))
    check(all(type(r) is list for r in grid.objects) and type(grid.objects) is list)

    # rows are fresh lists: neither rows of the world nor shared with each other
    world_rows = {id(r) for r in state.grid.objects}
    check(len({id(r) for r in grid.objects}) == h, tag, 'shared rows')
    check(not ({id(r) for r in grid.objects} & world_rows), tag, 'world rows')
    check(grid.objects is not state.grid.objects, tag)

    padding = []
    for i in range(h):
        for j in range(w):
            shown = grid.objects[i][j]
            check(grid[Position(i, j)] is shown and grid[i, j] is shown)
            wy, wx = ref_world_cell(
                state.agent.position, state.agent.orientation, area, i, j
            )
            inside = 0 <= wy < H and 0 <= wx < W
            if cells[i][j] is not None:
                # agreement with the reference, by identity
                check(shown is cells[i][j], tag, i, j, shown, cells[i][j])
                # soundness, geometric statement
                check(inside, tag, i, j)
                check(shown is state.grid.objects[wy][wx], tag, i, j)
            else:
                check(type(shown) is Hidden, tag, i, j, shown)
                if inside and mask[i, j]:
                    raise AssertionError('reference is inconsistent')
                if not (inside and shown is state.grid.objects[wy][wx]):
                    padding.append(shown)
            if not inside:
                check(type(shown) is Hidden, tag, i, j, 'outside not Hidden')
    # every Hidden made by the observation is its own fresh instance, and is
    # no object of the world
    world_ids = {id(o) for row in state.grid.objects for o in row}
    check(len({id(o) for o in padding}) == len(padding), tag, 'shared Hidden')
    check(not ({id(o) for o in padding} & world_ids), tag, 'Hidden from world')

    # agent of the observation
    agent = observation.agent
    check(type(agent) is Agent, tag)
    check(agent.position == Position(-area.ys[0], -area.xs[0]), tag)
    check(type(agent.position) is Position, tag)
    check(agent.orientation is Orientation.F, tag)
    check(agent.grid_object is state.agent.grid_object, tag)
    check(agent is not state.agent, tag)
    check(agent.transform is not state.agent.transform, tag)
    return observation


# ---------------------------------------------------------------------------
# worlds
# ---------------------------------------------------------------------------


def make_object(rng):
    k = int(rng.integers(0, 12))
    colors = [Color.RED, Color.GREEN, Color.BLUE, Color.YELLOW]
    color = colors[int(rng.integers(0, 4))]
    if k <= 4:
        return Floor()
    if k <= 6:
        return Wall()
    if k == 7:
        return Door(
            [Door.Status.OPEN, Door.Status.CLOSED, Door.Status.LOCKED][
                int(rng.integers(0, 3))
            ],
            color,
        )
    if k == 8:
        return Key(color)
    if k == 9:
        return Exit()
    if k == 10:
        return MovingObstacle()
    return Box(Key(color))


def make_world(shape, seed, with_hidden=False):
    rng = np.random.default_rng(seed)
    objects = [[make_object(rng) for _ in range(shape[1])] for _ in range(shape[0])]
    if with_hidden:  # "any objects": a Hidden may legitimately be in the world
        objects[0][0] = Hidden()
        objects[-1][-1] = Hidden()
    return Grid(objects)


SHAPES = [(1, 1), (1, 4), (5, 1), (2, 2), (3, 5), (6, 4), (7, 7)]

AREAS = [
    ((0, 0), (0, 0)),
    ((-1, 0), (-1, 1)),
    ((-2, 0), (-1, 1)),
    ((-6, 0), (-3, 3)),  # the usual one
    ((-3, 0), (-1, 2)),  # asymmetric, agent in the last row
    ((-2, 0), (0, 3)),  # agent in a corner of the view
    ((-1, 0), (-4, 0)),
    ((-2, 1), (-1, 2)),  # extends behind the agent, asymmetric
    ((-1, 3), (-2, 0)),
    ((-3, 3), (-3, 3)),  # centred
    ((0, 2), (-1, 1)),  # only behind the agent
    ((-4, -2), (-1, 1)),  # does not contain the agent (rows)
    ((-1, 0), (1, 3)),  # does not contain the agent (columns)
    ((0, 0), (-5, 5)),  # a single row
    ((-5, 0), (0, 0)),  # a single column
    ((-9, 0), (-8, 8)),  # much larger than the world
]

NAMES = ['fully_transparent', 'partially_occluded', 'raytracing', 'stochastic_raytracing']


def positions_of(shape, outside):
    H, W = shape
    ps = [Position(y, x) for y in range(H) for x in range(W)]
    if outside:
        ps += [Position(-1, 0), Position(H, W - 1), Position(0, -2), Position(H + 1, W + 2)]
    return ps


def part_exhaustive():
    """all cells x all headings x all views x all built-in functions"""
    count = 0
    for shape_index, shape in enumerate(SHAPES):
        grid = make_world(shape, 100 + shape_index, with_hidden=shape == (6, 4))
        held = Key(Color.GREEN)
        for position in positions_of(shape, outside=shape in [(3, 5), (1, 1)]):
            for orientation in Orientation:
                state = State(grid, Agent(position, orientation, held))
                for area_index, (ys, xs) in enumerate(AREAS):
                    # the same extent spelled in different ways:  tuples, lists
                    # (what the yaml factory produces), numpy integers
                    spelling = (shape_index + area_index + position.y + position.x) % 3
                    if spelling == 0:
                        area = Area(ys, xs)
                    elif spelling == 1:
                        area = Area(list(ys), list(xs))
                    else:
                        area = Area(
                            (np.int64(ys[0]), np.int64(ys[1])),
                            (np.int64(xs[0]), np.int64(xs[1])),
                        )
                    for name in NAMES:
                        if name in ('raytracing', 'stochastic_raytracing') and (
                            area.height * area.width > 120
                        ) and (position.y + position.x) % 3:
                            continue  # keeps the running time reasonable
                        function = ofs.observation_function_registry[name]
                        visibility_function = vfs.visibility_function_registry[name]
                        seed = 7 * count + 1
                        tag = (shape, position, orientation, (ys, xs), name)
                        observation = compare(
                            state,
                            area,
                            lambda s, rng: function(s, area=area, rng=rng),
                            visibility_function,
                            seed,
                            tag,
                        )
                        count += 1
                        if name == 'fully_transparent':
                            check(observation is not None, tag)
                            # every in-grid cell of the view is shown
                            for i in range(area.height):
                                for j in range(area.width):
                                    wy, wx = ref_world_cell(position, orientation, area, i, j)
                                    if 0 <= wy < shape[0] and 0 <= wx < shape[1]:
                                        check(observation.grid.objects[i][j] is grid.objects[wy][wx], tag)
    return count


def part_factories_and_custom_visibility():
    """factory(), from_visibility with unusual visibility functions"""
    count = 0
    grid = make_world((4, 6), 5)
    calls = []

    def vis_int(g, p, *, rng=None):  # integers rather than booleans
        calls.append(g)
        return (np.arange(g.shape.height * g.shape.width).reshape(g.shape.height, g.shape.width) % 3)

    def vis_float(g, p, *, rng=None):  # floats, with nan (truthy) and -0.0 (falsy)
        calls.append(g)
        m = np.full((g.shape.height, g.shape.width), 0.5)
        m[0, :] = 0.0
        m[-1, 0] = -0.0
        m[-1, -1] = float('nan')
        return m

    def vis_none(g, p, *, rng=None):
        calls.append(g)
        return np.zeros((g.shape.height, g.shape.width), dtype=bool)

    def vis_random(g, p, *, rng=None):  # draws twice, uses the second draw
        calls.append(g)
        rng.random()
        return rng.random((g.shape.height, g.shape.width)) < 0.5

    def vis_transposed(g, p, *, rng=None):
        calls.append(g)
        rng.random(3)
        return np.ones((g.shape.width, g.shape.height), dtype=bool)

    def vis_flat(g, p, *, rng=None):
        calls.append(g)
        return np.ones(g.shape.width * g.shape.height, dtype=bool)

    def vis_fortran(g, p, *, rng=None):  # non-contiguous view of a bigger array
        calls.append(g)
        big = np.zeros((2 * g.shape.width, 2 * g.shape.height), dtype=bool)
        big[::4, :] = True
        return big[::2, ::2].T

    custom = [vis_int, vis_float, vis_none, vis_random, vis_transposed, vis_flat, vis_fortran]
    for position in [Position(0, 0), Position(3, 5), Position(1, 2), Position(3, 0)]:
        for orientation in Orientation:
            state = State(grid, Agent(position, orientation))
            for ys, xs in AREAS[:11]:
                area = Area(list(ys), list(xs))
                for vf in custom:
                    del calls[:]
                    tag = (position, orientation, ys, xs, vf.__name__)
                    direct = compare(
                        state,
                        area,
                        lambda s, rng: ofs.from_visibility(s, area=area, visibility_function=vf, rng=rng),
                        vf,
                        count,
                        tag,
                    )
                    # calls: one by the reference, one by the library
                    check(len(calls) == 2, tag, len(calls))
                    if direct is not None:
                        # the grid handed to the visibility function is the
                        # grid of the observation (masked in place afterwards)
                        check(calls[1] is direct.grid, tag)
                    made = ofs.factory('from_visibility', area=area, visibility_function=vf)
                    compare(state, area, lambda s, rng: made(s, rng=rng), vf, count, tag)
                    count += 1
                for name in NAMES:
                    made = ofs.factory(name, area=area, ignored_extra_key=3)
                    compare(
                        state,
                        area,
                        lambda s, rng: made(s, rng=rng),
                        vfs.visibility_function_registry[name],
                        count,
                        (position, orientation, ys, xs, name, 'factory'),
                    )
                    count += 1
    # missing area keeps failing in the same way
    for name in NAMES + ['from_visibility']:
        try:
            ofs.factory(name)
        except ValueError:
            pass
        else:
            raise AssertionError('factory without area should fail')
    try:
        ofs.factory('no_such_function', area=Area((0, 0), (0, 0)))
    except ValueError:
        pass
    else:
        raise AssertionError
    return count


def part_independence_of_results():
    """repeated calls: results never share anything but the world's objects"""
    grid_a, grid_b = make_world((5, 7), 11), make_world((7, 5), 12)
    area = Area((-2, 1), (-1, 2))
    same_area = Area([-2, 1], [-1, 2])
    count = 0
    for orientation in Orientation:
        state_a = State(grid_a, Agent(Position(0, 6), orientation))
        state_b = State(grid_b, Agent(Position(6, 0), orientation))
        first = ofs.fully_transparent(state_a, area=area)
        ids_first = [[id(o) for o in row] for row in first.grid.objects]
        types_first = [[type(o) for o in row] for row in first.grid.objects]
        second = ofs.fully_transparent(state_a, area=same_area)
        other = ofs.fully_transparent(state_b, area=area)
        check(first.grid is not second.grid and first.grid.objects is not second.grid.objects)
        for i in range(area.height):
            check(first.grid.objects[i] is not second.grid.objects[i])
            check(first.grid.objects[i] is not other.grid.objects[i])
            for j in range(area.width):
                a, b = first.grid.objects[i][j], second.grid.objects[i][j]
                if type(a) is Hidden:
                    check(type(b) is Hidden and a is not b)
                else:
                    check(a is b)
        # writing in one observation affects neither the others nor the world
        snapshot = world_snapshot(state_a)
        for i in range(area.height):
            for j in range(area.width):
                second.grid[Position(i, j)] = Wall()
                other.grid.objects[i][j] = Wall()
        second.grid.objects.append([])
        check([[id(o) for o in row] for row in first.grid.objects] == ids_first)
        check([[type(o) for o in row] for row in first.grid.objects] == types_first)
        check(world_snapshot(state_a) == snapshot)
        # and a later call is still right (nothing cached was damaged)
        compare(
            state_a,
            area,
            lambda s, rng: ofs.fully_transparent(s, area=area, rng=rng),
            vfs.fully_transparent,
            0,
            ('again', orientation),
        )
        # the agent moves and turns (same Agent object, modified in place)
        for position in [Position(4, 0), Position(2, 3), Position(0, 0)]:
            state_a.agent.position = position
            for o2 in Orientation:
                state_a.agent.orientation = o2
                for name in NAMES:
                    compare(
                        state_a,
                        area,
                        lambda s, rng: ofs.observation_function_registry[name](s, area=area, rng=rng),
                        vfs.visibility_function_registry[name],
                        count,
                        ('moved', position, o2, name),
                    )
                    count += 1
        # the world changes between calls (same Grid object, modified in place)
        state_a.agent.position = Position(1, 1)
        state_a.agent.orientation = orientation
        grid_a[Position(1, 2)] = Door(Door.Status.CLOSED, Color.RED)
        grid_a.swap(Position(0, 0), Position(1, 1))
        compare(
            state_a,
            area,
            lambda s, rng: ofs.raytracing(s, area=area, rng=rng),
            vfs.raytracing,
            0,
            ('changed world', orientation),
        )
    return count


def env_data(reset, observation):
    names = ['Wall', 'Floor', 'Exit', 'Door', 'Key', 'MovingObstacle', 'Beacon', 'Telepod']
    return {
        'state_space': {'objects': names, 'colors': ['NONE', 'RED', 'GREEN', 'BLUE', 'YELLOW']},
        'observation_space': {'objects': names, 'colors': ['NONE', 'RED', 'GREEN', 'BLUE', 'YELLOW']},
        'reset_function': reset,
        'transition_functions': [
            {'name': 'move_agent'},
            {'name': 'turn_agent'},
            {'name': 'actuate_door'},
            {'name': 'pickndrop'},
        ],
        'reward_functions': [{'name': 'living_reward', 'reward': -0.05}],
        'observation_function': observation,
        'terminating_function': {'name': 'reach_exit'},
    }


def part_environments():
    """whole environments built from python dicts, all actions, many seeds;
    two environments of each kind live in the same process and must agree"""
    resets = [
        {'name': 'keydoor', 'shape': [7, 7]},
        {'name': 'keydoor', 'shape': [5, 8]},
        {'name': 'empty', 'shape': [4, 7]},
        {'name': 'rooms', 'shape': [7, 10], 'layout': [2, 3]},
        {'name': 'crossing', 'shape': [7, 9], 'num_rivers': 2, 'object_type': 'Wall'},
    ]
    areas = [[[-6, 0], [-3, 3]], [[-2, 1], [-1, 1]], [[-3, 0], [0, 2]], [[-1, 0], [-4, 0]]]
    actions = list(Action)
    count = 0
    for reset, area_data, name in itertools.product(resets, areas, NAMES):
        if name == 'partially_occluded' and area_data[0][1] != 0:
            continue  # not supported by the library (NotImplementedError)
        first = factory_env_from_data(env_data(dict(reset), {'name': name, 'area': area_data}))
        second = factory_env_from_data(env_data(dict(reset), {'name': name, 'area': area_data}))
        area = Area(tuple(area_data[0]), tuple(area_data[1]))
        visibility_function = vfs.visibility_function_registry[name]
        made = factory_observation_function({'name': name, 'area': area_data})
        for seed in range(3):
            first.set_seed(seed)
            second.set_seed(seed)
            first.reset()
            second.reset()
            action_rng = np.random.default_rng(1000 + seed)
            for step in range(3 * len(actions)):
                check(first.state == second.state)
                o1, o2 = first.observation, second.observation
                check(o1.grid == o2.grid and o1.agent == o2.agent, reset, name, seed, step)
                check(first.observation_space.contains(o1))
                # shown cells alias the state, the reference agrees on a copy of the generator
                state = first.state
                compare(
                    state,
                    area,
                    lambda s, rng: made(s, rng=rng),
                    visibility_function,
                    seed * 100 + step,
                    (reset, area_data, name, seed, step),
                )
                action = actions[step] if step < len(actions) else actions[int(action_rng.integers(len(actions)))]
                first.step(action)
                second.step(action)
                count += 1
    return count


def ref_subgrid_rows(grid, area):
    H, W = len(grid.objects), len(grid.objects[0])
    return [
        [
            grid.objects[y][x] if 0 <= y < H and 0 <= x < W else None
            for x in range(area.xs[0], area.xs[1] + 1)
        ]
        for y in range(area.ys[0], area.ys[1] + 1)
    ]


def same_cells(grid, rows, filler_type, tag):
    """grid agrees with rows (None = a fresh filler), returns the fillers in row-major order"""
    check(type(grid) is Grid, tag)
    check(len(grid.objects) == len(rows), tag)
    check((grid.shape.height, grid.shape.width) == (len(rows), len(rows[0])), tag)
    fillers = []
    for row, expected_row in zip(grid.objects, rows):
        check(type(row) is list and len(row) == len(expected_row), tag)
        for shown, expected in zip(row, expected_row):
            if expected is None:
                check(type(shown) is filler_type, tag, shown)
                fillers.append(shown)
            else:
                check(shown is expected, tag, shown, expected)
    check(len({id(o) for o in fillers}) == len(fillers), tag, 'shared filler')
    return fillers


def part_grid_api():
    has_factory = 'factory' in inspect.signature(Grid.subgrid).parameters
    has_view = hasattr(Grid, 'view')
    check(has_factory == has_view)
    count = 0
    slices = [
        Area((0, 0), (0, 0)),
        Area((-1, 1), (-1, 1)),
        Area((-3, -1), (0, 2)),
        Area((2, 9), (1, 2)),
        Area((0, 3), (-2, 8)),
        Area([1, 2], [1, 3]),
        Area((-4, -2), (-5, -3)),
        Area((50, 51), (60, 62)),
    ]
    for shape_index, shape in enumerate(SHAPES):
        grid = make_world(shape, 300 + shape_index)
        world_ids = {id(o) for row in grid.objects for o in row}
        before = [[id(o) for o in row] for row in grid.objects]
        for area in slices:
            rows = ref_subgrid_rows(grid, area)
            tag = ('subgrid', shape, area)
            # positional call, as before the commit
            fillers = same_cells(grid.subgrid(area), rows, Hidden, tag)
            check(not ({id(o) for o in fillers} & world_ids), tag)
            count += 1
            if has_factory:
                fillers = same_cells(grid.subgrid(area, factory=Hidden), rows, Hidden, tag)
                check(not ({id(o) for o in fillers} & world_ids), tag)
                fillers = same_cells(grid.subgrid(area, factory=Wall), rows, Wall, tag)
                made = []

                def factory():
                    made.append(Floor())
                    return made[-1]

                fillers = same_cells(grid.subgrid(area, factory=factory), rows, Floor, tag)
                # one call per outside cell, in row-major order, none for inside cells
                check(len(made) == len(fillers), tag)
                check(all(a is b for a, b in zip(made, fillers)), tag)
                # `factory` is keyword-only
                try:
                    grid.subgrid(area, Wall)
                except TypeError:
                    pass
                else:
                    raise AssertionError('factory should be keyword-only')
        if has_view:
            from gym_gridverse.geometry import Transform

            for position in positions_of(shape, outside=True):
                for orientation in Orientation:
                    state = State(grid, Agent(position, orientation))
                    for ys, xs in AREAS:
                        area = Area(list(ys), list(xs)) if (position.x + ys[0]) % 2 else Area(ys, xs)
                        rows = ref_view_rows(state, area)
                        tag = ('view', shape, position, orientation, ys, xs)
                        pose = Transform(position, orientation)
                        fillers = same_cells(grid.view(pose, area), rows, Hidden, tag)
                        check(not ({id(o) for o in fillers} & world_ids), tag)
                        same_cells(grid.view(state.agent.transform, area, factory=Wall), rows, Wall, tag)
                        check(pose == Transform(position, orientation), tag)
                        # geometric statement
                        viewed = grid.view(pose, area)
                        for i in range(area.height):
                            for j in range(area.width):
                                wy, wx = ref_world_cell(position, orientation, area, i, j)
                                if 0 <= wy < shape[0] and 0 <= wx < shape[1]:
                                    check(viewed.objects[i][j] is grid.objects[wy][wx], tag)
                                else:
                                    check(type(viewed.objects[i][j]) is Hidden, tag)
                        count += 1
        check([[id(o) for o in row] for row in grid.objects] == before)
    return count, has_view


def main():
    n1 = part_exhaustive()
    n2 = part_factories_and_custom_visibility()
    n3 = part_independence_of_results()
    n4 = part_environments()
    n5, has_view = part_grid_api()
    print(f'OK observations: exhaustive={n1} factory/custom={n2} repeated={n3} env-steps={n4} grid-api={n5} (new api present: {has_view}) checks={CHECKS}')


if __name__ == '__main__':
    main()
