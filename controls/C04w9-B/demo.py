"""Demo for change B (OuterEnv.convert_state / convert_observation): C04 on
the numeric outer environment.

Run from the worktree root:  /venv/bin/python _seed/B/demo.py

Exits 0 on the pristine tree and with the patch applied.  Everything is checked
against a reference embedded here: the trajectory obtained by threading states
through the functional interface (functional_reset / functional_step /
functional_observation) of a *separate* environment instance with the same
seed, plus a few hard-coded expectations on the smallest shipped layout.
"""
import collections
import os
import random
import sys
from functools import partial

import numpy as np

sys.path.insert(0, os.getcwd())  # the worktree root, not _seed/B

from gym_gridverse.action import Action
from gym_gridverse.envs import observation_functions as observation_fs
from gym_gridverse.envs import reset_functions as reset_fs
from gym_gridverse.envs import reward_functions as reward_fs
from gym_gridverse.envs import terminating_functions as terminating_fs
from gym_gridverse.envs import transition_functions as transition_fs
from gym_gridverse.envs.gridworld import GridWorld
from gym_gridverse.envs.inner_env import InnerEnv
from gym_gridverse.geometry import Area, Orientation, Position, Shape
from gym_gridverse.grid_object import (
    Beacon,
    Color,
    Door,
    Exit,
    Floor,
    Key,
    MovingObstacle,
    Telepod,
    Wall,
)
from gym_gridverse.observation import Observation
from gym_gridverse.outer_env import OuterEnv
from gym_gridverse.representations.observation_representations import (
    make_observation_representation,
)
from gym_gridverse.representations.state_representations import (
    make_state_representation,
)
from gym_gridverse.rng import reset_gv_rng
from gym_gridverse.spaces import ActionSpace, ObservationSpace, StateSpace
from gym_gridverse.state import State

# NOTE: no Box, which has no state representation
ALL_TYPES = [Floor, Wall, Exit, Door, Key, MovingObstacle, Telepod, Beacon]
ALL_COLORS = list(Color)
RESET = 'RESET'  # pseudo-action: reset the episode mid-way

n_checks = 0


def check(condition, message):
    global n_checks
    n_checks += 1
    if not condition:
        print('FAILED:', message)
        sys.exit(1)


def raises(exception_type, f):
    try:
        f()
    except exception_type:
        return True
    except Exception as e:  # wrong type
        print('unexpected exception', type(e), e)
        return False
    return False


class CountingGridWorld(GridWorld):
    """GridWorld which counts the calls reaching the functional interface"""

    def __init__(self, *args, **kwargs):
        super().__init__(*args, **kwargs)
        self.calls = collections.Counter()

    def functional_reset(self):
        self.calls['reset'] += 1
        return super().functional_reset()

    def functional_step(self, state, action):
        self.calls['step'] += 1
        return super().functional_step(state, action)

    def functional_observation(self, state):
        self.calls['observation'] += 1
        return super().functional_observation(state)


CONFIGS = {
    # name: (reset function, shape, observation function name, area, actions)
    'empty-4x4-fixed': (
        partial(reset_fs.empty, Shape(4, 4)),
        Shape(4, 4),
        'partially_occluded',
        Area((-6, 0), (-3, 3)),
        None,
    ),
    'empty-5x8-random-asymmetric-view': (
        partial(reset_fs.empty, Shape(5, 8), True, True),
        Shape(5, 8),
        'raytracing',
        Area((-4, 1), (-1, 3)),
        None,
    ),
    'dynamic-obstacles-6x7-stochastic-view': (
        partial(reset_fs.dynamic_obstacles, Shape(6, 7), 4, True),
        Shape(6, 7),
        'stochastic_raytracing',
        Area((-2, 2), (-2, 2)),
        None,
    ),
    'keydoor-5x9-tiny-view': (
        partial(reset_fs.keydoor, Shape(5, 9)),
        Shape(5, 9),
        'fully_transparent',
        Area((-1, 0), (0, 0)),
        None,
    ),
    'rooms-7x9': (
        partial(reset_fs.rooms, Shape(7, 9), (2, 2)),
        Shape(7, 9),
        'partially_occluded',
        Area((-3, 0), (-2, 2)),
        None,
    ),
    'teleport-5x6-stochastic-view': (
        partial(reset_fs.teleport, Shape(5, 6)),
        Shape(5, 6),
        'stochastic_raytracing',
        Area((-6, 0), (-3, 3)),
        None,
    ),
    'memory-5x7': (
        partial(
            reset_fs.memory, Shape(5, 7), {Color.RED, Color.GREEN, Color.BLUE}
        ),
        Shape(5, 7),
        'raytracing',
        Area((-2, 0), (-1, 1)),
        None,
    ),
    'crossing-7x5-two-actions': (
        partial(reset_fs.crossing, Shape(7, 5), 2, Wall),
        Shape(7, 5),
        'raytracing',
        Area((-6, 0), (-3, 3)),
        [Action.MOVE_FORWARD, Action.TURN_RIGHT],
    ),
}
STOCHASTIC_VIEW = {
    name for name, config in CONFIGS.items() if 'stochastic' in config[2]
}


def make_env(name, cls=GridWorld):
    reset_function, shape, observation_name, area, actions = CONFIGS[name]
    transition_function = partial(
        transition_fs.chain,
        transition_functions=[
            transition_fs.move_agent,
            transition_fs.turn_agent,
            transition_fs.actuate_door,
            transition_fs.pickndrop,
            transition_fs.move_obstacles,
            transition_fs.teleport,
        ],
    )
    reward_function = partial(
        reward_fs.reduce_sum,
        reward_functions=[
            partial(reward_fs.living_reward, reward=-0.1),
            partial(reward_fs.reach_exit, reward_on=5.0, reward_off=0.0),
            partial(reward_fs.bump_moving_obstacle, reward=-2.0),
        ],
    )
    terminating_function = partial(
        terminating_fs.reduce_any,
        terminating_functions=[
            terminating_fs.reach_exit,
            terminating_fs.bump_moving_obstacle,
        ],
    )
    observation_function = partial(
        getattr(observation_fs, observation_name), area=area
    )
    return cls(
        StateSpace(shape, ALL_TYPES, ALL_COLORS),
        ActionSpace(list(Action) if actions is None else actions),
        ObservationSpace(Shape(area.height, area.width), ALL_TYPES, ALL_COLORS),
        reset_function,
        transition_function,
        observation_function,
        reward_function,
        terminating_function,
    )


def rng_state(env):
    rng = env._rng  # GridWorld's own stream (None if never seeded)
    return None if rng is None else repr(rng.bit_generator.state)


# reference: the functional interface


def functional_trajectory(env, seed, actions, reads):
    """Threads states through the functional interface.

    `reads[t]` is the number of times the observation of the t-th state is
    read;  the reference generates the observation iff it is read at all."""
    env.set_seed(seed)
    trajectory = []
    state = env.functional_reset()
    observation = env.functional_observation(state) if reads[0] else None
    trajectory.append((state, None, None, observation))
    for t, action in enumerate(actions, start=1):
        if action == RESET:
            state, reward, done = env.functional_reset(), None, None
        else:
            state, reward, done = env.functional_step(state, action)
        observation = env.functional_observation(state) if reads[t] else None
        trajectory.append((state, reward, done, observation))
    return trajectory


def read_observation(env, n, what):
    """Reads the observation n times;  returns the first (None if n == 0)"""
    first = None
    for i in range(n):
        if i == 1:
            before = rng_state(env)
        observation = env.observation
        if i == 0:
            first = observation
        else:
            check(observation is first, f'{what}: repeated read, new object')
            check(rng_state(env) == before, f'{what}: repeated read used rng')
    return first


def stateful_trajectory(env, seed, actions, reads, what, state_reads=2):
    """Drives the environment with reset / step."""
    env.set_seed(seed)
    trajectory = []
    env.reset()
    for t in range(len(actions) + 1):
        if t == 0:
            reward, done = None, None
        elif actions[t - 1] == RESET:
            env.reset()
            reward, done = None, None
        else:
            reward, done = env.step(actions[t - 1])
        states = [env.state for _ in range(state_reads)]
        check(
            all(state is states[0] for state in states),
            f'{what}: state read returned different objects',
        )
        observation = read_observation(env, reads[t], f'{what} t={t}')
        # state reads after the observation do not disturb anything
        check(env.state is states[0], f'{what}: state changed by observing')
        trajectory.append((env.state, reward, done, observation))
    return trajectory


def same_trajectory(xs, ys):
    if len(xs) != len(ys):
        return False
    for (s1, r1, d1, o1), (s2, r2, d2, o2) in zip(xs, ys):
        if s1 != s2 or r1 != r2 or d1 != d2 or o1 != o2:
            return False
        if type(r1) is not type(r2) or type(d1) is not type(d2):
            return False
    return True


def random_scenario(env, prng, length):
    actions = [
        RESET if prng.random() < 0.08 else prng.choice(env.action_space.actions)
        for _ in range(length)
    ]
    pattern = prng.choice(['none', 'once', 'many', 'mixed'])
    reads = [
        {'none': 0, 'once': 1, 'many': 3, 'mixed': prng.choice([0, 0, 1, 2, 4])}[
            pattern
        ]
        for _ in range(length + 1)
    ]
    return actions, reads


# 1. before the first reset ------------------------------------------------

for name in CONFIGS:
    env = make_env(name, CountingGridWorld)
    action = env.action_space.actions[0]
    for seeded in (False, True):
        if seeded:
            env.set_seed(7)
        before = rng_state(env)
        check(raises(RuntimeError, lambda: env.state), f'{name}: state')
        check(
            raises(RuntimeError, lambda: env.observation), f'{name}: observation'
        )
        check(raises(RuntimeError, lambda: env.step(action)), f'{name}: step')
        check(
            sum(env.calls.values()) == 0,
            f'{name}: functional interface reached before reset',
        )
        check(rng_state(env) == before, f'{name}: rng used before reset')
        # still unset afterwards
        check(raises(RuntimeError, lambda: env.state), f'{name}: state (2)')

# 2. stateful == functional, arbitrary read patterns -----------------------

prng = random.Random(20240604)
n_scenarios = 0
for name in CONFIGS:
    for seed in (0, 1, 12345, 2**32 - 1):
        for repetition in range(3):
            functional_env = make_env(name)
            stateful_env = make_env(name, CountingGridWorld)
            actions, reads = random_scenario(
                stateful_env, prng, prng.choice([0, 1, 7, 25])
            )
            what = f'{name} seed={seed} #{repetition}'

            reference = functional_trajectory(
                functional_env, seed, actions, reads
            )
            trajectory = stateful_trajectory(
                stateful_env, seed, actions, reads, what
            )
            check(same_trajectory(reference, trajectory), f'{what}: differs')
            check(
                rng_state(functional_env) == rng_state(stateful_env),
                f'{what}: different amount of randomness consumed',
            )

            # every reset / step reaches the functional interface exactly
            # once, every observed state generates exactly one observation
            n_resets = 1 + actions.count(RESET)
            check(
                [
                    stateful_env.calls[key]
                    for key in ('reset', 'step', 'observation')
                ]
                == [
                    n_resets,
                    len(actions) - actions.count(RESET),
                    sum(1 for n in reads if n),
                ],
                f'{what}: call counts {stateful_env.calls}',
            )

            # the current observation belongs to the current state
            if name not in STOCHASTIC_VIEW:
                check(
                    stateful_env.observation
                    == functional_env.functional_observation(
                        stateful_env.state
                    ),
                    f'{what}: observation does not belong to state',
                )

            # re-seeding the same (used) environment replays the trajectory
            replay = stateful_trajectory(
                stateful_env, seed, actions, reads, what + ' replay'
            )
            check(same_trajectory(reference, replay), f'{what}: replay differs')
            n_scenarios += 1

# 3. the numeric outer environment shows the inner state and observation ---

STATE_MESSAGE = 'State representation not available'
OBSERVATION_MESSAGE = 'Observation representation not available'
REPRESENTATIONS = ('default', 'no-overlap', 'compact')


def error_message(exception_type, f):
    """message of the exception raised by f (None if it does not raise)"""
    try:
        f()
    except exception_type as e:
        return str(e)
    return None


def same_arrays(xs, ys):
    return xs.keys() == ys.keys() and all(
        isinstance(xs[k], np.ndarray)
        and xs[k].dtype == ys[k].dtype
        and xs[k].shape == ys[k].shape
        and np.array_equal(xs[k], ys[k])
        for k in xs
    )


def scribble(arrays):
    """the caller owns the returned arrays:  writing to them must not leak"""
    for array in arrays.values():
        array.fill(-7)


def untouched(inner, f):
    """True iff running f neither reaches the inner functional interface, nor
    consumes randomness, nor replaces the current state / observation"""
    calls, before = dict(inner.calls), rng_state(inner)
    state, observation = inner._state, inner._observation
    f()
    return (
        dict(inner.calls) == calls
        and rng_state(inner) == before
        and inner._state is state
        and inner._observation is observation
    )


def outer_step(outer, actions, t):
    if t == 0:
        return None, None
    if actions[t - 1] == RESET:
        check(outer.reset() is None, 'outer: reset returns something')
        return None, None
    return outer.step(actions[t - 1])


# hard-coded expectations on the smallest layout
inner = make_env('empty-4x4-fixed', CountingGridWorld)
outer = OuterEnv(
    inner,
    state_representation=make_state_representation(
        'default', inner.state_space
    ),
    observation_representation=make_observation_representation(
        'default', inner.observation_space
    ),
)
inner.set_seed(0)
outer.reset()
state_arrays, observation_arrays = outer.state, outer.observation
check(
    sorted(state_arrays) == ['agent', 'agent_id_grid', 'grid', 'item'],
    f'empty: state keys {sorted(state_arrays)}',
)
check(
    sorted(observation_arrays) == ['agent_id_grid', 'grid', 'item'],
    f'empty: observation keys {sorted(observation_arrays)}',
)
check(state_arrays['grid'].shape == (4, 4, 3), 'empty: state grid shape')
check(
    observation_arrays['grid'].shape == (7, 7, 3),
    'empty: observation grid shape',
)
check(
    np.array_equal(
        state_arrays['agent_id_grid'],
        [[0, 0, 0, 0], [0, 1, 0, 0], [0, 0, 0, 0], [0, 0, 0, 0]],
    ),
    'empty: agent at (1, 1) in the state',
)
expected = np.zeros((7, 7), dtype=int)
expected[6, 3] = 1
check(
    np.array_equal(observation_arrays['agent_id_grid'], expected),
    'empty: agent at (6, 3) in the observation',
)
check(outer.step(Action.MOVE_FORWARD) == (-0.1, False), 'empty: step')
check(
    np.array_equal(
        outer.state['agent_id_grid'],
        [[0, 0, 0, 0], [0, 0, 1, 0], [0, 0, 0, 0], [0, 0, 0, 0]],
    ),
    'empty: agent at (1, 2) after moving forward',
)
check(
    not same_arrays(outer.observation, observation_arrays),
    'empty: stale outer observation',
)
check(
    dict(inner.calls) == {'reset': 1, 'step': 1, 'observation': 2},
    f'empty: call counts {inner.calls}',
)

# all configurations x all representations, arbitrary read patterns
for name in CONFIGS:
    for representation in REPRESENTATIONS:
        inner = make_env(name, CountingGridWorld)
        outer = OuterEnv(
            inner,
            state_representation=make_state_representation(
                representation, inner.state_space
            ),
            observation_representation=make_observation_representation(
                representation, inner.observation_space
            ),
        )
        # reference: functional interface of another instance, converted by
        # other representation objects
        reference_env = make_env(name)
        state_reference = make_state_representation(
            representation, reference_env.state_space
        )
        observation_reference = make_observation_representation(
            representation, reference_env.observation_space
        )
        actions, reads = random_scenario(inner, prng, 12)
        reference = functional_trajectory(reference_env, 17, actions, reads)
        what = f'outer {name} {representation}'

        check(outer.inner_env is inner, f'{what}: inner_env')
        check(outer.action_space is inner.action_space, f'{what}: actions')

        # before the first reset
        for read in (lambda: outer.state, lambda: outer.observation):
            message = error_message(RuntimeError, read)
            check(
                message is not None and 'reset' in message,
                f'{what}: read before reset gives {message!r}',
            )
        check(
            raises(
                RuntimeError,
                lambda: outer.step(inner.action_space.actions[0]),
            ),
            f'{what}: step before reset',
        )
        check(sum(inner.calls.values()) == 0, f'{what}: calls before reset')

        inner.set_seed(17)
        check(outer.reset() is None, f'{what}: reset returns something')
        for t in range(len(actions) + 1):
            result = outer_step(outer, actions, t)
            state, reward, done, observation = reference[t]
            check(result == (reward, done), f'{what}: step result')
            check(inner.state == state, f'{what}: inner state')

            expected = state_reference.convert(state)
            for _ in range(prng.choice([0, 1, 3])):
                arrays = outer.state
                check(same_arrays(arrays, expected), f'{what}: state')
                scribble(arrays)

            if reads[t]:
                expected = observation_reference.convert(observation)
            for k in range(reads[t]):
                if k == 0:
                    arrays = outer.observation
                else:
                    # repeated reads: nothing is regenerated
                    def read():
                        global arrays
                        arrays = outer.observation

                    check(untouched(inner, read), f'{what}: repeated read')
                check(same_arrays(arrays, expected), f'{what}: observation')
                scribble(arrays)
                # the inner observation is the one which was converted
                check(
                    untouched(inner, lambda: inner.observation)
                    and inner.observation == observation,
                    f'{what}: inner observation',
                )

            # the new conversion helpers (if present) agree and touch nothing
            if hasattr(outer, 'convert_state'):
                other_state = prng.choice(reference)[0]

                def convert():
                    check(
                        same_arrays(
                            outer.convert_state(other_state),
                            state_reference.convert(other_state),
                        ),
                        f'{what}: convert_state',
                    )

                check(untouched(inner, convert), f'{what}: convert_state used env')
            if hasattr(outer, 'convert_observation'):
                others = [o for _, _, _, o in reference if o is not None]
                if others:
                    other_observation = prng.choice(others)

                    def convert():
                        check(
                            same_arrays(
                                outer.convert_observation(other_observation),
                                observation_reference.convert(
                                    other_observation
                                ),
                            ),
                            f'{what}: convert_observation',
                        )

                    check(
                        untouched(inner, convert),
                        f'{what}: convert_observation used env',
                    )

        check(
            [inner.calls[key] for key in ('reset', 'step', 'observation')]
            == [
                1 + actions.count(RESET),
                len(actions) - actions.count(RESET),
                sum(1 for n in reads if n),
            ],
            f'{what}: call counts {inner.calls}',
        )
        check(
            rng_state(inner) == rng_state(reference_env),
            f'{what}: randomness consumed',
        )

# 4. missing representations ---------------------------------------------------
# the missing representation is reported first, and asking for it does not
# generate (nor memoize) an observation

for name in (
    'dynamic-obstacles-6x7-stochastic-view',
    'teleport-5x6-stochastic-view',
    'keydoor-5x9-tiny-view',
    'empty-5x8-random-asymmetric-view',
):
    for with_state, with_observation in (
        (False, False),
        (True, False),
        (False, True),
    ):
        inner = make_env(name, CountingGridWorld)
        kwargs = {}
        if with_state:
            kwargs['state_representation'] = make_state_representation(
                'default', inner.state_space
            )
        if with_observation:
            kwargs[
                'observation_representation'
            ] = make_observation_representation(
                'default', inner.observation_space
            )
        outer = OuterEnv(inner, **kwargs)
        check(
            (outer.state_representation is not None) == with_state
            and (outer.observation_representation is not None)
            == with_observation,
            'outer: representation attributes',
        )
        reference_env = make_env(name)
        state_reference = make_state_representation(
            'default', reference_env.state_space
        )
        observation_reference = make_observation_representation(
            'default', reference_env.observation_space
        )
        actions, reads = random_scenario(inner, prng, 15)
        reference = functional_trajectory(reference_env, 23, actions, reads)
        what = f'outer {name} state={with_state} obs={with_observation}'

        def failing_reads():
            if not with_state:
                check(
                    error_message(RuntimeError, lambda: outer.state)
                    == STATE_MESSAGE,
                    f'{what}: state message',
                )
                if hasattr(outer, 'convert_state'):
                    check(
                        error_message(
                            RuntimeError,
                            lambda: outer.convert_state(reference[0][0]),
                        )
                        == STATE_MESSAGE,
                        f'{what}: convert_state message',
                    )
            if not with_observation:
                check(
                    error_message(RuntimeError, lambda: outer.observation)
                    == OBSERVATION_MESSAGE,
                    f'{what}: observation message',
                )
                if hasattr(outer, 'convert_observation'):
                    check(
                        error_message(
                            RuntimeError,
                            lambda: outer.convert_observation(None),
                        )
                        == OBSERVATION_MESSAGE,
                        f'{what}: convert_observation message',
                    )

        # before reset: missing representation first, missing state otherwise
        inner.set_seed(23)
        check(untouched(inner, failing_reads), f'{what}: before reset')
        if with_state:
            message = error_message(RuntimeError, lambda: outer.state)
            check(message is not None and 'reset' in message, f'{what}: {message}')
        if with_observation:
            message = error_message(RuntimeError, lambda: outer.observation)
            check(message is not None and 'reset' in message, f'{what}: {message}')
        check(sum(inner.calls.values()) == 0, f'{what}: calls before reset')

        outer.reset()
        for t in range(len(actions) + 1):
            result = outer_step(outer, actions, t)
            state, reward, done, observation = reference[t]
            check(result == (reward, done), f'{what}: step result')
            check(untouched(inner, failing_reads), f'{what}: failing reads')
            if with_state:
                check(
                    same_arrays(outer.state, state_reference.convert(state)),
                    f'{what}: state',
                )
            check(untouched(inner, failing_reads), f'{what}: failing reads')
            for _ in range(reads[t]):
                if with_observation:
                    check(
                        same_arrays(
                            outer.observation,
                            observation_reference.convert(observation),
                        ),
                        f'{what}: observation',
                    )
                else:
                    check(
                        inner.observation == observation,
                        f'{what}: inner observation',
                    )
                check(untouched(inner, failing_reads), f'{what}: failing reads')
        check(
            inner.calls['observation'] == sum(1 for n in reads if n),
            f'{what}: observations generated {inner.calls}',
        )
        check(
            rng_state(inner) == rng_state(reference_env),
            f'{what}: randomness consumed',
        )

# 5. representations swapped at runtime (as the gym wrapper does) -------------

for name in ('memory-5x7', 'dynamic-obstacles-6x7-stochastic-view'):
    inner = make_env(name, CountingGridWorld)
    outer = OuterEnv(inner)
    inner.set_seed(5)
    outer.reset()
    outer.step(inner.action_space.actions[0])
    state, observation = inner.state, inner.observation
    for representation in REPRESENTATIONS + ('default',):
        outer.state_representation = make_state_representation(
            representation, inner.state_space
        )
        outer.observation_representation = make_observation_representation(
            representation, inner.observation_space
        )
        check(
            same_arrays(
                outer.state,
                make_state_representation(
                    representation, inner.state_space
                ).convert(state),
            ),
            f'swap {name} {representation}: state',
        )
        check(
            same_arrays(
                outer.observation,
                make_observation_representation(
                    representation, inner.observation_space
                ).convert(observation),
            ),
            f'swap {name} {representation}: observation',
        )
    outer.state_representation = None
    outer.observation_representation = None
    check(
        error_message(RuntimeError, lambda: outer.state) == STATE_MESSAGE,
        f'swap {name}: state representation removed',
    )
    check(
        error_message(RuntimeError, lambda: outer.observation)
        == OBSERVATION_MESSAGE,
        f'swap {name}: observation representation removed',
    )
    check(
        inner.state is state and inner.observation is observation,
        f'swap {name}: inner env disturbed',
    )
    check(inner.calls['observation'] == 1, f'swap {name}: {inner.calls}')

# 6. two outer environments over one inner environment ------------------------

inner = make_env('dynamic-obstacles-6x7-stochastic-view', CountingGridWorld)
outers = [
    OuterEnv(
        inner,
        state_representation=make_state_representation(
            representation, inner.state_space
        ),
        observation_representation=make_observation_representation(
            representation, inner.observation_space
        ),
    )
    for representation in ('default', 'compact')
]
reference_env = make_env('dynamic-obstacles-6x7-stochastic-view')
actions = [prng.choice(list(Action)) for _ in range(20)]
reference = functional_trajectory(reference_env, 8, actions, [1] * 21)
inner.set_seed(8)
outers[0].reset()
for t in range(21):
    if t:
        result = outers[t % 2].step(actions[t - 1])
        check(result == reference[t][1:3], 'shared inner: step result')
    for outer, representation in zip(outers, ('default', 'compact')):
        check(
            same_arrays(
                outer.state,
                make_state_representation(
                    representation, reference_env.state_space
                ).convert(reference[t][0]),
            ),
            f'shared inner: state {representation}',
        )
        check(
            same_arrays(
                outer.observation,
                make_observation_representation(
                    representation, reference_env.observation_space
                ).convert(reference[t][3]),
            ),
            f'shared inner: observation {representation}',
        )
check(inner.calls['observation'] == 21, f'shared inner: {inner.calls}')
check(
    rng_state(inner) == rng_state(reference_env),
    'shared inner: randomness consumed',
)

print(f'OK: {n_checks} checks, {n_scenarios} random scenarios')
