"""Demo for change A (Grid.subgrid: loop-invariant bounds, per-row branch).

Run from the worktree root:  /venv/bin/python _seed/A/demo.py

Exits 0 on the pristine tree and with the patch applied.  Checks

1. Grid.subgrid against a reference implementation embedded here (the
   pristine spelling), exhaustively over small grids (square, non-square, 1x1,
   single row / column) and every area whose bounds reach up to 3 cells outside
   of the grid on every side: same objects *by identity* for the cells inside
   of the grid, a Hidden for every other cell, no Hidden instance shared
   between two cells, no row shared with the sliced grid or with another row,
   the sliced grid untouched;
2. the observation functions built on top of it (all four shipped ones, every
   agent position / heading, symmetric and asymmetric view areas) against a
   reference `from_visibility`, and that they leave the state untouched and are
   history independent (the same question asked again after many other calls
   on other environments gives an equal answer);
3. functional_step / functional_observation of a hand-made GridWorld and of the
   shipped yaml compositions (when the yaml stack is importable): inputs not
   modified, next state alias-free, copies equal and hash like their original.
"""
import glob
import itertools as itt
import os
import re
import sys
import warnings
from functools import partial

warnings.filterwarnings('ignore')
sys.path.insert(0, os.getcwd())

import numpy as np  # noqa: E402

from gym_gridverse.action import Action  # noqa: E402
from gym_gridverse.agent import Agent  # noqa: E402
from gym_gridverse.envs import observation_functions as observation_fs  # noqa: E402
from gym_gridverse.envs import reward_functions as reward_fs  # noqa: E402
from gym_gridverse.envs import terminating_functions as terminating_fs  # noqa: E402
from gym_gridverse.envs import transition_functions as transition_fs  # noqa: E402
from gym_gridverse.envs.gridworld import GridWorld  # noqa: E402
from gym_gridverse.envs.visibility_functions import (  # noqa: E402
    visibility_function_registry,
)
from gym_gridverse.geometry import (  # noqa: E402
    Area,
    Orientation,
    Position,
    Shape,
)
from gym_gridverse.grid import Grid  # noqa: E402
from gym_gridverse.grid_object import (  # noqa: E402
    Beacon,
    Box,
    Color,
    Door,
    Exit,
    Floor,
    GridObject,
    Hidden,
    Key,
    MovingObstacle,
    NoneGridObject,
    Telepod,
    Wall,
)
from gym_gridverse.observation import Observation  # noqa: E402
from gym_gridverse.rng import make_rng  # noqa: E402
from gym_gridverse.spaces import (  # noqa: E402
    ActionSpace,
    ObservationSpace,
    StateSpace,
)
from gym_gridverse.state import State  # noqa: E402
from gym_gridverse.utils.fast_copy import fast_copy  # noqa: E402

n_checks = 0


def check(condition, message):
    global n_checks
    n_checks += 1
    if not condition:
        print('FAIL:', message)
        sys.exit(1)


# --------------------------------------------------------------------------
# deep structural fingerprints (Grid.__eq__ does not look inside of boxes)


def fp_object(obj):
    if isinstance(obj, Box):
        extra = fp_object(obj.content)
    elif isinstance(obj, Door):
        extra = obj.state
    else:
        extra = None
    return (
        type(obj).__name__,
        obj.state_index,
        obj.color,
        obj.blocks_movement,
        obj.blocks_vision,
        obj.holdable,
        extra,
    )


def fp_grid(grid):
    return (
        grid.shape,
        grid.area,
        tuple(tuple(fp_object(obj) for obj in row) for row in grid.objects),
    )


def fp_agent(agent):
    return (agent.position, agent.orientation, fp_object(agent.grid_object))


def fp(x):
    """fingerprint of a State or Observation"""
    return (fp_grid(x.grid), fp_agent(x.agent))


def identity_snapshot(grid):
    """which list / object sits where, by identity"""
    return (
        id(grid.objects),
        tuple(id(row) for row in grid.objects),
        tuple(tuple(id(obj) for obj in row) for row in grid.objects),
    )


def mutable_ids(x):
    """ids of every mutable component reachable from a State/Observation"""
    ids = {id(x.grid), id(x.grid.objects), id(x.agent), id(x.agent.transform)}

    def add_object(obj):
        ids.add(id(obj))
        if isinstance(obj, Box):
            add_object(obj.content)

    for row in x.grid.objects:
        ids.add(id(row))
        for obj in row:
            add_object(obj)
    add_object(x.agent.grid_object)
    return ids


# --------------------------------------------------------------------------
# reference implementations (pristine spelling)


def ref_subgrid(grid, area):
    return Grid(
        [
            [
                grid.objects[y][x]
                if 0 <= y < grid.area.height and 0 <= x < grid.area.width
                else Hidden()
                for x in area.x_coordinates()
            ]
            for y in area.y_coordinates()
        ]
    )


_ref_rotations = {
    Orientation.F: lambda data: data,
    Orientation.R: lambda data: [list(row) for row in zip(*data)][::-1],
    Orientation.B: lambda data: [d[::-1] for d in data[::-1]],
    Orientation.L: lambda data: [list(row) for row in zip(*data[::-1])],
}


def ref_from_visibility(state, *, area, visibility_function, rng=None):
    pov_area = state.agent.transform * area
    pov_agent_position = Position(-area.ymin, -area.xmin)
    observation_grid = Grid(
        _ref_rotations[state.agent.orientation](
            ref_subgrid(state.grid, pov_area).objects
        )
    )
    visibility = visibility_function(
        observation_grid, pov_agent_position, rng=rng
    )
    assert visibility.shape == (area.height, area.width)
    for pos in observation_grid.area.positions():
        if not visibility[pos.y, pos.x]:
            observation_grid[pos] = Hidden()
    return Observation(
        observation_grid,
        Agent(pov_agent_position, Orientation.F, state.agent.grid_object),
    )


# --------------------------------------------------------------------------
# 1. Grid.subgrid, exhaustively


def all_objects():
    """an endless supply of distinguishable objects"""
    makers = [
        Floor,
        Wall,
        Exit,
        lambda: Exit(Color.GREEN),
        lambda: Door(Door.Status.OPEN, Color.RED),
        lambda: Door(Door.Status.CLOSED, Color.NONE),
        lambda: Door(Door.Status.LOCKED, Color.YELLOW),
        lambda: Key(Color.YELLOW),
        lambda: Key(Color.NONE),
        MovingObstacle,
        lambda: Box(Key(Color.BLUE)),
        lambda: Box(Box(Door(Door.Status.LOCKED, Color.GREEN))),
        lambda: Telepod(Color.RED),
        lambda: Beacon(Color.BLUE),
        Hidden,  # a grid may legitimately contain Hidden (observations do)
    ]
    return itt.cycle(makers)


def make_grid(height, width):
    makers = all_objects()
    return Grid([[next(makers)() for _ in range(width)] for _ in range(height)])


def check_subgrid(grid, area):
    before_ids = identity_snapshot(grid)
    before_fp = fp_grid(grid)

    sub = grid.subgrid(area)
    ref = ref_subgrid(grid, area)

    check(type(sub) is Grid, 'subgrid returns a Grid')
    check(
        sub.shape == Shape(area.height, area.width) == ref.shape,
        f'subgrid shape {sub.shape} for {area}',
    )
    check(sub.area == ref.area, 'subgrid area')
    check(sub == ref and hash(sub) == hash(ref), 'subgrid == reference')
    check(fp_grid(sub) == fp_grid(ref), 'subgrid deep-equals reference')

    hidden_ids = set()
    for i, y in enumerate(area.y_coordinates()):
        for j, x in enumerate(area.x_coordinates()):
            obj = sub.objects[i][j]
            if 0 <= y < grid.shape.height and 0 <= x < grid.shape.width:
                check(obj is grid.objects[y][x], f'cell ({y},{x}) by identity')
                check(obj is ref.objects[i][j], 'same identity as reference')
            else:
                check(type(obj) is Hidden, f'cell ({y},{x}) is Hidden')
                check(id(obj) not in hidden_ids, 'one Hidden per cell')
                hidden_ids.add(id(obj))

    # rows are fresh lists
    row_ids = {id(row) for row in sub.objects}
    check(len(row_ids) == area.height, 'no row shared between two rows')
    check(
        row_ids.isdisjoint(id(row) for row in grid.objects)
        and id(sub.objects) != id(grid.objects),
        'no row shared with the sliced grid',
    )

    # the sliced grid is untouched, also after writing into the slice
    for position in list(sub.area.positions()):
        sub[position] = Wall()
    check(identity_snapshot(grid) == before_ids, 'sliced grid identities')
    check(fp_grid(grid) == before_fp, 'sliced grid contents')


for height, width in [(1, 1), (1, 4), (3, 1), (3, 2), (2, 5), (4, 4)]:
    grid = make_grid(height, width)
    y_bounds = range(-3, height + 3)
    x_bounds = range(-3, width + 3)
    for ymin, ymax in itt.combinations_with_replacement(y_bounds, 2):
        for xmin, xmax in itt.combinations_with_replacement(x_bounds, 2):
            check_subgrid(grid, Area((ymin, ymax), (xmin, xmax)))

# far away and huge areas
grid = make_grid(3, 5)
for area in [
    Area((-50, -40), (-3, 2)),
    Area((40, 41), (0, 4)),
    Area((0, 2), (100, 100)),
    Area((-20, 20), (-20, 20)),
    Area((0, 2), (0, 4)),  # the whole grid
]:
    check_subgrid(grid, area)

# errors of an inconsistent (ragged) container are the same as before
ragged = Grid([[Floor(), Floor(), Floor()], [Floor(), Floor(), Floor()]])
ragged.objects[1].pop()
for area in [Area((0, 1), (0, 2)), Area((1, 1), (2, 4)), Area((-1, 0), (0, 2))]:
    outcomes = []
    for f in (ragged.subgrid, partial(ref_subgrid, ragged)):
        try:
            outcomes.append(fp_grid(f(area)))
        except IndexError:
            outcomes.append('IndexError')
    check(outcomes[0] == outcomes[1], f'ragged grid outcome for {area}')


# --------------------------------------------------------------------------
# 2. observation functions vs reference, purity, history independence


def make_state(height, width, agent_position, orientation, held):
    """non-square room with doors, keys, nested boxes, telepods, obstacles"""
    grid = Grid.from_shape((height, width))
    for position in grid.area.positions('border'):
        grid[position] = Wall()
    inside = list(grid.area.positions('inside'))
    makers = [
        lambda: Door(Door.Status.LOCKED, Color.YELLOW),
        Floor,
        lambda: Key(Color.YELLOW),
        lambda: Door(Door.Status.CLOSED, Color.NONE),
        Floor,
        lambda: Box(Box(Key(Color.RED))),
        Floor,
        lambda: Telepod(Color.BLUE),
        Wall,
        lambda: Door(Door.Status.OPEN, Color.GREEN),
        MovingObstacle,
        Floor,
        lambda: Telepod(Color.BLUE),
        lambda: Box(Exit()),
        Floor,
        Exit,
        lambda: Beacon(Color.GREEN),
    ]
    for position, maker in zip(inside, itt.cycle(makers)):
        grid[position] = maker()
    return State(grid, Agent(agent_position, orientation, held))


AREAS = [
    Area((-6, 0), (-3, 3)),  # the usual 7x7 view
    Area((-2, 0), (-1, 1)),
    Area((-3, 0), (-1, 2)),  # asymmetric, even width
    Area((-1, 0), (-4, 0)),  # agent in the corner of its view
    Area((0, 0), (0, 0)),  # only the agent's cell
    Area((-4, 0), (0, 0)),  # a single column
    Area((0, 0), (-2, 3)),  # a single row
    Area((-2, 2), (-1, 3)),  # agent in the middle (not for partially_occluded)
    Area((-9, 3), (-8, 8)),  # larger than the grid
]

HELD = [None, Key(Color.YELLOW), Box(Key(Color.NONE))]


def observation_functions_for(area):
    names = ['fully_transparent', 'raytracing', 'stochastic_raytracing']
    if area.ymax == 0:
        names.append('partially_occluded')
    return names


def other_calls(i):
    """intervening calls on other grids / areas (fills the ray caches)"""
    state = make_state(4 + i % 3, 5 + i % 2, Position(1, 1), Orientation.R, None)
    for name in ['raytracing', 'partially_occluded', 'fully_transparent']:
        observation_fs.factory(name, area=Area((-2 - i % 3, 0), (-1, 1 + i % 2)))(
            state
        )


counter = 0
first_answers = {}
for (height, width), area in itt.product([(4, 6), (5, 4)], AREAS):
    inside_and_border = [
        Position(y, x) for y in range(height) for x in range(width)
    ]
    for agent_position, orientation in itt.product(
        inside_and_border, list(Orientation)
    ):
        counter += 1
        if counter % 3 and area.height * area.width > 60:
            continue  # thin out the most expensive combinations
        held = HELD[counter % len(HELD)]
        state = make_state(height, width, agent_position, orientation, held)
        before_ids = identity_snapshot(state.grid)
        before_fp = fp(state)
        held_before = state.agent.grid_object

        for name in observation_functions_for(area):
            f = observation_fs.factory(name, area=area)
            observation = f(state, rng=make_rng(counter))
            reference = ref_from_visibility(
                state,
                area=area,
                visibility_function=visibility_function_registry[name],
                rng=make_rng(counter),
            )
            check(
                fp(observation) == fp(reference),
                f'{name} observation == reference ({area}, {agent_position}, '
                f'{orientation})',
            )
            check(
                observation == reference
                and hash(observation.grid) == hash(reference.grid)
                and hash(observation.agent) == hash(reference.agent),
                'observation equality / hash',
            )
            # same identity pattern as the reference (cells of the state show
            # up in the same places)
            check(
                all(
                    (a is b) or (type(a) is Hidden and type(b) is Hidden)
                    for row_a, row_b in zip(
                        observation.grid.objects, reference.grid.objects
                    )
                    for a, b in zip(row_a, row_b)
                ),
                'identity pattern of the observation',
            )
            hiddens = [
                id(obj)
                for row in observation.grid.objects
                for obj in row
                if type(obj) is Hidden
            ]
            state_ids = {
                id(obj) for row in state.grid.objects for obj in row
            }
            fresh_hiddens = [i for i in hiddens if i not in state_ids]
            check(
                len(set(fresh_hiddens)) == len(fresh_hiddens),
                'no Hidden shared between two observation cells',
            )
            # the state is untouched
            check(fp(state) == before_fp, f'{name} leaves the state as is')
            check(
                identity_snapshot(state.grid) == before_ids
                and state.agent.grid_object is held_before,
                f'{name} leaves the state identities as is',
            )
            # rows of the observation are its own
            check(
                {id(row) for row in observation.grid.objects}.isdisjoint(
                    id(row) for row in state.grid.objects
                ),
                'observation rows are not state rows',
            )
            # writing into the observation grid does not reach the state
            for position in list(observation.grid.area.positions()):
                observation.grid[position] = Floor()
            check(fp(state) == before_fp, 'state unaffected by observation')

            if name != 'stochastic_raytracing' and counter % 7 == 0:
                first_answers[
                    (height, width, area, agent_position, orientation, name)
                ] = (state, fp(f(state)))

for i in range(12):
    other_calls(i)

for key, (state, answer) in first_answers.items():
    *_, area, _, _, name = key
    check(
        fp(observation_fs.factory(name, area=area)(state)) == answer,
        f'history independence of {name}',
    )
    check(
        fp(observation_fs.factory(name, area=area)(fast_copy(state))) == answer,
        f'{name} on a copy of the state',
    )


# --------------------------------------------------------------------------
# 3. GridWorld: functional interface is pure and alias-free


def make_env(shape, area, observation_name, object_types, colors, reset):
    transition = partial(
        transition_fs.chain,
        transition_functions=[
            transition_fs.move_agent,
            transition_fs.turn_agent,
            transition_fs.actuate_door,
            transition_fs.actuate_box,
            transition_fs.pickndrop,
            transition_fs.move_obstacles,
            transition_fs.teleport,
        ],
    )
    reward = partial(
        reward_fs.reduce_sum,
        reward_functions=[
            partial(reward_fs.reach_exit, reward_on=5.0, reward_off=0.0),
            partial(reward_fs.living_reward, reward=-0.05),
            partial(
                reward_fs.bump_into_wall,
                reward=-1.0,
            ),
            partial(
                reward_fs.pickndrop,
                object_type=Key,
                reward_pick=1.0,
                reward_drop=-1.0,
            ),
            partial(
                reward_fs.actuate_door, reward_open=1.0, reward_close=-1.0
            ),
        ],
    )
    terminating = partial(
        terminating_fs.reduce_any,
        terminating_functions=[
            terminating_fs.reach_exit,
            terminating_fs.bump_moving_obstacle,
        ],
    )
    return GridWorld(
        StateSpace(shape, object_types, colors),
        ActionSpace(list(Action)),
        ObservationSpace(Shape(area.height, area.width), object_types, colors),
        reset,
        transition,
        observation_fs.factory(observation_name, area=area),
        reward,
        terminating,
    )


OBJECT_TYPES = [
    Floor,
    Wall,
    Exit,
    Door,
    Key,
    MovingObstacle,
    Box,
    Telepod,
    Beacon,
]
COLORS = list(Color)


def check_env_state(env, state, tag):
    """all actions from one state; returns the successor states"""
    before_fp = fp(state)
    before_ids = identity_snapshot(state.grid)
    before_agent = (state.agent, state.agent.transform, state.agent.grid_object)

    copy = fast_copy(state)
    check(copy == state and hash(copy.grid) == hash(state.grid), 'copy ==')
    check(hash(copy.agent) == hash(state.agent), 'copy hashes like original')
    check(fp(copy) == before_fp, 'copy deep-equals original')
    check(mutable_ids(copy).isdisjoint(mutable_ids(state)), 'copy alias-free')

    next_states = []
    for action in env.action_space.actions:
        env.set_seed(17)
        next_state, reward, done = env.functional_step(state, action)
        check(fp(state) == before_fp, f'{tag}: step({action}) keeps the input')
        check(
            identity_snapshot(state.grid) == before_ids
            and (state.agent, state.agent.transform, state.agent.grid_object)
            == before_agent
            and state.agent.transform is before_agent[1]
            and state.agent.grid_object is before_agent[2],
            f'{tag}: step({action}) keeps the input identities',
        )
        check(
            mutable_ids(next_state).isdisjoint(mutable_ids(state)),
            f'{tag}: step({action}) result is alias-free',
        )

        # asked again (same seed), from the state and from its copy
        env.set_seed(17)
        again = env.functional_step(copy, action)
        check(
            (fp(again[0]), again[1], again[2]) == (fp(next_state), reward, done),
            f'{tag}: step({action}) repeatable',
        )

        # mutating the result does not reach the input, and vice versa
        next_fp = fp(next_state)
        scratch = fast_copy(next_state)
        for position in list(scratch.grid.area.positions()):
            obj = scratch.grid[position]
            if isinstance(obj, Door):
                obj.state = Door.Status.OPEN
            scratch.grid[position] = Wall()
        check(fp(state) == before_fp and fp(next_state) == next_fp, 'scratch')

        env.set_seed(3)
        observation = env.functional_observation(next_state)
        check(fp(next_state) == next_fp, f'{tag}: observation keeps the state')
        env.set_seed(3)
        check(
            fp(env.functional_observation(fast_copy(next_state)))
            == fp(observation),
            f'{tag}: observation repeatable',
        )
        next_states.append(next_state)
    return next_states


def explore(env, state, tag, depth, limit):
    frontier, seen, n = [state], {fp(state)}, 0
    for _ in range(depth):
        new_frontier = []
        for s in frontier:
            for next_state in check_env_state(env, s, tag):
                n += 1
                if fp(next_state) not in seen and len(seen) < limit:
                    seen.add(fp(next_state))
                    new_frontier.append(next_state)
        frontier = new_frontier
    return n


envs = []
for (height, width), (area, observation_name) in itt.product(
    [(4, 6), (5, 4)],
    [
        (Area((-2, 0), (-1, 1)), 'partially_occluded'),
        (Area((-3, 0), (-2, 2)), 'raytracing'),
        (Area((-1, 1), (-3, 3)), 'fully_transparent'),
        (Area((-6, 0), (-3, 3)), 'stochastic_raytracing'),
    ],
):
    for agent_position, orientation, held in [
        (Position(1, 1), Orientation.F, None),
        (Position(height - 2, width - 2), Orientation.L, Key(Color.YELLOW)),
        (Position(1, width - 2), Orientation.B, Box(Key(Color.NONE))),
        (Position(2, 2), Orientation.R, Key(Color.RED)),
    ]:
        prototype = make_state(height, width, agent_position, orientation, held)
        env = make_env(
            Shape(height, width),
            area,
            observation_name,
            OBJECT_TYPES,
            COLORS,
            lambda rng=None, prototype=prototype: fast_copy(prototype),
        )
        envs.append(env)
        env.set_seed(1)
        state = env.functional_reset()
        check(fp(state) == fp(prototype), 'reset')
        explore(env, state, f'{height}x{width}/{observation_name}', 2, 12)

# shipped compositions: the yaml package may be missing, and the files only use
# a tiny subset of the format (block mappings / sequences, flow lists, plain
# scalars), which is parsed here


def _yaml_scalar(text):
    text = text.strip()
    if text.startswith('['):
        items, depth, start = [], 0, 1
        for i, c in enumerate(text):
            if c == '[':
                depth += 1
            elif c == ']':
                depth -= 1
                if depth == 0:
                    if text[start:i].strip():
                        items.append(text[start:i])
                    break
            elif c == ',' and depth == 1:
                items.append(text[start:i])
                start = i + 1
        return [_yaml_scalar(item) for item in items]
    if text in ('True', 'true'):
        return True
    if text in ('False', 'false'):
        return False
    for convert in (int, float):
        try:
            return convert(text)
        except ValueError:
            pass
    return text


def _yaml_block(lines, i, indent):
    """lines: list of (indent, text);  returns (value, next index)"""
    if lines[i][1].startswith('- '):
        items = []
        while i < len(lines) and lines[i][0] == indent:
            assert lines[i][1].startswith('- ')
            rest = lines[i][1][2:]
            if re.match(r'^[A-Za-z_]+:', rest):
                lines[i] = (indent + 2, rest)
                item, i = _yaml_block(lines, i, indent + 2)
            else:
                item, i = _yaml_scalar(rest), i + 1
            items.append(item)
        return items, i

    mapping = {}
    while i < len(lines) and lines[i][0] == indent:
        key, _, rest = lines[i][1].partition(':')
        if rest.strip():
            mapping[key.strip()], i = _yaml_scalar(rest), i + 1
        else:
            mapping[key.strip()], i = _yaml_block(lines, i + 1, lines[i + 1][0])
    return mapping, i


def mini_yaml_load(path):
    lines = []
    with open(path) as f:
        for line in f:
            line = line.split('#')[0].rstrip()
            if line.strip():
                lines.append((len(line) - len(line.lstrip()), line.strip()))
    data, i = _yaml_block(lines, 0, 0)
    assert i == len(lines)
    return data


try:
    from gym_gridverse.envs.yaml.factory import factory_env_from_data

    def factory_env_from_yaml(path):
        return factory_env_from_data(mini_yaml_load(path))

    paths = sorted(
        glob.glob(os.path.join('gym_gridverse', 'registered_envs', '*.yaml'))
    )
except Exception as error:  # pragma: no cover
    print('skipping shipped compositions:', type(error).__name__, error)
    paths = []

n_shipped = 0
for path in paths:
    try:
        env = factory_env_from_yaml(path)
    except Exception as error:  # pragma: no cover
        print('skipping', path, type(error).__name__, error)
        continue
    n_shipped += 1
    for seed in (0, 1):
        env.set_seed(seed)
        state = env.functional_reset()
        # interleave with calls on all the previously built environments
        for other in envs[:: max(1, len(envs) // 4)]:
            other.set_seed(seed)
            other.functional_observation(other.functional_reset())
        explore(env, state, os.path.basename(path), 2, 6)

print(f'OK ({n_checks} checks, {n_shipped} shipped compositions)')
