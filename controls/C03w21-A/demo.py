"""Demo for change A: `rng.choice_or_none` used by `move_obstacles` / `teleport`.

Runs (and exits 0) on the pristine tree and with the patch applied.  It embeds a
reference implementation of the two stochastic transition functions, spelled
exactly like the pristine code, and compares states *and* generator states.
"""
import itertools as itt
import sys
from functools import partial

import numpy as np
import numpy.random as rnd

sys.path.insert(0, '.')

from gym_gridverse import rng as gv_rng  # noqa: E402
from gym_gridverse.action import Action  # noqa: E402
from gym_gridverse.agent import Agent  # noqa: E402
from gym_gridverse.envs import observation_functions as ofs  # noqa: E402
from gym_gridverse.envs import reward_functions as rfs  # noqa: E402
from gym_gridverse.envs import terminating_functions as tfs  # noqa: E402
from gym_gridverse.envs import transition_functions as trs  # noqa: E402
from gym_gridverse.envs import visibility_functions as vfs  # noqa: E402
from gym_gridverse.envs.gridworld import GridWorld  # noqa: E402
from gym_gridverse.geometry import (  # noqa: E402
    Area,
    Orientation,
    Position,
    Shape,
    get_manhattan_boundary,
)
from gym_gridverse.grid import Grid  # noqa: E402
from gym_gridverse.grid_object import (  # noqa: E402
    Box,
    Color,
    Door,
    Exit,
    Floor,
    Key,
    MovingObstacle,
    NoneGridObject,
    Telepod,
    Wall,
)
from gym_gridverse.spaces import (  # noqa: E402
    ActionSpace,
    ObservationSpace,
    StateSpace,
)
from gym_gridverse.state import State  # noqa: E402
from gym_gridverse.utils.fast_copy import fast_copy  # noqa: E402

ACTIONS = list(Action)
ORIENTATIONS = [Orientation.F, Orientation.R, Orientation.B, Orientation.L]
checks = 0


def check(condition, message):
    global checks
    checks += 1
    if not condition:
        print('FAIL:', message)
        sys.exit(1)


# -- reference implementations (pristine spelling) ---------------------------


def ref_move_obstacles(state, action, *, rng=None):
    rng = gv_rng.get_gv_rng_if_none(rng)
    positions = [
        position
        for position in state.grid.area.positions()
        if isinstance(state.grid[position], MovingObstacle)
    ]
    for position in positions:
        next_positions = [
            next_position
            for next_position in get_manhattan_boundary(position, distance=1)
            if state.grid.area.contains(next_position)
            and isinstance(state.grid[next_position], Floor)
        ]
        try:
            i = rng.choice(len(next_positions))
        except ValueError:
            pass
        else:
            next_position = next_positions[i]
            state.grid.swap(position, next_position)


def ref_teleport(state, action, *, rng=None):
    rng = gv_rng.get_gv_rng_if_none(rng)
    telepod = state.grid[state.agent.position]
    if isinstance(telepod, Telepod):
        positions = [
            position
            for position in state.grid.area.positions()
            if position != state.agent.position
            and isinstance(state.grid[position], Telepod)
            and state.grid[position].color == telepod.color
        ]
        try:
            i = rng.choice(len(positions))
        except ValueError:
            pass
        else:
            state.agent.position = positions[i]


# -- helpers ------------------------------------------------------------------


def rng_state(rng):
    return repr(rng.bit_generator.state)


def mutable_ids(state):
    """ids of every mutable component reachable from a state"""
    ids = {id(state.grid), id(state.grid.objects), id(state.agent)}
    ids.add(id(state.agent.transform))

    def add_object(obj):
        ids.add(id(obj))
        if isinstance(obj, Box):
            add_object(obj.content)

    for row in state.grid.objects:
        ids.add(id(row))
        for obj in row:
            add_object(obj)
    add_object(state.agent.grid_object)
    return ids


def snapshot(state):
    return fast_copy(state), hash(state), repr(state)


def check_unchanged(state, snap, message):
    copy, h, r = snap
    check(state == copy, f'{message}: state was modified')
    check(hash(state) == h, f'{message}: hash changed')
    check(repr(state) == r, f'{message}: repr changed')


def make_state(height, width, cells, agent_yx, orientation, held=None):
    grid = Grid.from_shape((height, width))
    for (y, x), factory in cells.items():
        grid[y, x] = factory()
    return State(grid, Agent(Position(*agent_yx), orientation, held))


def random_state(gen, height, width):
    """random grid densely filled with obstacles, walls, telepods, ..."""
    factories = [
        Floor,
        Floor,
        Floor,
        MovingObstacle,
        MovingObstacle,
        Wall,
        partial(Telepod, Color.RED),
        partial(Telepod, Color.BLUE),
        partial(Telepod, Color.NONE),
        partial(Key, Color.GREEN),
        partial(Door, Door.Status.LOCKED, Color.GREEN),
        lambda: Box(Box(Key(Color.YELLOW))),
        Exit,
    ]
    grid = Grid.from_shape((height, width))
    for position in grid.area.positions():
        grid[position] = factories[gen.integers(len(factories))]()
    agent_position = Position(gen.integers(height), gen.integers(width))
    # the agent frequently stands on a telepod
    if gen.random() < 0.5:
        grid[agent_position] = Telepod(
            [Color.RED, Color.BLUE, Color.NONE][gen.integers(3)]
        )
    held = [None, Key(Color.RED), Box(Floor())][gen.integers(3)]
    orientation = ORIENTATIONS[gen.integers(4)]
    return State(grid, Agent(agent_position, orientation, held))


def handcrafted_states():
    O, W = MovingObstacle, Wall
    red, blue, none = (
        partial(Telepod, Color.RED),
        partial(Telepod, Color.BLUE),
        partial(Telepod, Color.NONE),
    )
    yield 'obstacles in all corners, 3x5', make_state(
        3, 5, {(0, 0): O, (0, 4): O, (2, 0): O, (2, 4): O}, (1, 2), Orientation.F
    )
    yield 'boxed-in obstacle (no draw)', make_state(
        3, 3, {(0, 1): W, (1, 0): W, (1, 2): W, (2, 1): W, (1, 1): O}, (0, 0), Orientation.R
    )
    yield 'grid full of obstacles (no draw at all)', make_state(
        2, 3, {(y, x): O for y in range(2) for x in range(3)}, (0, 0), Orientation.B
    )
    yield '1x1 obstacle', make_state(1, 1, {(0, 0): O}, (0, 0), Orientation.L)
    yield '1x4 corridor', make_state(1, 4, {(0, 0): O, (0, 2): O}, (0, 3), Orientation.L)
    yield '5x1 corridor', make_state(5, 1, {(4, 0): O, (1, 0): O}, (0, 0), Orientation.B)
    yield 'adjacent obstacles, 4x2', make_state(
        4, 2, {(0, 0): O, (0, 1): O, (1, 0): O}, (3, 1), Orientation.F
    )
    yield 'single telepod (no draw)', make_state(
        3, 4, {(0, 0): red}, (0, 0), Orientation.F
    )
    yield 'telepod pair in opposite corners', make_state(
        3, 4, {(0, 0): red, (2, 3): red}, (2, 3), Orientation.R
    )
    yield 'telepod, other colours only (no draw)', make_state(
        3, 4, {(0, 0): red, (2, 3): blue, (1, 1): none}, (0, 0), Orientation.R
    )
    yield 'colour NONE telepods, three candidates', make_state(
        2, 5, {(0, 0): none, (0, 4): none, (1, 0): none, (1, 4): none, (1, 2): red},
        (1, 4), Orientation.B, Key(Color.NONE),
    )
    yield 'agent not on telepod', make_state(
        3, 3, {(0, 0): red, (2, 2): red}, (1, 1), Orientation.L
    )
    yield 'telepods and obstacles together', make_state(
        4, 6, {(0, 0): blue, (3, 5): blue, (0, 5): blue, (1, 1): O, (3, 0): O, (2, 4): O},
        (0, 5), Orientation.F, Box(Key(Color.BLUE)),
    )


def all_states():
    yield from handcrafted_states()
    gen = rnd.default_rng(20210327)
    shapes = [(1, 1), (1, 5), (6, 1), (2, 2), (3, 7), (7, 3), (5, 5), (4, 9)]
    for height, width in shapes:
        for k in range(12):
            yield f'random {height}x{width} #{k}', random_state(gen, height, width)


# -- 1. direct comparison with reference, including generator states ----------


def compare_with_reference(name, state):
    pairs = [
        ('move_obstacles', trs.move_obstacles, ref_move_obstacles),
        ('teleport', trs.teleport, ref_teleport),
    ]
    for (fname, function, reference), seed in itt.product(pairs, range(6)):
        for action in (Action.MOVE_FORWARD, Action.ACTUATE):
            message = f'{fname} / {name} / seed {seed} / {action}'
            # explicit generator
            s, r = fast_copy(state), fast_copy(state)
            rng_s, rng_r = rnd.default_rng(seed), rnd.default_rng(seed)
            check(function(s, action, rng=rng_s) is None, f'{message}: returns None')
            reference(r, action, rng=rng_r)
            check(s == r and hash(s) == hash(r), f'{message}: differs from reference')
            check(repr(s) == repr(r), f'{message}: repr differs from reference')
            check(rng_state(rng_s) == rng_state(rng_r), f'{message}: different draws')
            # a second call continues the same stream
            function(s, action, rng=rng_s)
            reference(r, action, rng=rng_r)
            check(s == r, f'{message}: second call differs from reference')
            check(rng_state(rng_s) == rng_state(rng_r), f'{message}: different draws (2)')

            # library-level generator
            s, r = fast_copy(state), fast_copy(state)
            gv_rng.reset_gv_rng(seed)
            function(s, action)
            state_s = rng_state(gv_rng.get_gv_rng())
            gv_rng.reset_gv_rng(seed)
            reference(r, action)
            state_r = rng_state(gv_rng.get_gv_rng())
            check(s == r, f'{message}: differs from reference (library rng)')
            check(state_s == state_r, f'{message}: different draws (library rng)')


# -- 2. property through the functional interface ----------------------------


def make_env(shape, observation_shape, visibility):
    object_types = [
        Floor, Wall, Exit, Door, Key, MovingObstacle, Box, Telepod,
    ]
    colors = list(Color)
    state_space = StateSpace(shape, object_types, colors)
    action_space = ActionSpace(ACTIONS)
    observation_space = ObservationSpace(observation_shape, object_types, colors)

    transition = partial(
        trs.chain,
        transition_functions=[
            trs.turn_agent,
            trs.move_agent,
            trs.teleport,
            trs.actuate_door,
            trs.actuate_box,
            trs.pickndrop,
            trs.move_obstacles,
        ],
    )
    observation = partial(
        ofs.from_visibility,
        area=observation_space.area,
        visibility_function=visibility,
    )
    reward = partial(
        rfs.reduce_sum,
        reward_functions=[
            partial(rfs.living_reward, reward=-0.25),
            rfs.reach_exit,
            rfs.bump_moving_obstacle,
            rfs.bump_into_wall,
            rfs.actuate_door,
            partial(rfs.pickndrop, object_type=Key),
        ],
    )
    termination = partial(
        tfs.reduce_any,
        terminating_functions=[
            tfs.reach_exit,
            tfs.bump_moving_obstacle,
            tfs.bump_into_wall,
        ],
    )

    def reset(*, rng=None):
        return make_state(shape.height, shape.width, {}, (0, 0), Orientation.F)

    return GridWorld(
        state_space,
        action_space,
        observation_space,
        reset,
        transition,
        observation,
        reward,
        termination,
    )


def check_functional_interface(name, state, other_states):
    shape = state.grid.shape
    env = make_env(shape, Shape(3, 5), vfs.partially_occluded)
    env_twin = make_env(shape, Shape(3, 5), vfs.partially_occluded)
    env_other = make_env(Shape(4, 6), Shape(5, 3), vfs.fully_transparent)

    # a copy equals and hashes like the original
    copy = fast_copy(state)
    check(copy == state and hash(copy) == hash(state), f'{name}: copy equals/hashes')
    check(not (mutable_ids(copy) & mutable_ids(state)), f'{name}: copy aliases')

    for action in ACTIONS:
        message = f'{name} / {action}'
        snap = snapshot(state)

        env.set_seed(11)
        next_state, reward, terminal = env.functional_step(state, action)
        check_unchanged(state, snap, f'{message}: functional_step')
        check(
            not (mutable_ids(state) & mutable_ids(next_state)),
            f'{message}: next state aliases its input',
        )
        check(isinstance(reward, float), f'{message}: reward type')
        check(isinstance(terminal, (bool, np.bool_)), f'{message}: terminal type')

        # same answer from a reference transition with the same stream
        expected = fast_copy(state)
        rng = rnd.default_rng(11)
        for function in (
            trs.turn_agent,
            trs.move_agent,
            ref_teleport,
            trs.actuate_door,
            trs.actuate_box,
            trs.pickndrop,
            ref_move_obstacles,
        ):
            function(expected, action, rng=rng)
        check(next_state == expected, f'{message}: differs from reference chain')
        check(hash(next_state) == hash(expected), f'{message}: hash differs')
        check(
            rng_state(env._rng) == rng_state(rng),
            f'{message}: env generator advanced differently',
        )

        observation = env.functional_observation(state)
        check_unchanged(state, snap, f'{message}: functional_observation')

        # mutating the next state afterwards leaves the input alone (and v.v.)
        next_state.grid[0, 0] = Wall()
        next_state.agent.orientation = next_state.agent.orientation * Orientation.R
        next_state.agent.grid_object = Key(Color.YELLOW)
        check_unchanged(state, snap, f'{message}: mutation of next state')

        # intervening calls on this and other environments (cache histories)
        env_other.set_seed(3)
        for other, other_action in zip(other_states, itt.cycle(ACTIONS)):
            other_env = make_env(other.grid.shape, Shape(3, 5), vfs.raytracing)
            other_env.set_seed(5)
            other_env.functional_step(other, other_action)
            other_env.functional_observation(other)
        s = env_other.functional_reset()
        for other_action in ACTIONS:
            s, _, _ = env_other.functional_step(s, other_action)
            env_other.functional_observation(s)
        env.functional_step(state, ACTIONS[(ACTIONS.index(action) + 1) % len(ACTIONS)])
        gv_rng.reset_gv_rng(99)

        # asking again, after re-seeding, gives an equal answer
        env.set_seed(11)
        again = env.functional_step(state, action)
        check(again[0] == expected, f'{message}: repeated step differs')
        check(again[1] == reward and again[2] == terminal, f'{message}: repeated r/t')
        check(hash(again[0]) == hash(expected), f'{message}: repeated hash differs')
        check(
            env.functional_observation(state) == observation,
            f'{message}: repeated observation differs',
        )
        env_twin.set_seed(11)
        twin = env_twin.functional_step(fast_copy(state), action)
        check(twin[0] == expected and twin[1:] == again[1:], f'{message}: twin env differs')
        check_unchanged(state, snap, f'{message}: after everything')


def main():
    states = list(all_states())
    for name, state in states:
        compare_with_reference(name, state)

    others = [state for _, state in states[:4]]
    for name, state in states[:13] + states[13::5]:
        check_functional_interface(name, state, others)

    print(f'demo A: OK ({checks} checks, {len(states)} states)')


if __name__ == '__main__':
    main()
