"""Grid.subgrid as fill-and-copy equals the reference slice for every small grid and area."""
import itertools
import os
import sys

sys.path.insert(0, os.getcwd())
from gym_gridverse.geometry import Area
from gym_gridverse.grid import Grid
from gym_gridverse.grid_object import Floor, Hidden, Wall


def reference(grid, area):
    return [[type(grid.objects[y][x]) if 0 <= y < grid.shape.height and 0 <= x < grid.shape.width
             else Hidden for x in range(area.xmin, area.xmax + 1)]
            for y in range(area.ymin, area.ymax + 1)]


n = 0
for h, w in itertools.product((1, 2, 3), repeat=2):
    grid = Grid([[Wall() if (y + x) % 2 else Floor() for x in range(w)] for y in range(h)])
    for y0 in range(-2, 4):
        for y1 in range(y0, 5):
            for x0 in range(-2, 4):
                for x1 in range(x0, 5):
                    area = Area((y0, y1), (x0, x1))
                    sub = grid.subgrid(area)
                    got = [[type(o) for o in row] for row in sub.objects]
                    assert got == reference(grid, area), (h, w, area)
                    for yy in range(y0, y1 + 1):
                        for xx in range(x0, x1 + 1):
                            if 0 <= yy < h and 0 <= xx < w:
                                assert sub.objects[yy - y0][xx - x0] is grid.objects[yy][xx]
                    n += 1
print('ok', n)
